"""C01 - pair-verify yields session keys only for the authentic paired accessory."""
from __future__ import annotations

import asyncio
import json
import random
import re
import struct
from unittest import mock

from cryptography.hazmat.primitives.asymmetric import ed25519, x25519
from cryptography.hazmat.primitives.ciphers.aead import ChaCha20Poly1305

from harness import cryptoval, refacc, simnet
from harness.acc import Accessory, http
from harness.common import Ctx, Driver, compare_with_model, hx, load_corpus, unhx
from harness.rcsim import settle

import aiohomekit.exceptions as E
import aiohomekit.protocol as P
from aiohomekit.protocol.tlv import TLV, TlvParseException

ID = "C01"
RULE = ("honest exchanges over random records/ephemerals; adversarial M2/M4: every single-bit flip of the accessory public key, a sample of bit and byte corruptions of the encrypted "
        "data and of the decrypted sub-TLV re-sealed under the right key, removal/duplication/reordering of TLV items, wrong long-term key, wrong identifier, signature over a permuted "
        "transcript, M2 recorded from another exchange, 31/33-byte keys, low-order key, M4 with error/foreign state; resumption with right and wrong secrets; the three key install sites; "
        "refusals: M2 / M4 / pair-resume replies carrying an Error item of ANY value (every defined code, 0x00, reserved and vendor one-byte codes, every defined code with one bit flipped, empty, "
        "multi-byte and fragmented values) before / after / without the State item and next to otherwise genuine fields, as a decoded list, through the IP/CoAP expected-type filter and as the BLE dict; "
        "IP session histories on the simulated network (unpatched IpPairing, genuine accessory slow to answer M1 / M3 by 0..31 s, optionally a relaying man in the middle that answers unencrypted requests itself): "
        "{first connection, session lost by peer close / reset / request time-out / close()} x {pair-verify that succeeds, is refused with any Error value, is forged, stalls or is cut} x callers on every "
        "request entry point at instants before the loss, during the TCP connect, inside the M2 and M4 windows (ends included) and after - a grid over ending x window x entry point plus random histories of 2-4 sessions. "
        "non-trivial = distinct (mutation class, field, outcome class) / (session endings, call outcomes)")
TRUSTED = ["reference accessory harness/refacc.py (cryptography)", "Lean Real X25519/Ed25519/HKDF/ChaCha20-Poly1305 (validated against cryptography each run)",
           "harness/simnet.py virtual-time loop and in-memory transport; harness/acc.py scaffold accessory (real pair-verify, AEAD framing) and its bookkeeping of what arrived on each connection, framed or not"]
ASSUMPTIONS = ["unforgeability of Ed25519 and integrity of ChaCha20-Poly1305 (never theorems); the tamper theorems are consequences of the interface laws (Crypto.Laws), proved satisfiable by a toy instance",
               "the controller's ephemeral key is pinned by patching X25519PrivateKey.generate in aiohomekit.protocol",
               "legitimacy oracle: success is expected iff the values the controller actually uses (dict view: last occurrence of each type) are the genuine ones of this exchange; "
               "a reply that carries an Error item is a refusal whatever its value",
               "session histories: a TCP connect takes non-zero (virtual) time; 'the accessory accepted' = the scaffold accessory has sent M4 on that connection; session oracles: nothing but pair-verify POSTs reaches a "
               "connection before its M4, everything after it opens under that session's keys, is_connected/is_available imply an M4 on the connection opened last, a call that returns has been carried by a framed request "
               "and never returns what the man in the middle sent unencrypted"]
EXPLANATION = "Lean theorems C01_* over the model of get_session_keys with an abstract crypto interface; byte-exact differential tie with executable crypto; adversarial streams judged by an independent accessory"


def pinned(seed: bytes):
    return mock.patch.object(P.x25519.X25519PrivateKey, "generate", staticmethod(lambda: x25519.X25519PrivateKey.from_private_bytes(seed)))


def items_str(items):
    return ",".join(f"{int(k)}:{hx(v)}" for k, v in items) if items else "-"


def toks(items):
    return " ".join(f"{int(k)} {hx(v)}" for k, v in items)


def L(items):
    return [[int(k), bytearray(v)] for k, v in items]


CLS = {"InvalidError", "AuthenticationError", "BackoffError", "MaxPeersError", "MaxTriesError", "UnavailableError", "BusyError", "InvalidAuthTagError", "IncorrectPairingIdError",
       "InvalidSignatureError", "ValueError", "TlvParseException", "UnicodeDecodeError"}


def exchange(ident, eph, m2_items, m4_items, via_wire=False):
    """drive the real generator; returns canonical outcome string + python-side details"""
    with pinned(eph):
        g = P.get_session_keys(ident.pairing_data())
        req1, exp = g.send(None)
    m1 = [(k, bytes(v)) for k, v in req1]

    def wire(items, expected):
        # what HomeKitConnection.post_tlv / CoAP do_pair_verify hand to the generator
        if not via_wire:
            return L(items)
        return TLV.decode_bytes(TLV.encode_list(L(items)), expected=expected)
    try:
        req3, exp3 = g.send(wire(m2_items, exp))
    except StopIteration:
        return "early-keys", m1, None, None
    except Exception as e:  # noqa: BLE001
        return "err2 " + type(e).__name__, m1, None, None
    m3 = [(k, bytes(v)) for k, v in req3]
    try:
        g.send(wire(m4_items, exp3))
    except StopIteration as s:
        sid, derive = s.value
        keys = (bytes(sid), derive(b"Control-Salt", b"Control-Write-Encryption-Key"), derive(b"Control-Salt", b"Control-Read-Encryption-Key"), derive(b"Event-Salt", b"Event-Read-Encryption-Key"))
        return f"ok {items_str(m3)} {hx(keys[0])} {hx(keys[1])} {hx(keys[2])} {hx(keys[3])}", m1, m3, keys
    except Exception as e:  # noqa: BLE001
        return f"err4 {type(e).__name__} {items_str(m3)}", m1, m3, None
    return "yielded-again", m1, m3, None


def run(ctx: Ctx, driver: Driver):
    rng = ctx.rng
    rb = lambda n: bytes(rng.randrange(256) for _ in range(n))  # noqa: E731
    cryptoval.validate(ctx, driver, 4)
    cases, outs, lines = [], [], []

    def one(kind, ident, eph, acc, m2, m4, legit, to_model=True, why="a reply the paired accessory did not produce for this exchange"):
        out, m1, m3, keys = exchange(ident, eph, m2, m4)
        ctx.evaluations += 1
        case = {"stream": "verify", "kind": kind, "eph": hx(eph), "m2": [[k, hx(v)] for k, v in m2], "m4": [[k, hx(v)] for k, v in m4], "legit": bool(legit),
                "record": {"acc_id": hx(ident.acc_id), "acc_ltsk": hx(ident.acc_ltsk.private_bytes(**refacc.PRIV)), "ios_id": ident.ios_id, "ios_ltsk": hx(ident.ios_ltsk.private_bytes(**refacc.PRIV))}}
        cls = out.split(" ")[0] + (":" + out.split(" ")[1] if out.startswith("err") else "")
        ctx.nontrivial.add((kind, cls))
        ctx.dist[f"{kind}:{cls}"] += 1
        if out in ("early-keys", "yielded-again"):
            ctx.violation(f"verify/{kind}/{out}", f"{kind}: generator protocol broken ({out})", case)
        elif out.startswith("err") and out.split(" ")[1] not in CLS:
            ctx.violation(f"verify/{kind}/{out.split(' ')[1]}", f"{kind}: unexpected exception class {out.split(' ')[1]}", case)
        if legit:
            if not out.startswith("ok"):
                ctx.violation(f"verify/{kind}/rejected-genuine", f"{kind}: genuine exchange failed with {out[:60]}", case)
            else:
                if not acc.check_m3(m3):
                    ctx.violation(f"verify/{kind}/m3-rejected", f"{kind}: a conformant accessory rejects the controller's M3", case)
                w, r, ev = acc.keys()
                if (keys[1], keys[2], keys[3]) != (w, r, ev):
                    ctx.violation(f"verify/{kind}/keys-differ", f"{kind}: controller and accessory hold different keys", case)
        else:
            if out.startswith("ok"):
                ctx.violation(f"verify/{kind}/accepted", f"{kind}: session keys were returned for {why}", case)
        # the same exchange as the IP and CoAP transports see it: the reply is re-encoded and decoded with the
        # expected-type filter the generator asked for (the direct form above is what BLE hands over)
        def expressible(items):
            try:
                return [(int(k), bytes(v)) for k, v in TLV.decode_bytes(TLV.encode_list(L(items)))] == [(int(k), bytes(v)) for k, v in items]
            except Exception:  # noqa: BLE001
                return False
        if not (expressible(m2) and expressible(m4)):
            # e.g. two adjacent items of one type: on the wire they are fragments of one value
            wout, wm3, wkeys = "skipped", None, None
        else:
            try:
                wout, _, wm3, wkeys = exchange(ident, eph, m2, m4, via_wire=True)
            except Exception as e:  # noqa: BLE001
                wout, wm3, wkeys = "wire-failed " + type(e).__name__, None, None
        ctx.evaluations += 1
        ctx.dist[f"wire:{kind}:{wout.split(' ')[0]}"] += 1
        if legit and not wout.startswith("ok") and wout != "skipped":
            ctx.violation(f"verify/{kind}/wire/rejected-genuine", f"{kind} (IP/CoAP decoding): genuine exchange failed with {wout[:60]}", case)
        if legit and wout.startswith("ok"):
            w, r, ev = acc.keys()
            if not acc.check_m3(wm3) or (wkeys[1], wkeys[2], wkeys[3]) != (w, r, ev):
                ctx.violation(f"verify/{kind}/wire/keys-differ", f"{kind} (IP/CoAP decoding): accessory rejects M3 or keys differ", case)
        if not legit and wout.startswith("ok"):
            ctx.violation(f"verify/{kind}/wire/accepted", f"{kind} (IP/CoAP decoding): session keys were returned although the accessory did not produce/accept this exchange - {why} ({wout[:40]})", case)
        if to_model:
            pd = ident
            cases.append(case)
            outs.append(out)
            lines.append(f"pv.run {hx(pd.acc_id)} {hx(pd.acc_ltpk)} {hx(pd.ios_id.encode())} {hx(pd.ios_ltsk.private_bytes(**refacc.PRIV))} {hx(eph)} {toks(m2)} | {toks(m4)}")

    def fresh():
        ident = refacc.Identity(rb, acc_id=rng.choice([b"12:34:56:00:01:0A", b"AA:BB:CC:DD:EE:FF", b"x"]), ios_id=rng.choice(["ctrl-1", "2f4e1d3c-0000-4000-8000-aabbccddeeff"]))
        eph = rb(32)
        acc = refacc.VerifyAccessory(ident, rb(32))
        ios_pk = x25519.X25519PrivateKey.from_private_bytes(eph).public_key().public_bytes(**refacc.RAW)
        m2 = acc.m2(ios_pk)
        return ident, eph, acc, ios_pk, m2

    M4 = [(6, b"\x04")]
    # ---- honest
    for _ in range(ctx.budget(25, 800)):
        ident, eph, acc, ios_pk, m2 = fresh()
        one("honest", ident, eph, acc, m2, M4, True)
        # reordering / harmless duplication keep the effective values genuine
        one("reordered", ident, eph, acc, [m2[2], m2[0], m2[1]], M4, True)
        one("dup-garbage-first", ident, eph, acc, [(3, rb(32)), (6, b"\x02")] + m2, M4, True)
        one("m4-no-state", ident, eph, acc, m2, [], True)
    # ---- adversarial
    ident, eph, acc, ios_pk, m2 = fresh()
    for bit in range(256):
        pk = bytearray(m2[1][1])
        pk[bit // 8] ^= 1 << (bit % 8)
        one("bitflip-pk", ident, eph, acc, [m2[0], (3, bytes(pk)), m2[2]], M4, False, to_model=(bit % 8 == 0 or bit == 255))
    enc = m2[2][1]
    for bit in rng.sample(range(len(enc) * 8), ctx.budget(80, len(enc) * 8)):
        e = bytearray(enc)
        e[bit // 8] ^= 1 << (bit % 8)
        one("bitflip-enc", ident, eph, acc, [m2[0], m2[1], (5, bytes(e))], M4, False, to_model=(bit % 5 == 0))
    for _ in range(ctx.budget(150, 3000)):
        ident, eph, acc, ios_pk, m2 = fresh()
        kind = rng.choice(["byte-enc", "resealed-sub-bitflip", "wrong-ltsk", "wrong-id", "id-case-variant", "id-prefix", "id-padded", "permuted-transcript", "other-exchange", "remove-pk", "remove-enc", "remove-sig", "remove-id",
                           "short-key", "long-key", "trunc-enc", "state-4", "state-missing-err", "m4-error", "m4-state", "low-order-key", "dup-garbage-last", "empty-enc", "swap-fields"])
        mm2, mm4, legit = list(m2), list(M4), False
        if kind == "byte-enc":
            e = bytearray(m2[2][1])
            e[rng.randrange(len(e))] = rng.randrange(256)
            if bytes(e) == m2[2][1]:
                continue
            mm2[2] = (5, bytes(e))
        elif kind == "resealed-sub-bitflip":
            sub = bytearray(acc.sub)
            sub[rng.randrange(len(sub))] ^= 1 << rng.randrange(8)
            mm2[2] = (5, ChaCha20Poly1305(acc.vkey).encrypt(b"\0\0\0\0PV-Msg02", bytes(sub), b""))
        elif kind == "wrong-ltsk":
            mm2 = acc.m2(ios_pk, ltsk=ed25519.Ed25519PrivateKey.from_private_bytes(rb(32)))
        elif kind == "wrong-id":
            mm2 = acc.m2(ios_pk, pid=b"99:99:99:99:99:99")
        elif kind in ("id-case-variant", "id-prefix", "id-padded"):
            # an identifier that only *resembles* the stored one, signed correctly by the genuine long-term key over itself
            sid = ident.acc_id
            var = {"id-case-variant": sid.swapcase(), "id-prefix": sid[:-1], "id-padded": sid + b" "}[kind]
            if var == sid:
                continue
            mm2 = acc.m2(ios_pk, pid=var)
        elif kind == "permuted-transcript":
            mm2 = acc.m2(ios_pk, permute=True)
        elif kind == "other-exchange":
            other = x25519.X25519PrivateKey.from_private_bytes(rb(32)).public_key().public_bytes(**refacc.RAW)
            mm2 = refacc.VerifyAccessory(ident, rb(32)).m2(other)
        elif kind == "remove-pk":
            mm2 = [m2[0], m2[2]]
        elif kind == "remove-enc":
            mm2 = [m2[0], m2[1]]
        elif kind in ("remove-sig", "remove-id"):
            sub = [(1, ident.acc_id), (10, refacc.untlv(acc.sub)[10])]
            sub = [x for x in sub if x[0] != (10 if kind == "remove-sig" else 1)]
            mm2[2] = (5, ChaCha20Poly1305(acc.vkey).encrypt(b"\0\0\0\0PV-Msg02", refacc.tlv(sub), b""))
        elif kind == "short-key":
            mm2[1] = (3, m2[1][1][:31])
        elif kind == "long-key":
            mm2[1] = (3, m2[1][1] + b"\0")
        elif kind == "trunc-enc":
            mm2[2] = (5, m2[2][1][:-1])
        elif kind == "state-4":
            mm2[0] = (6, b"\x04")
        elif kind == "state-missing-err":
            mm2 = [(7, bytes([rng.randrange(1, 8)]))] + m2[1:]
        elif kind == "m4-error":
            mm4 = rng.choice([[(6, b"\x04"), (7, b"\x02")], [(7, b"\x02")], [(7, b"\x06"), (6, b"\x04")]])
        elif kind == "m4-state":
            mm4 = [(6, bytes([rng.choice([1, 2, 3, 5, 6])]))]
        elif kind == "low-order-key":
            mm2[1] = (3, rng.choice([bytes(32), b"\x01" + bytes(31)]))
        elif kind == "dup-garbage-last":
            mm2 = m2 + [(6, b"\x02"), (3, rb(32))]
        elif kind == "empty-enc":
            mm2[2] = (5, b"")
        elif kind == "swap-fields":
            mm2 = [m2[0], (5, m2[1][1]), (3, m2[2][1])]
        one(kind, ident, eph, acc, mm2, mm4, legit)
    ctx.sample({k: (v if len(str(v)) < 300 else str(v)[:300] + "...") for k, v in cases[0].items()})
    ctx.sample({k: (v if len(str(v)) < 300 else str(v)[:300] + "...") for k, v in cases[-1].items()})
    compare_with_model(ctx, "verify", cases, outs, lines, driver)
    resume_stream(ctx, driver, rng, rb)
    install_sites(ctx, rng, rb)
    # ---- rejections: M2/M4 carrying an Error item with ANY value (the accessory did not accept)
    n0 = len(cases)
    for cls, val in error_values(rng, rb, ctx.budget(10, 248)):
        ident, eph, acc, ios_pk, m2 = fresh()
        err = (7, val)
        shapes = [("m4-errval", m2, [(6, b"\x04"), err]), ("m4-errval-first", m2, [err, (6, b"\x04")]), ("m4-errval-no-state", m2, [err]),
                  ("m2-errval", [(6, b"\x02"), err], M4), ("m2-errval-no-state", [err], M4), ("m2-errval-appended", m2 + [err], M4), ("m2-errval-first", [err] + m2, M4)]
        if not ctx.thorough() and cls in ("bitflip", "unknown"):
            # the quick tier keeps every M4 shape (the reply to the controller's proof) and samples the M2 shapes
            shapes = shapes[:3] + rng.sample(shapes[3:], 2)
        # the executable model costs ~10 ms of Lean X25519/Ed25519 per line: the quick tier ties a sample of the values to it
        tied = ctx.thorough() or rng.random() < (0.5 if cls in ("defined", "zero", "empty", "multi") else 0.15)
        for shape, mm2, mm4 in shapes:
            one(f"{shape}-{cls}", ident, eph, acc, mm2, mm4, False, to_model=tied,
                why=f"an exchange the accessory refused: its {'M2' if shape.startswith('m2') else 'M4 (the answer to the controller proof)'} carries Error={hx(val)[:16]} ({cls} value)")
    compare_with_model(ctx, "verify-errval", cases[n0:], outs[n0:], lines[n0:], driver)
    resume_error_values(ctx, driver, rng, rb)
    session_stream(ctx, rng)


DEFINED_ERRORS = (1, 2, 3, 4, 5, 6, 7)  # table 5-5 of the specification: the only codes a name exists for


def error_values(rng, rb, n_unknown):
    """values an Error item can carry, by class: every defined code, 0x00, reserved / vendor one-byte codes (both ends of the
    range and a sample), every defined code with one bit flipped, the empty value, multi-byte values (a defined code followed
    or preceded by other bytes, values that travel as two TLV fragments)"""
    vals = [("defined", bytes([c])) for c in DEFINED_ERRORS] + [("zero", b"\x00")]
    flips = sorted({c ^ (1 << b) for c in DEFINED_ERRORS for b in range(8)} - set(DEFINED_ERRORS) - {0})
    vals += [("bitflip", bytes([v])) for v in flips]
    rest = [v for v in range(8, 256) if v not in flips]
    unknown = [8, 9, 0x7F, 0x80, 0xFE, 0xFF] + rng.sample(rest, min(n_unknown, len(rest)))
    vals += [("unknown", bytes([v])) for v in dict.fromkeys(unknown) if v not in flips]
    vals.append(("empty", b""))
    multi = [b"\x02\x00", b"\x00\x02", b"\x02\x02", b"\x00\x00", b"\x01\x00\x00\x00", bytes([rng.choice(DEFINED_ERRORS)]) + rb(rng.randrange(1, 4)),
             rb(rng.randrange(2, 6)), b"\x02" * 255, b"\x02" * 256, bytes(300)]
    vals += [("multi", v) for v in multi]
    return vals


def resume_error_values(ctx, driver, rng, rb):
    """a pair-resume reply that is genuine in every other respect but carries an Error item (any value, either position) is a
    refusal: no keys.  Handed over as a decoded list and as BLE does (bytes -> TLV.decode_bytearray -> dict)."""
    cases, outs, lines = [], [], []
    vals = error_values(rng, rb, ctx.budget(4, 248))
    if not ctx.thorough():
        vals = [v for v in vals if v[0] not in ("bitflip",)] + rng.sample([v for v in vals if v[0] == "bitflip"], 8)
    for cls, val in vals:
        ident = refacc.Identity(rb)
        prev, sid, eph, new_sid = rb(32), rb(8), rb(32), rb(8)

        def derive(salt, info, length=32, prev=prev):
            return refacc.hk(prev, salt, info, length)
        ios_pk = x25519.X25519PrivateKey.from_private_bytes(eph).public_key().public_bytes(**refacc.RAW)
        respkey = refacc.hk(prev, ios_pk + new_sid, b"Pair-Resume-Response-Info")
        tag = ChaCha20Poly1305(respkey).encrypt(b"\0\0\0\0PR-Msg02", b"", b"")
        good = [(6, b"\x02"), (0, b"\x06"), (14, new_sid), (5, tag)]
        for pos, m2 in (("last", good + [(7, val)]), ("first", [(7, val)] + good), ("after-state", good[:1] + [(7, val)] + good[1:])):
            for form in ("list", "ble-dict"):
                with pinned(eph):
                    g = P.get_session_keys(ident.pairing_data(), sid, derive)
                    g.send(None)
                ctx.evaluations += 1
                case = {"stream": "resume-errval", "cls": cls, "pos": pos, "form": form, "prev": hx(prev), "sid": hx(sid), "eph": hx(eph), "m2": [[k, hx(v)] for k, v in m2]}
                try:
                    g.send(L(m2) if form == "list" else dict(TLV.decode_bytearray(bytearray(TLV.encode_list(L(m2))))))
                    out = "continued"  # went on with a full exchange: M3 yielded although the accessory reported an error
                except StopIteration:
                    out = "some"
                except Exception as e:  # noqa: BLE001
                    out = "none:" + type(e).__name__
                ctx.nontrivial.add(("resume-errval", cls, pos, out.split(":")[0]))
                ctx.dist[f"resume-errval:{cls}:{out}"] += 1
                if out == "some":
                    ctx.violation(f"resume/errval-{cls}/accepted", f"a resume reply carrying Error={hx(val)[:16]} ({cls}, {pos}, handed over as {form}) yielded session keys", case)
                elif out == "continued":
                    ctx.violation(f"resume/errval-{cls}/continued", f"a resume reply carrying Error={hx(val)[:16]} ({cls}, {pos}, handed over as {form}) did not end the attempt", case)
                if form == "list":
                    cases.append(case)
                    outs.append("none" if out != "some" else "some")
                    lines.append(f"pv.resume3 {hx(prev)} {hx(eph)} {toks(m2)}")
    compare_with_model(ctx, "resume-errval", cases, outs, lines, driver)


def resume_stream(ctx, driver, rng, rb):
    cases, outs, lines = [], [], []
    for _ in range(ctx.budget(30, 600)):
        ident = refacc.Identity(rb)
        prev = rb(32)
        sid = rb(8)
        eph = rb(32)

        def derive(salt, info, length=32, prev=prev):
            return refacc.hk(prev, salt, info, length)
        with pinned(eph):
            g = P.get_session_keys(ident.pairing_data(), sid, derive)
            req1, exp = g.send(None)
        m1 = [(k, bytes(v)) for k, v in req1]
        ios_pk = dict(m1)[3]
        ctx.evaluations += 1
        # accessory side of resume (Table 6-27)
        reqkey = refacc.hk(prev, ios_pk + sid, b"Pair-Resume-Request-Info")
        try:
            ChaCha20Poly1305(reqkey).decrypt(b"\0\0\0\0PR-Msg01", dict(m1)[5], b"")
            acc_ok = dict(m1)[0] == b"\x06" and dict(m1)[14] == sid
        except Exception:  # noqa: BLE001
            acc_ok = False
        if not acc_ok:
            ctx.violation("resume/m1", "a conformant accessory does not accept the resume request", {"stream": "resume", "m1": [[k, hx(v)] for k, v in m1]})
        cases.append({"stream": "resume1", "prev": hx(prev), "sid": hx(sid), "eph": hx(eph)})
        outs.append(items_str(m1))
        lines.append(f"pv.resume1 {hx(prev)} {hx(sid)} {hx(eph)}")
        kind = rng.choice(["right", "right", "wrong-secret", "tag-bitflip", "no-method", "method-2", "nonempty-plain", "other-eph", "right+error", "right+state4",
                           "tag-truncated", "tag-truncated", "tag-extended", "wrong-secret-short-tag"])
        new_sid = rb(8)
        secret = prev if kind not in ("wrong-secret", "wrong-secret-short-tag") else rb(32)
        pk_for = ios_pk if kind != "other-eph" else rb(32)
        respkey = refacc.hk(secret, pk_for + new_sid, b"Pair-Resume-Response-Info")
        tag = ChaCha20Poly1305(respkey).encrypt(b"\0\0\0\0PR-Msg02", b"" if kind != "nonempty-plain" else b"x", b"")
        if kind == "tag-bitflip":
            t = bytearray(tag)
            t[rng.randrange(16)] ^= 1 << rng.randrange(8)
            tag = bytes(t)
        if kind == "tag-truncated":
            tag = tag[:rng.choice([15, 12, 8, 4, 2, 1])]  # a genuine tag cut short authenticates nothing
        if kind == "wrong-secret-short-tag":
            tag = tag[:rng.choice([4, 2, 1])]
        if kind == "tag-extended":
            tag = tag + rb(rng.choice([1, 4, 16]))
        m2 = [(6, b"\x02"), (0, b"\x06"), (14, new_sid), (5, tag)]
        if kind == "no-method":
            m2 = [x for x in m2 if x[0] != 0]
        if kind == "method-2":
            m2[1] = (0, b"\x02")
        if kind == "right+error":
            m2 = m2 + [(7, bytes([rng.choice([1, 2, 3, 6, 7])]))]
        if kind == "right+state4":
            m2[0] = (6, b"\x04")
        legit = kind == "right"
        try:
            g.send(L(m2))
            out = "continued"
        except StopIteration as s:
            rsid, rderive = s.value
            out = f"some {hx(rsid)} {hx(rderive(b'Control-Salt', b'Control-Write-Encryption-Key'))} {hx(rderive(b'Control-Salt', b'Control-Read-Encryption-Key'))}"
            want_shared = refacc.hk(prev, ios_pk + new_sid, b"Pair-Resume-Shared-Secret-Info")
            if legit and rderive(b"Control-Salt", b"Control-Write-Encryption-Key") != refacc.hk(want_shared, b"Control-Salt", b"Control-Write-Encryption-Key"):
                ctx.violation("resume/keys", "resumed keys differ from the accessory's", {"stream": "resume", "kind": kind})
        except Exception as e:  # noqa: BLE001
            out = "none:" + type(e).__name__  # fell through to the full exchange and failed there
        ctx.nontrivial.add(("resume", kind, out.split(" ")[0].split(":")[0]))
        ctx.dist[f"resume:{kind}:{out.split(' ')[0]}"] += 1
        if legit and not out.startswith("some"):
            ctx.violation("resume/rejected", f"genuine resume reply not accepted: {out}", {"stream": "resume", "kind": kind})
        if not legit and out.startswith("some"):
            ctx.violation("resume/accepted", f"resume reply of kind {kind} yielded keys", {"stream": "resume", "kind": kind})
        cases.append({"stream": "resume3", "kind": kind})
        outs.append(out if out.startswith("some") else "none")
        lines.append(f"pv.resume3 {hx(prev)} {hx(eph)} {toks(m2)}")
    compare_with_model(ctx, "resume", cases, outs, lines, driver)


def install_sites(ctx, rng, rb):
    """after a real pair-verify through each transport's own code, do the ciphers hold the right keys in the right directions?"""
    ident = refacc.Identity(rb)
    nonce = lambda c: struct.pack("<LQ", 0, c)  # noqa: E731
    # ---------------- IP: full SecureHomeKitConnection over simnet
    import aiohomekit.controller.ip.connection as ipc
    loop = simnet.VLoop()
    asyncio.set_event_loop(loop)
    net = simnet.Net(loop)
    st = {}

    def handler(t, data):
        s = st.setdefault(t, {"buf": b"", "acc": None, "secure": False, "rctr": 0, "wctr": 0, "ebuf": b""})
        if s["secure"]:
            s["ebuf"] += data
            plain = b""
            while len(s["ebuf"]) >= 2:
                n = struct.unpack("<H", s["ebuf"][:2])[0]
                if len(s["ebuf"]) < 2 + n + 16:
                    break
                plain += ChaCha20Poly1305(s["c2a"]).decrypt(nonce(s["rctr"]), s["ebuf"][2:2 + n + 16], s["ebuf"][:2])
                s["rctr"] += 1
                s["ebuf"] = s["ebuf"][2 + n + 16:]
            st["decrypted"] = plain
            body = b'{"accessories":[]}'
            resp = b"HTTP/1.1 200 OK\r\nContent-Length: %d\r\n\r\n" % len(body) + body
            lb = struct.pack("<H", len(resp))
            loop.call_soon(t.feed, lb + ChaCha20Poly1305(s["a2c"]).encrypt(nonce(s["wctr"]), resp, lb))
            s["wctr"] += 1
            return
        s["buf"] += data
        if b"\r\n\r\n" not in s["buf"]:
            return
        head, body = s["buf"].split(b"\r\n\r\n", 1)
        s["buf"] = b""
        m = refacc.untlv(body)

        def http(b):
            return b"HTTP/1.1 200 OK\r\nContent-Type: application/pairing+tlv8\r\nContent-Length: %d\r\n\r\n" % len(b) + b
        if m[6] == b"\x01":
            s["acc"] = refacc.VerifyAccessory(ident, rb(32))
            loop.call_soon(t.feed, http(refacc.tlv(s["acc"].m2(m[3]))))
        else:
            ok = s["acc"].check_m3(list(m.items()))
            st["m3_ok"] = ok
            s["c2a"], s["a2c"], _ = s["acc"].keys()
            s["secure"] = True
            loop.call_soon(t.feed, http(refacc.tlv([(6, b"\x04")])))
    net.handler = handler

    async def ip():
        with net.patched():
            conn = ipc.SecureHomeKitConnection(None, ident.pairing_data())
            await conn._connect_once()
            r = await conn.get_json("/accessories")
            await conn.close()
            return r
    ctx.evaluations += 1
    try:
        r = loop.run_until_complete(ip())
        if r != {"accessories": []} or not st.get("m3_ok") or not st.get("decrypted", b"").startswith(b"GET /accessories"):
            ctx.violation("install/ip", f"IP session after pair-verify does not work in both directions: {r!r}", {"stream": "install", "site": "ip"})
    except Exception as e:  # noqa: BLE001
        ctx.violation("install/ip", f"IP secure session failed: {type(e).__name__}: {e}", {"stream": "install", "site": "ip"})
    ctx.nontrivial.add(("install", "ip"))
    # ---------------- BLE: BlePairing._async_pair_verify with the GATT state-machine driver replaced
    import aiohomekit.controller.ble.pairing as blep

    async def ble():
        p = blep.BlePairing.__new__(blep.BlePairing)
        p._ble_request_lock = asyncio.Lock()
        p.pairing_data = ident.pairing_data(connection="BLE")
        p.client = object()
        p._session_id = None
        p._derive = None
        acc = refacc.VerifyAccessory(ident, rb(32))

        async def drive(client, char, sm):
            req, exp = sm.send(None)
            m2 = acc.m2(bytes(dict(req)[3]))
            req3, _ = sm.send({k: bytearray(v) for k, v in m2})
            assert acc.check_m3([(k, bytes(v)) for k, v in req3])
            try:
                sm.send({6: bytearray(b"\x04")})
            except StopIteration as s:
                return s.value
        with mock.patch.object(blep, "drive_pairing_state_machine", drive):
            await p._async_pair_verify()
        w, r, _ = acc.keys()
        c = p._encryption_key.encrypt(b"hello")
        ok1 = ChaCha20Poly1305(w).decrypt(nonce(0), c, b"") == b"hello"
        ok2 = p._decryption_key.decrypt(ChaCha20Poly1305(r).encrypt(nonce(0), b"world", b"")) == b"world"
        return ok1 and ok2
    ctx.evaluations += 1
    try:
        if not loop.run_until_complete(ble()):
            ctx.violation("install/ble", "BLE keys installed in the wrong direction", {"stream": "install", "site": "ble"})
    except Exception as e:  # noqa: BLE001
        ctx.violation("install/ble", f"BLE pair-verify failed: {type(e).__name__}: {e}", {"stream": "install", "site": "ble"})
    ctx.nontrivial.add(("install", "ble"))
    # ---------------- CoAP: do_pair_verify with aiocoap's context replaced
    import aiohomekit.controller.coap.connection as coapc

    async def coap():
        acc = refacc.VerifyAccessory(ident, rb(32))

        class Resp:
            def __init__(self, payload):
                self.payload = payload

        class Req:
            def __init__(self, msg):
                m = refacc.untlv(bytes(msg.payload))
                if m[6] == b"\x01":
                    payload = refacc.tlv(acc.m2(m[3]))
                else:
                    assert acc.check_m3(list(m.items()))
                    payload = refacc.tlv([(6, b"\x04")])
                f = asyncio.get_event_loop().create_future()
                f.set_result(Resp(payload))
                self.response = f

        class Ctx2:
            def request(self, msg):
                return Req(msg)

            async def shutdown(self):
                pass

        class FakeContext:
            @staticmethod
            async def create_server_context(root, bind=None):
                return Ctx2()
        conn = coapc.CoAPHomeKitConnection.__new__(coapc.CoAPHomeKitConnection)
        conn.enc_ctx = None
        conn.address = "[::1]:5683"
        conn.owner = None
        with mock.patch.object(coapc, "Context", FakeContext):
            await conn.do_pair_verify(ident.pairing_data(connection="CoAP"))
        w, r, ev = acc.keys()
        n0 = struct.pack("=4xQ", 0)
        ok1 = ChaCha20Poly1305(w).decrypt(n0, conn.enc_ctx.encrypt(b"req"), b"") == b"req"
        ok2 = conn.enc_ctx.decrypt(ChaCha20Poly1305(r).encrypt(n0, b"resp", b"")) == b"resp"
        ok3 = conn.enc_ctx.decrypt_event(ChaCha20Poly1305(ev).encrypt(n0, b"event", b"")) == b"event"
        return ok1 and ok2 and ok3
    ctx.evaluations += 1
    try:
        if not loop.run_until_complete(coap()):
            ctx.violation("install/coap", "CoAP keys installed in the wrong direction", {"stream": "install", "site": "coap"})
    except Exception as e:  # noqa: BLE001
        ctx.violation("install/coap", f"CoAP pair-verify failed: {type(e).__name__}: {e}", {"stream": "install", "site": "coap"})
    ctx.nontrivial.add(("install", "coap"))
    loop.close()


# ===================================================================== IP sessions on the simulated network
# Histories of an unpatched IpPairing against a genuine accessory (real pair-verify, AEAD framing) that can be slow to answer
# M1 / M3, with - optionally - a man in the middle in front of it that relays /pair-verify and encrypted frames verbatim (it
# learns no key) and answers whatever arrives unencrypted by itself.  Everything is judged from what the accessory side saw.

GENUINE, FORGED = "GENUINE", "FORGED"
DEFAULT_PLAN = {"d0": 0.01, "d2": 0.0, "d4": 0.0, "dr": 0.0, "verify": "ok", "plain": "470"}
ENTRIES = {  # public entry points of IpPairing: (method, target prefix of the request that carries the call, call)
    "la": ("GET", "/accessories", lambda p: p.list_accessories_and_characteristics()),
    "get": ("GET", "/characteristics", lambda p: p.get_characteristics([(1, 2)])),
    "put": ("PUT", "/characteristics", lambda p: p.put_characteristics([(1, 3, True)])),
    "lp": ("POST", "/pairings", lambda p: p.list_pairings()),
    "img": ("POST", "/resource", lambda p: p.image(1, 4, 4)),
    "sub": (None, None, lambda p: p.subscribe([(1, 3)])),  # returns normally also when it could not connect: wire oracles only
    "putf": ("PUT", "/characteristics", lambda p: p.put_characteristics([(1, 3, False)])),
}
ENDS = ("peer_close", "peer_reset", "close", "stall")


def database(mark):
    return [{"aid": 1, "services": [{"iid": 1, "type": "3E", "characteristics": [
        {"iid": 2, "type": "23", "format": "string", "perms": ["pr"], "value": mark},
        {"iid": 3, "type": "25", "format": "bool", "perms": ["pr", "pw", "ev"], "value": False}]}]}]


def answer(mark, method, target, body):
    """the answer to an application request: from the accessory (GENUINE) or made up by the man in the middle (FORGED)"""
    J = b"application/hap+json"
    if target.startswith("/accessories"):
        return http(json.dumps({"accessories": database(mark)}).encode(), J)
    if target.startswith("/characteristics") and method == "GET":
        rows = []
        for i in (target.split("id=", 1)[1].split(",") if "id=" in target else []):
            try:
                rows.append({"aid": int(i.split(".")[0]), "iid": int(i.split(".")[1]), "value": mark})
            except (ValueError, IndexError):
                pass
        return http(json.dumps({"characteristics": rows}).encode(), J)
    if target.startswith("/characteristics"):
        return b"HTTP/1.1 204 No Content\r\n\r\n"
    if target == "/pairings":
        return http(refacc.tlv([(6, b"\x02"), (1, (mark + "-CONTROLLER").encode()), (3, bytes(32)), (11, b"\x01")]))
    if target == "/resource":
        return http((mark + "-IMAGE").encode(), b"image/jpeg")
    return http(b"{}", J)


class SessionAccessory(Accessory):
    """harness/acc.py's accessory with per-connection plans {d0: TCP connect time, d2 / d4: how long it takes to answer M1 / M3,
    dr: how long to answer a request of the session, verify: acc.py's verify mode, plain: what happens to a request that arrives
    unencrypted (forge = the man in the middle answers it, 470 = the accessory refuses it as the specification says, ignore)} and
    the bookkeeping the oracles use"""

    def __init__(self, loop, net, rb):
        super().__init__(loop, net, rb, accessories=database(GENUINE))
        self.plans = []
        self.mute = False
        self.probe = None  # what the pairing object reports as "connected" - observed, never used as a reference
        self.early = []    # (connection, time, at) observations of "connected" before the accessory had sent M4 on that connection
        self.notes = []

    def on_connect(self, t):
        super().on_connect(t)
        s = self.sessions[t]
        s.plan = dict(DEFAULT_PLAN, **(self.plans.pop(0) if self.plans else {}))
        s.mode = s.plan["verify"]
        s.m4_sent = False
        s.plain = []   # (time, what): anything but a pair-verify POST that arrived before this accessory had sent M4
        s.unauth = []  # (time, what): after M4, bytes that are not AEAD frames under this session's keys
        s.framed = []  # (time, method, target): requests that arrived AEAD-framed under this session's keys
        self.observe("tcp-connected")

    def observe(self, at):
        """the pairing may report a session only if the accessory has sent M4 on the connection that was opened last"""
        try:
            up = bool(self.probe()) if self.probe else False
        except Exception as e:  # noqa: BLE001
            self.notes.append(f"is_connected raised {type(e).__name__}")
            return
        if up and (not self.order or not self.order[-1].m4_sent):
            self.early.append((self.order[-1].idx if self.order else -1, self.loop.time(), at))

    def on_write(self, t, data):
        s = self.sessions[t]
        now = self.loop.time()
        self.observe("write")
        if s.secure:
            s.ebuf += data
            while len(s.ebuf) >= 2:
                n = struct.unpack("<H", s.ebuf[:2])[0]
                if n <= 1024 and len(s.ebuf) < 2 + n + 16:
                    break
                try:
                    if n > 1024:
                        raise ValueError("no frame is longer than 1024 bytes")
                    plain = ChaCha20Poly1305(s.c2a).decrypt(struct.pack("<LQ", 0, s.rctr), s.ebuf[2:2 + n + 16], s.ebuf[:2])
                except Exception:  # noqa: BLE001
                    s.unauth.append((now, f"{len(s.ebuf)} bytes starting {s.ebuf[:24]!r}"))
                    s.ebuf = b""
                    self.loop.call_soon(t.peer_close)  # a genuine accessory ends a session whose framing broke
                    return
                s.rctr += 1
                s.ebuf = s.ebuf[2 + n + 16:]
                s.buf += plain
        else:
            s.buf += data
            if len(s.buf) >= 8 and not re.match(rb"[A-Z]{3,7} /", s.buf[:9]):
                # e.g. frames of a session the controller believes in although this accessory refused the proof
                s.plain.append((now, f"{len(s.buf)} bytes that are no HTTP request ({s.buf[:12]!r}...) were written"))
                s.buf = b""
                return
        while True:
            try:
                req = self._take_request(s)
            except Exception:  # noqa: BLE001
                if s.secure:
                    s.unauth.append((now, f"bytes that are no HTTP request: {s.buf[:24]!r}"))
                else:
                    s.plain.append((now, f"bytes that are no HTTP request ({s.buf[:24]!r}) were written"))
                s.buf = b""
                return
            if req is None:
                return
            method, target, body = req
            verify = method == "POST" and target == "/pair-verify"
            if s.secure:
                s.framed.append((now, method, target))
            elif not verify:
                s.plain.append((now, f"'{method} {target}' was written UNENCRYPTED"))
            self.loop.call_soon(self._handle, t, bool(s.secure), method, target, body)

    def _handle(self, t, framed, method, target, body):  # noqa: D102
        s = self.sessions[t]
        s.requests.append((method, target, body))
        if t.closing or t.closed:
            return
        if not framed and method == "POST" and target == "/pair-verify":
            try:
                step = refacc.untlv(body).get(6)
            except Exception:  # noqa: BLE001
                step = None
            d = s.plan["d2"] if step == b"\x01" else s.plan["d4"]
            if d > 0:
                self.loop.call_later(d, self._late_verify, t, s, body, step)
            else:
                self._late_verify(t, s, body, step)
            return
        if not framed:
            if s.plan["plain"] == "forge":
                t.feed(answer(FORGED, method, target, body))
            elif s.plan["plain"] == "470":
                t.feed(http(b"", code=b"470 Connection Authorization Required"))
            return
        if self.mute:
            return
        r = answer(GENUINE, method, target, body)
        if s.plan["dr"] > 0:
            self.loop.call_later(s.plan["dr"], self.send, t, r)
        else:
            self.send(t, r)

    def _late_verify(self, t, s, body, step):
        if t.closing or t.closed:
            return
        self.observe("M2-about-to-be-sent" if step == b"\x01" else "M4-about-to-be-sent")
        if step not in (b"\x01", b"\x03") or (step == b"\x03" and s.va is None) or s.secure:
            # not what a controller following the protocol sends: refuse
            return self.send(t, http(refacc.tlv([(6, b"\x04" if step == b"\x03" else b"\x02"), (7, b"\x02")])))
        try:
            self._verify(t, s, body)
        except Exception as e:  # noqa: BLE001
            self.notes.append(f"accessory could not process a pair-verify request: {type(e).__name__}")
            return t.peer_close()
        if s.secure and not s.m4_sent:
            s.m4_sent = True


async def session_scenario(loop, hist):
    """run one history; returns (problems, stats)"""
    from unittest.mock import MagicMock

    from aiohomekit.characteristic_cache import CharacteristicCacheMemory
    from aiohomekit.controller.ip.pairing import IpPairing
    rnd = random.Random(hist["seed"])
    net = simnet.Net(loop)
    acc = SessionAccessory(loop, net, lambda n: bytes(rnd.randrange(256) for _ in range(n)))
    connect_now = net.start_connection

    async def start_connection(addr_infos, **kw):
        # a TCP connect takes a round trip: it never completes without the loop running in between
        await asyncio.sleep(max((acc.plans[0] if acc.plans else DEFAULT_PLAN).get("d0", 0.01), 0.001))
        return await connect_now(addr_infos, **kw)
    net.start_connection = start_connection
    ctrl = MagicMock()
    ctrl._char_cache = CharacteristicCacheMemory()
    calls, tasks, problems = [], [], []
    with net.patched():
        p = IpPairing(ctrl, acc.pairing_data(["10.0.0.1"]))
        acc.probe = lambda: bool(p.is_connected) or bool(p.is_available) or bool(p.connection.is_connected)

        async def call(entry):
            acc.observe("call " + entry)
            rec = {"entry": entry, "start": loop.time(), "outcome": "pending"}
            calls.append(rec)
            try:
                r = await ENTRIES[entry][2](p)
                rec["outcome"], rec["none"], rec["result"] = "returned", r is None, repr(r)
            except asyncio.CancelledError:
                rec["outcome"] = "cancelled"
                raise
            except BaseException as e:  # noqa: BLE001
                rec["outcome"] = "raised:" + type(e).__name__
            finally:
                rec["end"] = loop.time()

        async def kick():
            try:
                await p.connection.ensure_connection()
            except Exception:  # noqa: BLE001
                pass

        async def end(how):
            if how in ("peer_close", "peer_reset"):
                if net.open:
                    getattr(net.open[-1], how)()
            elif how == "close":
                await p.close()
            elif how == "stall":
                # the accessory goes silent: the request layer gives the session up by itself after its time-out
                if acc.probe() and net.open and acc.sessions[net.open[-1]].m4_sent:
                    acc.mute = True
                    t = asyncio.ensure_future(call("la"))
                    await asyncio.wait([t], timeout=60)
                    acc.mute = False

        for ep in hist["epochs"]:
            acc.plans = [dict(x) for x in ep["plans"]]  # for the connections opened from now on
            if ep["end"] == "stall":
                await end("stall")
                timeline = []
            else:
                timeline = [(0.0, 0, "end", ep["end"])]
            timeline += [(float(off), 2, "call", entry) for off, entry in ep["calls"]]
            if ep.get("kick"):
                timeline.append((0.0, 1, "kick", None))
            base = loop.time() + max(0.0, -min([x[0] for x in timeline] or [0.0]))
            for off, _, kind, arg in sorted(timeline, key=lambda x: (x[0], x[1])):
                dt = base + off - loop.time()
                if dt > 0:
                    await asyncio.sleep(dt)
                if kind == "end":
                    await end(arg)
                elif kind == "kick":
                    tasks.append(asyncio.ensure_future(kick()))
                else:
                    tasks.append(asyncio.ensure_future(call(arg)))
            pending = [t for t in tasks if not t.done()]
            if pending:
                await asyncio.wait(pending, timeout=200)
            await asyncio.sleep(ep.get("idle", 0.5))
            await settle(loop)
            acc.observe("quiescent")
        for t in tasks:
            t.cancel()
        try:
            await p.close()
        except Exception as e:  # noqa: BLE001
            acc.notes.append(f"close raised {type(e).__name__}")
        await settle(loop)
    # ---- the property, stated on what the accessory side saw and on what the callers got
    for s in acc.order:
        for when, what in s.plain:
            problems.append(("session/traffic-before-proof", f"connection {s.idx}, t={when:.3f}: {what} on a connection on which the accessory had not (yet) sent M4 - "
                             "application traffic although the peer has not proved possession of the long-term key in this session (the accessory holds no session there)"))
        for when, what in s.unauth:
            problems.append(("session/not-under-session-keys", f"connection {s.idx}, t={when:.3f}: after M4 the controller wrote {what}, which does not open under this session's keys"))
    for rec in calls:
        if rec["outcome"] != "returned":
            continue
        method, prefix, _ = ENTRIES[rec["entry"]]
        if FORGED in rec["result"]:
            i = rec["result"].index(FORGED)
            problems.append(("session/unauthenticated-answer-accepted", f"{rec['entry']} issued at t={rec['start']:.3f} returned ...{rec['result'][max(0, i - 60):i + 40]}... - an answer the man in the middle made up and sent unencrypted"))
        if method is not None and not rec["none"]:
            if not any(m == method and tg.startswith(prefix) and rec["start"] <= when <= rec["end"] for s in acc.order for when, m, tg in s.framed):
                problems.append(("session/returned-without-authenticated-exchange", f"{rec['entry']} issued at t={rec['start']:.3f} returned normally ({rec['result'][:80]}) although the accessory received no "
                                 f"{method} {prefix} under the keys of a verified session while the call ran"))
    for idx, when, at in acc.early:
        problems.append(("session/connected-before-proof", f"t={when:.3f} ({at}): the pairing reports is_connected / is_available although the accessory has not sent M4 on the connection opened last "
                         f"(connection {idx}) - no proof of the long-term key, no keys"))
    stats = {"connections": len(acc.order), "verified": sum(1 for s in acc.order if s.m4_sent), "calls": [(r["entry"], r["outcome"]) for r in calls],
             "framed": sum(len(s.framed) for s in acc.order), "notes": acc.notes}
    return problems, stats


def run_session(hist):
    loop = simnet.VLoop()
    asyncio.set_event_loop(loop)
    try:
        return loop.run_until_complete(session_scenario(loop, hist))
    finally:
        try:
            loop.run_until_complete(loop.shutdown_asyncgens())
        except Exception:  # noqa: BLE001
            pass
        loop.close()


def gen_plan(rng, ok=False):
    return {"d0": rng.choice([0.001, 0.01, 0.01, 0.2]),
            "d2": rng.choice([0.0, 0.05, 0.4, 0.4, 2.0, 2.0, 9.0, 12.0, 31.0]),
            "d4": rng.choice([0.0, 0.0, 0.05, 0.4, 2.0, 9.0, 12.0]),
            "dr": rng.choice([0.0, 0.0, 0.3]),
            "verify": "ok" if ok or rng.random() < 0.75 else rng.choice(["badsig", "wrongid", "err12", "err16", "err22", "err10", "err1130", "err28", "err20", "err2255", "err2" + str(rng.randrange(8, 256)), "close1", "reset2", "close2", "hang", "http470", "exc"]),
            "plain": rng.choice(["forge", "forge", "470", "ignore"])}


def gen_history(rng):
    epochs = []
    for i in range(rng.choice([2, 2, 3, 3, 4])):
        end = "first" if i == 0 else rng.choice(["peer_close", "peer_close", "peer_reset", "close", "stall"])
        plan = gen_plan(rng, ok=(i == 0 and rng.random() < 0.8))
        plans = [plan] + ([gen_plan(rng, ok=True)] if plan["verify"] != "ok" else [])
        d0, d2, d4 = plan["d0"], plan["d2"], plan["d4"]
        calls = []
        for _ in range(rng.choice([0, 1, 1, 2, 3])):
            w = rng.choice(["before", "tcp", "m2", "m2", "m2", "m4", "m4", "after"])
            f = rng.choice([0.0, 0.001, 0.25, 0.5, 0.75, 0.999, 1.0, rng.random()])
            off = {"before": -rng.choice([0.05, 0.2]), "tcp": d0 * f, "m2": d0 + d2 * f, "m4": d0 + d2 + d4 * f, "after": d0 + d2 + d4 + rng.choice([0.0, 0.1, 3.0])}[w]
            calls.append([round(off, 6), rng.choice(list(ENTRIES))])
        kick = end in ("first", "close") and (not calls or rng.random() < 0.5)
        epochs.append({"end": end, "plans": plans, "calls": calls, "kick": kick, "idle": rng.choice([0.0, 0.5, 5.0])})
    return {"stream": "session", "seed": rng.randrange(1 << 30), "epochs": epochs}


def grid_histories(rng):
    """every way a session can have ended before (none: the first connection) x the window of the new pair-verify (M1 sent and
    M2 outstanding / M3 sent and M4 outstanding) x every entry point, the caller's request issued in the middle of the window,
    a man in the middle in front of the accessory"""
    out = []
    for end in ("first",) + ENDS:
        for window in ("m2", "m4"):
            for entry in ENTRIES:
                d = rng.choice([0.4, 2.0, 6.0])
                plan = dict(DEFAULT_PLAN, d2=d if window == "m2" else 0.0, d4=d if window == "m4" else 0.0, plain="forge")
                ep = {"end": end, "plans": [plan], "calls": [[round(plan["d0"] + d / 2, 6), entry]], "kick": end in ("first", "close"), "idle": 0.5}
                first = {"end": "first", "plans": [dict(DEFAULT_PLAN)], "calls": [[0.5, rng.choice(["la", "get", "sub"])]] if rng.random() < 0.5 else [], "kick": True, "idle": 0.5}
                out.append({"stream": "session", "seed": rng.randrange(1 << 30), "epochs": [ep] if end == "first" else [first, ep]})
    return out


def session_stream(ctx, rng):
    hists = grid_histories(rng)
    if not ctx.thorough():
        hists = rng.sample(hists, ctx.budget(40, len(hists)))
    hists += [gen_history(rng) for _ in range(ctx.budget(50, 4000))]
    seen = set()
    for hist in hists:
        ctx.evaluations += 1
        try:
            problems, stats = run_session(hist)
        except Exception as e:  # noqa: BLE001
            problems, stats = [(f"session/exc {type(e).__name__}", f"the history could not be run to its end: {type(e).__name__}: {e}")], {"connections": 0, "verified": 0, "calls": [], "framed": 0, "notes": []}
        ctx.nontrivial.add(("session", tuple(ep["end"] for ep in hist["epochs"]), tuple(sorted(o for _, o in stats["calls"]))))
        ctx.dist[f"session:connections={min(stats['connections'], 6)}"] += 1
        for entry, outcome in stats["calls"]:
            ctx.dist[f"session:call:{entry}:{outcome}"] += 1
        for ep in hist["epochs"]:
            ctx.dist[f"session:end:{ep['end']}"] += 1
        for n in stats["notes"]:
            if n not in ctx.notes and len(ctx.notes) < 20:
                ctx.notes.append("session: " + n)
        if len(ctx.samples) < 8 and len(hist["epochs"]) > 1 and "session" not in seen:
            seen.add("session")
            ctx.samples.append(hist)
        done = set()
        for sig, text in problems:
            if sig not in done:
                done.add(sig)
                ctx.violation(sig, text, hist)


def replay(ctx, driver, c):
    stream = c.get("stream")
    if stream == "session":
        problems, _ = run_session(c)
        return "; ".join(f"{s}: {t}" for s, t in problems) or None
    if stream == "verify" and "record" in c:
        rec = c["record"]
        ident = refacc.Identity(lambda n: bytes(n), acc_id=unhx(rec["acc_id"]), ios_id=rec["ios_id"])
        ident.acc_ltsk = ed25519.Ed25519PrivateKey.from_private_bytes(unhx(rec["acc_ltsk"]))
        ident.acc_ltpk = ident.acc_ltsk.public_key().public_bytes(**refacc.RAW)
        ident.ios_ltsk = ed25519.Ed25519PrivateKey.from_private_bytes(unhx(rec["ios_ltsk"]))
        ident.ios_ltpk = ident.ios_ltsk.public_key().public_bytes(**refacc.RAW)
        m2 = [(k, unhx(v)) for k, v in c["m2"]]
        m4 = [(k, unhx(v)) for k, v in c["m4"]]
        res = []
        for via_wire in (False, True):
            try:
                out = exchange(ident, unhx(c["eph"]), m2, m4, via_wire=via_wire)[0]
            except Exception as e:  # noqa: BLE001
                out = "not-expressible " + type(e).__name__
            ok = out.startswith("ok")
            if ok != bool(c.get("legit")) and not out.startswith("not-expressible"):
                res.append(f"{'IP/CoAP decoding' if via_wire else 'decoded list'}: {'keys returned for a reply that is not the genuine one' if ok else 'genuine exchange failed: ' + out[:60]}")
        return "; ".join(res) or None
    if stream == "resume-errval":
        ident = refacc.Identity(lambda n: bytes(range(n)))
        prev = unhx(c["prev"])

        def derive(salt, info, length=32):
            return refacc.hk(prev, salt, info, length)
        m2 = [(k, unhx(v)) for k, v in c["m2"]]
        with pinned(unhx(c["eph"])):
            g = P.get_session_keys(ident.pairing_data(), unhx(c["sid"]), derive)
            g.send(None)
        try:
            g.send(L(m2) if c["form"] == "list" else dict(TLV.decode_bytearray(bytearray(TLV.encode_list(L(m2))))))
            return "the attempt went on after a reply carrying an Error item"
        except StopIteration:
            return "session keys returned for a resume reply carrying an Error item"
        except Exception:  # noqa: BLE001
            return None
    return None
