"""C05 - encrypted IP session framing is exact outbound and segmentation-proof inbound."""
from __future__ import annotations

import asyncio
import itertools
import struct

from cryptography.exceptions import InvalidTag
from cryptography.hazmat.primitives.ciphers.aead import ChaCha20Poly1305

from harness import cryptoval
from harness.common import Ctx, Driver, compare_with_model, hx, load_corpus

import aiohomekit.controller.ip.connection as ipc

ID = "C05"
RULE = ("outbound: payload lengths {0,1,1023,1024,1025,2047,2048,2049,3072,...} + random <=20000, any start counter; inbound: accessory frame sizes 1..1024 "
        "(small 1..16 for the exhaustive part), EVERY single and double cut of streams <=~110 bytes, random multi-cut and byte-at-a-time on larger ones, "
        "every single-bit corruption of length prefix / ciphertext / tag on small streams. non-trivial = distinct (stream kind, #frames, cut pattern class, outcome)")
TRUSTED = ["cryptography's ChaCha20Poly1305 as the reference accessory AEAD", "Lean Real ChaCha20-Poly1305 (validated differentially in this run)"]
ASSUMPTIONS = ["asyncio closes the transport when data_received raises (the model's `none` state = session ended)",
               "the HTTP layer above the decrypted blocks is replaced by a byte sink here (C07 covers it)"]
EXPLANATION = "Lean theorems C05_* over the frame-loop model with an abstract AEAD; model tied to SecureHomeKitProtocol by differential streams send/recv"


def nonce(c):
    return struct.pack("<LQ", 0, c)


def ref_frames(key, ctr, blocks):
    out = b""
    for b in blocks:
        lb = struct.pack("<H", len(b))
        out += lb + ChaCha20Poly1305(key).encrypt(nonce(ctr), b, lb)
        ctr += 1
    return out


def ref_read(key, ctr, stream):
    """conformant accessory reader: list of plaintext chunks or None"""
    out = []
    i = 0
    while i < len(stream):
        if i + 2 > len(stream):
            return None
        n = struct.unpack("<H", stream[i:i + 2])[0]
        if n > 1024 or i + 2 + n + 16 > len(stream):
            return None
        try:
            out.append(ChaCha20Poly1305(key).decrypt(nonce(ctr), stream[i + 2:i + 2 + n + 16], stream[i:i + 2]))
        except InvalidTag:
            return None
        ctr += 1
        i += 2 + n + 16
    return out


class _Transport:
    def __init__(self, proto_ref):
        self.calls = []
        self.proto_ref = proto_ref
        self.closed = False

    def is_closing(self):
        return self.closed

    def writelines(self, lines):
        self.calls.append([bytes(x) for x in lines])
        # answer at once so that send_bytes returns
        p = self.proto_ref[0]
        p.result_cbs[-1].set_result("resp")

    def write(self, data):
        self.calls.append([bytes(data)])
        p = self.proto_ref[0]
        p.result_cbs[-1].set_result("resp")

    def write_eof(self):
        pass

    def close(self):
        self.closed = True


class _Conn:
    def _connection_lost(self, exc):
        pass

    def event_received(self, ev):
        pass


async def _impl_send(a2c, c2a, ctr, payload):
    ref = [None]
    p = ipc.SecureHomeKitProtocol(_Conn(), a2c, c2a)
    ref[0] = p
    t = _Transport(ref)
    p.connection_made(t)
    p.c2a_counter = ctr
    await p.send_bytes(payload)
    return t.calls, p.c2a_counter


async def _impl_recv(a2c, c2a, ctr, buf, chunks):
    p = ipc.SecureHomeKitProtocol(_Conn(), a2c, c2a)
    p.a2c_counter = ctr
    if buf:
        p._incoming_buffer = bytearray(buf)  # (a new session is otherwise used exactly as the library built it)
    delivered = []
    orig = ipc.InsecureHomeKitProtocol.data_received
    ipc.InsecureHomeKitProtocol.data_received = lambda self, data: delivered.append(bytes(data))
    err = None
    try:
        for c in chunks:
            try:
                p.data_received(c)
            except RuntimeError:
                err = "err"
                break
            except Exception as e:  # noqa: BLE001
                err = "exc " + type(e).__name__
                break
    finally:
        ipc.InsecureHomeKitProtocol.data_received = orig
    return delivered, err, bytes(p._incoming_buffer), p.a2c_counter


def blocks_str(l):
    return " ".join(hx(b) for b in l) if l else "."


def impl_send(loop, key, ctr, payload):
    try:
        calls, c = loop.run_until_complete(_impl_send(bytes(32), key, ctr, payload))
    except Exception as e:  # noqa: BLE001
        return None, "exc " + type(e).__name__
    return calls, c


def impl_recv_str(loop, key, ctr, buf, chunks):
    d, err, b, c = loop.run_until_complete(_impl_recv(key, bytes(32), ctr, buf, chunks))
    if err == "err":
        return f"err {blocks_str(d)}", d, err
    if err:
        return err, d, err
    return f"ok {blocks_str(d)} | {hx(b)} {c}", d, None


def rb(rng, n):
    return bytes(rng.randrange(256) for _ in range(n))


def run(ctx: Ctx, driver: Driver):
    rng = ctx.rng
    loop = asyncio.new_event_loop()
    asyncio.set_event_loop(loop)
    cryptoval.validate(ctx, driver, 6)
    for c in load_corpus(ID):
        replay(ctx, driver, c)
    # ---------------- outbound
    lens = [0, 1, 2, 1023, 1024, 1025, 2047, 2048, 2049, 3071, 3072, 3073, 4096, 5000] + [rng.randrange(0, 20000) for _ in range(ctx.budget(40, 600))]
    cases, outs, lines = [], [], []
    for n in lens:
        key = rb(rng, 32)
        ctr = rng.choice([0, 1, 7, 255, 256, 65535, 2 ** 32 - 1, 2 ** 32, rng.randrange(2 ** 40)])
        payload = rb(rng, n)
        calls, c = impl_send(loop, key, ctr, payload)
        ctx.evaluations += 1
        case = {"stream": "send", "key": hx(key), "ctr": ctr, "payload": hx(payload) if n <= 64 else f"random:{n}"}
        if calls is None:
            ctx.violation("send/" + c, f"send_bytes raised {c} for a payload of {n} bytes", case)
            continue
        if n == 0:
            # nothing to frame; the code still issues one (empty) writelines - not a framing matter
            flat = [x for call in calls for x in call]
        else:
            flat = [x for call in calls for x in call]
        stream = b"".join(flat)
        chunks = ref_read(key, ctr, stream)
        ok = chunks is not None and b"".join(chunks) == payload and all(0 < len(ch) <= 1024 for ch in chunks) and all(len(ch) == 1024 for ch in chunks[:-1]) and c == ctr + len(chunks)
        ctx.nontrivial.add(("send", min(len(chunks or []), 6), n % 1024 in (0, 1, 1023)))
        if not ok:
            ctx.violation("send/frames", f"a conformant accessory does not decode the {n}-byte request written from counter {ctr} to the request bytes in <=1024-byte frames", {**case, "payload": hx(payload)})
        if len(calls) != 1:
            ctx.dist["send:calls!=1"] += 1
        cases.append({**case, "payload": hx(payload)} if n <= 3000 else case)
        outs.append(f"{c} {blocks_str(flat)}")
        lines.append(f"sf.send {hx(key)} {ctr} {hx(payload)}")
        ctx.dist["send"] += 1
    ctx.sample({k: (v if len(str(v)) < 200 else str(v)[:200] + "...") for k, v in cases[2].items()})
    compare_with_model(ctx, "send", cases, outs, lines, driver)

    # ---------------- inbound: exhaustive single+double cuts on small streams
    cases, outs, lines = [], [], []
    model_every = ctx.budget(7, 3)

    def one_recv(kind, key, ctr, blocks, stream, cuts, expect_blocks, expect_err, to_model):
        pts = [0] + list(cuts) + [len(stream)]
        chunks = [stream[a:b] for a, b in zip(pts, pts[1:])]
        s, d, err = impl_recv_str(loop, key, ctr, b"", chunks)
        ctx.evaluations += 1
        case = {"stream": "recv", "kind": kind, "key": hx(key), "ctr": ctr, "chunks": [hx(x) for x in chunks]}
        ctx.nontrivial.add((kind, len(blocks), len(cuts), tuple(min(c * 8 // max(len(stream), 1), 7) for c in cuts[:2]), err))
        if err and err.startswith("exc"):
            ctx.violation("recv/" + err, f"data_received raised {err}", case)
        elif d != expect_blocks or (err == "err") != expect_err:
            ctx.violation("recv/" + kind, f"{kind}: delivered {len(d)} blocks (err={err}) but the accessory sent {len(expect_blocks)} authentic blocks before the stream end/first bad frame (expect_err={expect_err}); cuts={list(cuts)}", case)
        if to_model:
            cases.append(case)
            outs.append(s)
            lines.append(f"sf.recv {hx(key)} {ctr} - " + " ".join(hx(x) for x in chunks))
        ctx.dist["recv:" + kind] += 1

    nsmall = ctx.budget(8, 40)
    k = 0
    for _ in range(nsmall):
        key = rb(rng, 32)
        ctr = rng.choice([0, 3, 2 ** 32 - 1])
        blocks = [rb(rng, rng.randrange(1, 17)) for _ in range(rng.choice([2, 3]))]
        stream = ref_frames(key, ctr, blocks)
        L = len(stream)
        for a in range(1, L):
            k += 1
            one_recv("single-cut", key, ctr, blocks, stream, (a,), blocks, False, k % model_every == 0)
        for a, b in itertools.combinations(range(1, L), 2):
            k += 1
            one_recv("double-cut", key, ctr, blocks, stream, (a, b), blocks, False, k % (model_every * 7) == 0)
        # every single-bit corruption of the first two frames (prefix, ciphertext, tag), with one random cut
        f0 = 2 + len(blocks[0]) + 16
        f1 = f0 + 2 + len(blocks[1]) + 16
        for bit in range(f1 * 8):
            bad = bytearray(stream)
            bad[bit // 8] ^= 1 << (bit % 8)
            nb = 0 if bit // 8 < f0 else 1
            k += 1
            # a corrupted length prefix may make the reader wait for more bytes instead of failing: nothing is delivered from it either way
            in_prefix = (bit // 8) in (0, 1) or (bit // 8) in (f0, f0 + 1)
            exp_blocks = blocks[:nb]
            pts = (rng.randrange(1, L),)
            chunks_err = True
            if in_prefix:
                # decide by reference: does a full frame fit under the altered length?
                off = 0 if nb == 0 else f0
                n = struct.unpack("<H", bytes(bad[off:off + 2]))[0]
                chunks_err = off + 2 + n + 16 <= L
            one_recv("bitflip", key, ctr, blocks, bytes(bad), pts, exp_blocks, chunks_err, k % model_every == 0)
    # ---------------- inbound: larger streams, realistic frame sizes, random multi-cut / byte-at-a-time
    for _ in range(ctx.budget(300, 6000)):
        key = rb(rng, 32)
        ctr = rng.randrange(0, 2 ** 33)
        blocks = [rb(rng, rng.choice([1, 2, 100, 1023, 1024, rng.randrange(1, 1025)])) for _ in range(rng.randrange(1, 6))]
        stream = ref_frames(key, ctr, blocks)
        L = len(stream)
        mode = rng.randrange(4)
        if mode == 0 and L <= 400:
            cuts = tuple(range(1, L))
        else:
            cuts = tuple(sorted(set(rng.randrange(1, L) for _ in range(rng.choice([0, 1, 2, 5, 20])))))
        if mode == 3:
            # truncated stream: the tail frame is incomplete, nothing from it is delivered, no error
            cut_at = rng.randrange(0, L)
            full = []
            off = 0
            for b in blocks:
                if off + 2 + len(b) + 16 <= cut_at:
                    full.append(b)
                off += 2 + len(b) + 16
            cuts = tuple(c for c in cuts if c < cut_at)
            one_recv("truncated", key, ctr, blocks, stream[:cut_at], cuts, full, False, True)
        else:
            one_recv("multi-cut", key, ctr, blocks, stream, cuts, blocks, False, True)
    # ---------------- a new session after one that ended in the middle of a frame: nothing of the old session's bytes
    # (or counters) may reach the new one
    for _ in range(ctx.budget(30, 400)):
        key1, key2 = rb(rng, 32), rb(rng, 32)
        blocks1 = [rb(rng, rng.choice([5, 100, 1024])) for _ in range(rng.randrange(1, 4))]
        s1 = ref_frames(key1, 0, blocks1)
        cut_at = rng.randrange(1, len(s1))
        impl_recv_str(loop, key1, 0, b"", [s1[:cut_at]])  # session 1: the link drops here
        blocks2 = [rb(rng, rng.choice([1, 50, 1024])) for _ in range(rng.randrange(1, 4))]
        s2 = ref_frames(key2, 0, blocks2)
        cuts = tuple(sorted(set(rng.randrange(1, len(s2)) for _ in range(rng.choice([0, 1, 3])))))
        one_recv("after-dropped-session", key2, 0, blocks2, s2, cuts, blocks2, False, True)
    ctx.sample({k2: (v if len(str(v)) < 300 else str(v)[:300] + "...") for k2, v in cases[0].items()})
    compare_with_model(ctx, "recv", cases, outs, lines, driver)
    loop.close()


def replay(ctx, driver, c):
    loop = asyncio.new_event_loop()
    try:
        nv = len(ctx.violations)
        nm = len(ctx.mismatches)
        if c["stream"] == "send":
            key = bytes.fromhex(c["key"])
            payload = bytes.fromhex(c["payload"]) if c["payload"] != "-" else b""
            calls, ctr2 = impl_send(loop, key, c["ctr"], payload)
            if calls is None:
                return f"send raised {ctr2}"
            flat = [x for call in calls for x in call]
            chunks = ref_read(key, c["ctr"], b"".join(flat))
            if chunks is None or b"".join(chunks) != payload or any(len(ch) > 1024 for ch in chunks):
                return "outbound frames do not decode to the payload"
            compare_with_model(ctx, "send", [c], [f"{ctr2} {blocks_str(flat)}"], [f"sf.send {hx(key)} {c['ctr']} {hx(payload)}"], driver)
        else:
            key = bytes.fromhex(c["key"])
            chunks = [bytes.fromhex(x) if x != "-" else b"" for x in c["chunks"]]
            s, d, err = impl_recv_str(loop, key, c["ctr"], b"", chunks)
            # oracle: unsplit feeding gives the same
            s2, d2, err2 = impl_recv_str(loop, key, c["ctr"], b"", [b"".join(chunks)])
            if (d, err) != (d2, err2):
                return f"split-dependent: {s[:100]} vs unsplit {s2[:100]}"
            compare_with_model(ctx, "recv", [c], [s], [f"sf.recv {hx(key)} {c['ctr']} - " + " ".join(hx(x) for x in chunks)], driver)
        if len(ctx.mismatches) > nm:
            return "model/implementation mismatch: " + str(ctx.mismatches[-1])[:300]
        if len(ctx.violations) > nv:
            return ctx.violations[-1]["what"]
        return None
    finally:
        loop.close()
