"""C05 - encrypted IP session framing is exact outbound and segmentation-proof inbound."""
from __future__ import annotations

import asyncio
import itertools
import random
import struct

from cryptography.exceptions import InvalidTag
from cryptography.hazmat.primitives.ciphers.aead import ChaCha20Poly1305

from harness import cryptoval
from harness.common import Ctx, Driver, compare_with_model, hx, load_corpus

import aiohomekit.controller.ip.connection as ipc

ID = "C05"
RULE = ("outbound: payload lengths {0,1,1023,1024,1025,2047,2048,2049,3072,...} + random <=20000, any start counter; inbound: accessory frame sizes 1..1024 "
        "(small 1..16 for the exhaustive part), EVERY single and double cut of streams <=~110 bytes, random multi-cut and byte-at-a-time on larger ones, "
        "every single-bit corruption of length prefix / ciphertext / tag on small streams; LARGE streams (60 KiB..300 KiB of plaintext, 60..~5000 frames: all-1024, "
        "mixed, uniform 1..1024, many small frames) delivered as ONE read, as 256 KiB / 64 KiB / 16 KiB / 1460-byte reads, reads of 65535..65555 and 128 KiB, a few random cuts, "
        "a partial frame followed by the whole burst, a burst followed by a trickle - valid, truncated in the tail and single-bit-corrupted late in the burst; large requests "
        "(64 KiB..300 KiB, exact multiples of 1024 and +-1); whole sessions with the real HTTP layer on top (large request -> reference accessory, large Content-Length response "
        "[+ an EVENT right behind it] -> the request future / event_received, several exchanges per session). "
        "non-trivial = distinct (stream kind, #frames, cut pattern class, outcome)")
TRUSTED = ["cryptography's ChaCha20Poly1305 as the reference accessory AEAD", "Lean Real ChaCha20-Poly1305 (validated differentially in this run)"]
ASSUMPTIONS = ["asyncio closes the transport when data_received raises (the model's `none` state = session ended)",
               "the HTTP layer above the decrypted blocks is replaced by a byte sink here (C07 covers it), except in the 'e2e' sessions which keep the real one and only "
               "send plain Content-Length messages through it"]
EXPLANATION = "Lean theorems C05_* over the frame-loop model with an abstract AEAD; model tied to SecureHomeKitProtocol by differential streams send/recv"


def nonce(c):
    return struct.pack("<LQ", 0, c)


def ref_frames(key, ctr, blocks):
    out = b""
    for b in blocks:
        lb = struct.pack("<H", len(b))
        out += lb + ChaCha20Poly1305(key).encrypt(nonce(ctr), b, lb)
        ctr += 1
    return out


def ref_read(key, ctr, stream):
    """conformant accessory reader: list of plaintext chunks or None"""
    out = []
    i = 0
    while i < len(stream):
        if i + 2 > len(stream):
            return None
        n = struct.unpack("<H", stream[i:i + 2])[0]
        if n > 1024 or i + 2 + n + 16 > len(stream):
            return None
        try:
            out.append(ChaCha20Poly1305(key).decrypt(nonce(ctr), stream[i + 2:i + 2 + n + 16], stream[i:i + 2]))
        except InvalidTag:
            return None
        ctr += 1
        i += 2 + n + 16
    return out


class _Transport:
    def __init__(self, proto_ref):
        self.calls = []
        self.proto_ref = proto_ref
        self.closed = False

    def is_closing(self):
        return self.closed

    def writelines(self, lines):
        self.calls.append([bytes(x) for x in lines])
        # answer at once so that send_bytes returns
        p = self.proto_ref[0]
        p.result_cbs[-1].set_result("resp")

    def write(self, data):
        self.calls.append([bytes(data)])
        p = self.proto_ref[0]
        p.result_cbs[-1].set_result("resp")

    def write_eof(self):
        pass

    def close(self):
        self.closed = True


class _Conn:
    def _connection_lost(self, exc):
        pass

    def event_received(self, ev):
        pass


async def _impl_send(a2c, c2a, ctr, payload):
    ref = [None]
    p = ipc.SecureHomeKitProtocol(_Conn(), a2c, c2a)
    ref[0] = p
    t = _Transport(ref)
    p.connection_made(t)
    p.c2a_counter = ctr
    await p.send_bytes(payload)
    return t.calls, p.c2a_counter


async def _impl_recv(a2c, c2a, ctr, buf, chunks):
    p = ipc.SecureHomeKitProtocol(_Conn(), a2c, c2a)
    p.a2c_counter = ctr
    if buf:
        p._incoming_buffer = bytearray(buf)  # (a new session is otherwise used exactly as the library built it)
    delivered = []
    orig = ipc.InsecureHomeKitProtocol.data_received
    ipc.InsecureHomeKitProtocol.data_received = lambda self, data: delivered.append(bytes(data))
    err = None
    try:
        for c in chunks:
            try:
                p.data_received(c)
            except RuntimeError:
                err = "err"
                break
            except Exception as e:  # noqa: BLE001
                err = "exc " + type(e).__name__
                break
    finally:
        ipc.InsecureHomeKitProtocol.data_received = orig
    return delivered, err, bytes(p._incoming_buffer), p.a2c_counter


def blocks_str(l):
    return " ".join(hx(b) for b in l) if l else "."


def impl_send(loop, key, ctr, payload):
    try:
        calls, c = loop.run_until_complete(_impl_send(bytes(32), key, ctr, payload))
    except Exception as e:  # noqa: BLE001
        return None, "exc " + type(e).__name__
    return calls, c


def impl_recv_str(loop, key, ctr, buf, chunks):
    d, err, b, c = loop.run_until_complete(_impl_recv(key, bytes(32), ctr, buf, chunks))
    if err == "err":
        return f"err {blocks_str(d)}", d, err
    if err:
        return err, d, err
    return f"ok {blocks_str(d)} | {hx(b)} {c}", d, None


def rb(rng, n):
    return bytes(rng.randrange(256) for _ in range(n))


# ---------------------------------------------------------------------------------------------------------------------
# large streams: a case is described by small numbers (seeds, sizes, read lengths) so that it stays replayable without
# carrying hundreds of kilobytes of hex

LARGE_MODES = ("all-1024", "mixed", "uniform", "small")
SCHEDS = ("one-read", "256k", "64k", "16k", "mss", "around-64k", "few-cuts", "partial-then-burst", "burst-then-trickle")
_FIXED = {"256k": 262144, "64k": 65536, "16k": 16384, "mss": 1460}


def _split(r, data, mode):
    """the accessory's frame-size choice (every frame 1..1024 plaintext bytes)"""
    blocks, off = [], 0
    while off < len(data):
        if mode == "all-1024":
            n = 1024
        elif mode == "mixed":
            n = r.choice([1, 2, 100, 1023, 1024, r.randrange(1, 1025)])
        elif mode == "uniform":
            n = r.randrange(1, 1025)
        else:
            n = r.randrange(1, 65)
        blocks.append(data[off:off + n])
        off += n
    return blocks


def _large_blocks(pseed, total, mode):
    r = random.Random(pseed)
    return _split(r, r.randbytes(total), mode)


def _sched_reads(rng, L, sched):
    """read lengths (sum = L) of one delivery schedule of an L-byte stream"""
    if L <= 0:
        return []
    if sched == "one-read":
        cuts = []
    elif sched in _FIXED:
        cuts = range(_FIXED[sched], L, _FIXED[sched])
    elif sched == "around-64k":
        n = rng.choice([65535, 65536, 65537, 65552, 65553, 65554, 65555, 131072])
        cuts = range(n, L, n)
    elif sched == "few-cuts":
        cuts = [rng.randrange(1, max(L, 2)) for _ in range(rng.randrange(1, 5))]
    elif sched == "partial-then-burst":
        cuts = [rng.randrange(1, 2100)]
    else:  # burst-then-trickle
        a = rng.randrange(L // 2, L) if L > 2 else 1
        cuts = [a] + list(range(a + 1460, L, 1460))
    cuts = sorted({c for c in cuts if 0 < c < L})
    pts = [0] + cuts + [L]
    return [b - a for a, b in zip(pts, pts[1:])]


def _chunks_of(stream, reads):
    out, off = [], 0
    for n in reads:
        out.append(stream[off:off + n])
        off += n
    return out


def _send_payload(c):
    """payload of a send case: hex, '-' or 'seed:<s>:<n>' (large ones)"""
    pl = c["payload"]
    if pl == "-":
        return b""
    if pl.startswith("seed:"):
        _, sd, n = pl.split(":")
        return random.Random(int(sd)).randbytes(int(n))
    return bytes.fromhex(pl)


def _send_verdict(key, ctr, payload, calls, c):
    flat = [x for call in calls for x in call]
    chunks = ref_read(key, ctr, b"".join(flat))
    ok = (chunks is not None and b"".join(chunks) == payload and all(0 < len(ch) <= 1024 for ch in chunks)
          and all(len(ch) == 1024 for ch in chunks[:-1]) and c == ctr + len(chunks))
    return ok, flat, chunks


_LAST = [None, None, None, None]  # the accessory side of the last large stream (the same stream is fed under many schedules)


def large_recv(loop, case):
    """one large inbound case, expectation from the harness's own bookkeeping of what the accessory sent.
    -> (signature or None, what, impl string for the model, chunks, #frames, err)"""
    key = bytes.fromhex(case["key"])
    ctr = case["ctr"]
    ident = (case["key"], ctr, case["pseed"], case["total"], case["mode"])
    if _LAST[0] != ident:
        blocks = _large_blocks(case["pseed"], case["total"], case["mode"])
        offs, off = [], 0
        for b in blocks:
            offs.append(off)
            off += 2 + len(b) + 16
        _LAST[:] = [ident, blocks, ref_frames(key, ctr, blocks), offs]
    _, blocks, stream, offs = _LAST
    expect, expect_err = blocks, False
    if case.get("flip") is not None:
        bit = case["flip"]
        bad = bytearray(stream)
        bad[bit // 8] ^= 1 << (bit % 8)
        stream = bytes(bad)
        nb = max(i for i, o in enumerate(offs) if o <= bit // 8)
        expect, expect_err = blocks[:nb], True
        if bit // 8 - offs[nb] < 2:
            # altered length prefix: the reader fails if a whole frame of the altered length is there, else it waits
            n = struct.unpack("<H", stream[offs[nb]:offs[nb] + 2])[0]
            expect_err = offs[nb] + 2 + n + 16 <= len(stream)
    if case.get("cut_at") is not None:
        stream = stream[:case["cut_at"]]
        expect = [b for b, o in zip(blocks, offs) if o + 2 + len(b) + 16 <= case["cut_at"]]
    chunks = _chunks_of(stream, case["reads"])
    s, d, err = impl_recv_str(loop, key, ctr, b"", chunks)
    sig = what = None
    got, want = b"".join(d), b"".join(expect)
    reads = case["reads"]
    rd = f"{len(reads)} read(s) of {reads[:6]}{'...' if len(reads) > 6 else ''} bytes"
    if err and err.startswith("exc"):
        sig, what = "recv-large/" + err, f"data_received raised {err} on a {len(stream)}-byte stream of {len(blocks)} frames ({case['mode']}) delivered as {rd}"
    elif got != want or (err == "err") != expect_err:
        sig = "recv-large/" + case["kind"]
        what = (f"{case['kind']} stream of {len(stream)} bytes ({len(blocks)} frames, {case['mode']}) delivered as {rd} [{case['sched']}]: {len(got)} plaintext bytes "
                f"reached the application (err={err}) but the accessory sent {len(want)} authentic bytes before the stream end/first bad frame (expect_err={expect_err})"
                + ("" if got == want[:len(got)] else "; what was delivered is not even a prefix of it"))
    return sig, what, s, chunks, len(blocks), err


# ---------------------------------------------------------------------------------------------------------------------
# whole sessions with the real HTTP layer on top

class _Transport2:
    def __init__(self):
        self.out = bytearray()
        self.closed = False

    def is_closing(self):
        return self.closed

    def writelines(self, lines):
        for x in lines:
            self.out += x

    def write(self, data):
        self.out += data

    def write_eof(self):
        pass

    def close(self):
        self.closed = True

    def abort(self):
        self.closed = True


class _Conn2:
    def __init__(self):
        self.protocol = None
        self.closing = False
        self.closed = False
        self.lost = None
        self.events = []

    def _connection_lost(self, exc):
        self.lost = repr(exc)

    def event_received(self, ev):
        self.events.append(ev)


def _e2e_messages(ex):
    r = random.Random(ex["seed"])
    rbody = r.randbytes(ex["req_len"])
    req = b"PUT /characteristics HTTP/1.1\r\nHost: 192.0.2.1\r\nContent-Type: application/hap+json\r\nContent-Length: " + str(len(rbody)).encode() + b"\r\n\r\n" + rbody
    body = r.randbytes(ex["body_len"])
    msg = b"HTTP/1.1 200 OK\r\nContent-Type: application/hap+json\r\nContent-Length: " + str(len(body)).encode() + b"\r\n\r\n" + body
    evbody = None
    if ex.get("event_len"):
        evbody = r.randbytes(ex["event_len"])
        msg += b"EVENT/1.0 200 OK\r\nContent-Type: application/hap+json\r\nContent-Length: " + str(len(evbody)).encode() + b"\r\n\r\n" + evbody
    return req, body, evbody, _split(r, msg, ex["mode"])


async def _e2e_session(case):
    """-> (signature, what) of the first deviation or None"""
    a2c, c2a = bytes.fromhex(case["a2c"]), bytes.fromhex(case["c2a"])
    conn = _Conn2()
    p = ipc.SecureHomeKitProtocol(conn, a2c, c2a)
    conn.protocol = p
    t = _Transport2()
    p.connection_made(t)
    in_ctr = out_ctr = 0  # the reference accessory's own counters
    nev = 0
    for i, ex in enumerate(case["exchanges"]):
        req, body, evbody, blocks = _e2e_messages(ex)
        where = f"exchange {i} (request {len(req)} bytes, response body {ex['body_len']} bytes in {len(blocks)} frames [{ex['mode']}], reads {ex['reads'][:6]}{'...' if len(ex['reads']) > 6 else ''})"
        fut = asyncio.ensure_future(p.send_bytes(req))
        await asyncio.sleep(0)
        if fut.done():
            e = fut.exception() if not fut.cancelled() else "cancelled"
            return "e2e/send", f"{where}: send_bytes ended before any answer: {e!r}"
        written = bytes(t.out)
        t.out.clear()
        got = ref_read(c2a, in_ctr, written)
        if got is None or b"".join(got) != req or any(len(ch) > 1024 for ch in got):
            fut.cancel()
            return "e2e/request", f"{where}: a conformant accessory (counter {in_ctr}) does not decode what was written to the request bytes in <=1024-byte frames"
        in_ctr += len(got)
        stream = ref_frames(a2c, out_ctr, blocks)
        out_ctr += len(blocks)
        torn = None
        for chunk in _chunks_of(stream, ex["reads"]):
            try:
                p.data_received(chunk)
            except Exception as e:  # noqa: BLE001 - what asyncio does: fatal error, transport dropped
                torn = f"{type(e).__name__}: {e}"
                t.closed = True
                p.connection_lost(e)
                break
        await asyncio.sleep(0)
        if not fut.done():
            fut.cancel()
            await asyncio.sleep(0)
            return "e2e/response", f"{where}: the valid stream was delivered completely but the request is still waiting (torn down: {torn})"
        if fut.cancelled() or fut.exception() is not None:
            return "e2e/response", f"{where}: the request failed with {'cancelled' if fut.cancelled() else repr(fut.exception())} on a valid stream (torn down: {torn})"
        resp = fut.result()
        if bytes(resp.body) != body or resp.code != 200:
            return "e2e/response", f"{where}: the request got code {resp.code} and a body of {len(resp.body)} bytes that is not the {len(body)} bytes the accessory sent"
        if torn:
            return "e2e/response", f"{where}: data_received raised {torn} on a valid stream"
        if evbody is not None:
            nev += 1
            if len(conn.events) != nev or bytes(conn.events[-1].body) != evbody:
                return "e2e/event", f"{where}: the event of {len(evbody)} bytes sent right behind the response was not delivered exactly ({len(conn.events)} events seen, {nev} sent)"
        elif len(conn.events) != nev:
            return "e2e/event", f"{where}: {len(conn.events)} events delivered, the accessory sent {nev}"
    return None


def e2e_run(loop, case):
    try:
        return loop.run_until_complete(_e2e_session(case))
    except Exception as e:  # noqa: BLE001
        return "e2e/exc " + type(e).__name__, f"session raised {type(e).__name__}: {e}"


def run(ctx: Ctx, driver: Driver):
    rng = ctx.rng
    loop = asyncio.new_event_loop()
    asyncio.set_event_loop(loop)
    cryptoval.validate(ctx, driver, 6)
    for c in load_corpus(ID):
        replay(ctx, driver, c)
    # ---------------- outbound
    lens = [0, 1, 2, 1023, 1024, 1025, 2047, 2048, 2049, 3071, 3072, 3073, 4096, 5000] + [rng.randrange(0, 20000) for _ in range(ctx.budget(40, 600))]
    cases, outs, lines = [], [], []
    for n in lens:
        key = rb(rng, 32)
        ctr = rng.choice([0, 1, 7, 255, 256, 65535, 2 ** 32 - 1, 2 ** 32, rng.randrange(2 ** 40)])
        payload = rb(rng, n)
        calls, c = impl_send(loop, key, ctr, payload)
        ctx.evaluations += 1
        case = {"stream": "send", "key": hx(key), "ctr": ctr, "payload": hx(payload) if n <= 64 else f"random:{n}"}
        if calls is None:
            ctx.violation("send/" + c, f"send_bytes raised {c} for a payload of {n} bytes", case)
            continue
        if n == 0:
            # nothing to frame; the code still issues one (empty) writelines - not a framing matter
            flat = [x for call in calls for x in call]
        else:
            flat = [x for call in calls for x in call]
        stream = b"".join(flat)
        chunks = ref_read(key, ctr, stream)
        ok = chunks is not None and b"".join(chunks) == payload and all(0 < len(ch) <= 1024 for ch in chunks) and all(len(ch) == 1024 for ch in chunks[:-1]) and c == ctr + len(chunks)
        ctx.nontrivial.add(("send", min(len(chunks or []), 6), n % 1024 in (0, 1, 1023)))
        if not ok:
            ctx.violation("send/frames", f"a conformant accessory does not decode the {n}-byte request written from counter {ctr} to the request bytes in <=1024-byte frames", {**case, "payload": hx(payload)})
        if len(calls) != 1:
            ctx.dist["send:calls!=1"] += 1
        cases.append({**case, "payload": hx(payload)} if n <= 3000 else case)
        outs.append(f"{c} {blocks_str(flat)}")
        lines.append(f"sf.send {hx(key)} {ctr} {hx(payload)}")
        ctx.dist["send"] += 1
    ctx.sample({k: (v if len(str(v)) < 200 else str(v)[:200] + "...") for k, v in cases[2].items()})
    compare_with_model(ctx, "send", cases, outs, lines, driver)

    # ---------------- inbound: exhaustive single+double cuts on small streams
    cases, outs, lines = [], [], []
    model_every = ctx.budget(7, 3)

    def one_recv(kind, key, ctr, blocks, stream, cuts, expect_blocks, expect_err, to_model):
        pts = [0] + list(cuts) + [len(stream)]
        chunks = [stream[a:b] for a, b in zip(pts, pts[1:])]
        s, d, err = impl_recv_str(loop, key, ctr, b"", chunks)
        ctx.evaluations += 1
        case = {"stream": "recv", "kind": kind, "key": hx(key), "ctr": ctr, "chunks": [hx(x) for x in chunks]}
        ctx.nontrivial.add((kind, len(blocks), len(cuts), tuple(min(c * 8 // max(len(stream), 1), 7) for c in cuts[:2]), err))
        if err and err.startswith("exc"):
            ctx.violation("recv/" + err, f"data_received raised {err}", case)
        elif d != expect_blocks or (err == "err") != expect_err:
            ctx.violation("recv/" + kind, f"{kind}: delivered {len(d)} blocks (err={err}) but the accessory sent {len(expect_blocks)} authentic blocks before the stream end/first bad frame (expect_err={expect_err}); cuts={list(cuts)}", case)
        if to_model:
            cases.append(case)
            outs.append(s)
            lines.append(f"sf.recv {hx(key)} {ctr} - " + " ".join(hx(x) for x in chunks))
        ctx.dist["recv:" + kind] += 1

    nsmall = ctx.budget(8, 40)
    k = 0
    for _ in range(nsmall):
        key = rb(rng, 32)
        ctr = rng.choice([0, 3, 2 ** 32 - 1])
        blocks = [rb(rng, rng.randrange(1, 17)) for _ in range(rng.choice([2, 3]))]
        stream = ref_frames(key, ctr, blocks)
        L = len(stream)
        for a in range(1, L):
            k += 1
            one_recv("single-cut", key, ctr, blocks, stream, (a,), blocks, False, k % model_every == 0)
        for a, b in itertools.combinations(range(1, L), 2):
            k += 1
            one_recv("double-cut", key, ctr, blocks, stream, (a, b), blocks, False, k % (model_every * 7) == 0)
        # every single-bit corruption of the first two frames (prefix, ciphertext, tag), with one random cut
        f0 = 2 + len(blocks[0]) + 16
        f1 = f0 + 2 + len(blocks[1]) + 16
        for bit in range(f1 * 8):
            bad = bytearray(stream)
            bad[bit // 8] ^= 1 << (bit % 8)
            nb = 0 if bit // 8 < f0 else 1
            k += 1
            # a corrupted length prefix may make the reader wait for more bytes instead of failing: nothing is delivered from it either way
            in_prefix = (bit // 8) in (0, 1) or (bit // 8) in (f0, f0 + 1)
            exp_blocks = blocks[:nb]
            pts = (rng.randrange(1, L),)
            chunks_err = True
            if in_prefix:
                # decide by reference: does a full frame fit under the altered length?
                off = 0 if nb == 0 else f0
                n = struct.unpack("<H", bytes(bad[off:off + 2]))[0]
                chunks_err = off + 2 + n + 16 <= L
            one_recv("bitflip", key, ctr, blocks, bytes(bad), pts, exp_blocks, chunks_err, k % model_every == 0)
    # ---------------- inbound: larger streams, realistic frame sizes, random multi-cut / byte-at-a-time
    for _ in range(ctx.budget(300, 6000)):
        key = rb(rng, 32)
        ctr = rng.randrange(0, 2 ** 33)
        blocks = [rb(rng, rng.choice([1, 2, 100, 1023, 1024, rng.randrange(1, 1025)])) for _ in range(rng.randrange(1, 6))]
        stream = ref_frames(key, ctr, blocks)
        L = len(stream)
        mode = rng.randrange(4)
        if mode == 0 and L <= 400:
            cuts = tuple(range(1, L))
        else:
            cuts = tuple(sorted(set(rng.randrange(1, L) for _ in range(rng.choice([0, 1, 2, 5, 20])))))
        if mode == 3:
            # truncated stream: the tail frame is incomplete, nothing from it is delivered, no error
            cut_at = rng.randrange(0, L)
            full = []
            off = 0
            for b in blocks:
                if off + 2 + len(b) + 16 <= cut_at:
                    full.append(b)
                off += 2 + len(b) + 16
            cuts = tuple(c for c in cuts if c < cut_at)
            one_recv("truncated", key, ctr, blocks, stream[:cut_at], cuts, full, False, True)
        else:
            one_recv("multi-cut", key, ctr, blocks, stream, cuts, blocks, False, True)
    # ---------------- a new session after one that ended in the middle of a frame: nothing of the old session's bytes
    # (or counters) may reach the new one
    for _ in range(ctx.budget(30, 400)):
        key1, key2 = rb(rng, 32), rb(rng, 32)
        blocks1 = [rb(rng, rng.choice([5, 100, 1024])) for _ in range(rng.randrange(1, 4))]
        s1 = ref_frames(key1, 0, blocks1)
        cut_at = rng.randrange(1, len(s1))
        impl_recv_str(loop, key1, 0, b"", [s1[:cut_at]])  # session 1: the link drops here
        blocks2 = [rb(rng, rng.choice([1, 50, 1024])) for _ in range(rng.randrange(1, 4))]
        s2 = ref_frames(key2, 0, blocks2)
        cuts = tuple(sorted(set(rng.randrange(1, len(s2)) for _ in range(rng.choice([0, 1, 3])))))
        one_recv("after-dropped-session", key2, 0, blocks2, s2, cuts, blocks2, False, True)
    ctx.sample({k2: (v if len(str(v)) < 300 else str(v)[:300] + "...") for k2, v in cases[0].items()})
    compare_with_model(ctx, "recv", cases, outs, lines, driver)
    # (the streams below come last so that the ones above keep drawing the same random numbers as before)
    _run_large_send(ctx, driver, loop)
    _run_large_recv(ctx, driver, loop)
    _run_e2e(ctx, loop)
    loop.close()


def _run_large_send(ctx, driver, loop):
    """outbound: large requests (60 KiB .. 300 KiB), exact multiples of 1024 and their neighbours"""
    rng = ctx.rng
    cases, outs, lines = [], [], []
    big = [65536, 70000, 200000, 262144, 300 * 1024 - 1, 300 * 1024 + 1]
    for i in range(ctx.budget(6, 40)):
        if i < len(big) and ctx.tier != "search":
            n = big[i]
        else:
            n = rng.choice([rng.randrange(61440, 307200), 1024 * rng.randrange(60, 300) + rng.choice([-1, 0, 1])])
        key = rb(rng, 32)
        ctr = rng.choice([0, 1, 255, 65535, 2 ** 32 - 1, rng.randrange(2 ** 40)])
        case = {"stream": "send", "key": hx(key), "ctr": ctr, "payload": f"seed:{rng.randrange(2 ** 32)}:{n}"}
        payload = _send_payload(case)
        calls, c = impl_send(loop, key, ctr, payload)
        ctx.evaluations += 1
        ctx.dist["send-large"] += 1
        if calls is None:
            ctx.violation("send-large/" + c, f"send_bytes raised {c} for a payload of {n} bytes", case)
            continue
        ok, flat, chunks = _send_verdict(key, ctr, payload, calls, c)
        ctx.nontrivial.add(("send-large", n // 65536, n % 1024 in (0, 1, 1023), ok))
        if not ok:
            ctx.violation("send-large/frames", f"a conformant accessory does not decode the {n}-byte request written from counter {ctr} to the request bytes in <=1024-byte frames "
                          f"(decoded {None if chunks is None else sum(map(len, chunks))} bytes in {None if chunks is None else len(chunks)} frames, counter afterwards {c})", case)
        if i < ctx.budget(2, 6):
            cases.append(case)
            outs.append(f"{c} {blocks_str(flat)}")
            lines.append(f"sf.send {hx(key)} {ctr} {hx(payload)}")
    compare_with_model(ctx, "send", cases, outs, lines, driver)


def _run_large_recv(ctx, driver, loop):
    """inbound: bursts far larger than one frame / one 64 KiB read, under every delivery schedule of SCHEDS"""
    rng = ctx.rng
    cases, outs, lines = [], [], []
    nmodel = ctx.budget(4, 12)

    def one(case, to_model):
        sig, what, s, chunks, nframes, err = large_recv(loop, case)
        ctx.evaluations += 1
        ctx.dist[f"recv-large:{case['kind']}:{case['sched']}"] += 1
        ctx.dist["recv-large:max-read>65553" if max(case["reads"], default=0) > 65553 else "recv-large:max-read<=65553"] += 1
        ctx.nontrivial.add(("recv-large", case["kind"], case["mode"], case["sched"], min(case["total"] // 65536, 4), err))
        if sig:
            ctx.violation(sig, what, case)
        if to_model and len(cases) < nmodel:
            cases.append(case)
            outs.append(s)
            lines.append(f"sf.recv {case['key']} {case['ctr']} - " + " ".join(hx(x) for x in chunks))

    for i in range(ctx.budget(20, 300)):
        mode = LARGE_MODES[i % len(LARGE_MODES)] if i < 8 else rng.choice(LARGE_MODES)
        if mode == "small":
            total = rng.randrange(61440, 98304)  # thousands of frames
        else:
            total = rng.choice([rng.randrange(61440, 71680), rng.randrange(65536, 307200), 65536, 131072, 262144, 300000])
        base = {"stream": "recv-large", "key": hx(rb(rng, 32)), "ctr": rng.choice([0, 1, 2 ** 32 - 1, rng.randrange(2 ** 33)]), "pseed": rng.randrange(2 ** 32),
                "total": total, "mode": mode}
        blocks = _large_blocks(base["pseed"], total, mode)
        offs, off = [], 0
        for b in blocks:
            offs.append(off)
            off += 2 + len(b) + 16
        L = off
        for j, sched in enumerate(SCHEDS):
            one({**base, "kind": "valid", "sched": sched, "reads": _sched_reads(rng, L, sched)}, i < 2 and sched in ("one-read", "few-cuts"))
        # the burst stops in the middle of its last frames: everything before is delivered, no error
        cut_at = rng.randrange(max(L - 3000, 1), L)
        sched = rng.choice(SCHEDS)
        one({**base, "kind": "truncated", "sched": sched, "cut_at": cut_at, "reads": _sched_reads(rng, cut_at, sched)}, False)
        # one bit of a frame late in the burst (prefix, ciphertext or tag) is corrupted
        nb = rng.randrange(len(blocks) * 2 // 3, len(blocks))
        flen = 2 + len(blocks[nb]) + 16
        byte = offs[nb] + rng.choice([0, 1, rng.randrange(2, flen - 16), rng.randrange(flen - 16, flen)])
        sched = rng.choice(SCHEDS)
        one({**base, "kind": "bitflip", "sched": sched, "flip": byte * 8 + rng.randrange(8), "reads": _sched_reads(rng, L, sched)}, i == 0)
    if cases:
        ctx.sample({k: (v if len(str(v)) < 200 else str(v)[:200] + "...") for k, v in cases[0].items()}, limit=8)
    compare_with_model(ctx, "recv", cases, outs, lines, driver)


def _run_e2e(ctx, loop):
    """whole sessions, real HTTP layer: the request future gets exactly the body the accessory sent"""
    rng = ctx.rng
    for i in range(ctx.budget(10, 120)):
        exchanges = []
        for j in range(rng.choice([1, 2, 3])):
            mode = rng.choice(LARGE_MODES[:3]) if rng.randrange(4) else "small"
            body_len = rng.choice([rng.randrange(1, 5000), rng.randrange(61440, 98304)]) if mode == "small" else rng.choice([rng.randrange(1, 5000), rng.randrange(61440, 307200), rng.randrange(61440, 307200)])
            ex = {"seed": rng.randrange(2 ** 32), "req_len": rng.choice([0, 40, rng.randrange(1, 3000), rng.randrange(61440, 204800)]), "body_len": body_len, "mode": mode,
                  "event_len": rng.choice([None, None, rng.randrange(1, 2000)])}
            _, _, _, blocks = _e2e_messages(ex)
            L = sum(2 + len(b) + 16 for b in blocks)
            ex["sched"] = SCHEDS[(i + j) % len(SCHEDS)]
            ex["reads"] = _sched_reads(rng, L, ex["sched"])
            exchanges.append(ex)
        case = {"stream": "e2e", "a2c": hx(rb(rng, 32)), "c2a": hx(rb(rng, 32)), "exchanges": exchanges}
        v = e2e_run(loop, case)
        ctx.evaluations += 1
        ctx.dist["e2e:sessions"] += 1
        for ex in exchanges:
            ctx.dist["e2e:" + ex["sched"]] += 1
            ctx.nontrivial.add(("e2e", ex["mode"], ex["sched"], ex["body_len"] > 65536, ex["req_len"] > 65536, ex["event_len"] is not None, v and v[0]))
        if v:
            ctx.violation(v[0], v[1], case)


def replay(ctx, driver, c):
    loop = asyncio.new_event_loop()
    try:
        nv = len(ctx.violations)
        nm = len(ctx.mismatches)
        if c["stream"] == "recv-large":
            sig, what, s, chunks, _, _ = large_recv(loop, c)
            if sig:
                return what
            compare_with_model(ctx, "recv", [c], [s], [f"sf.recv {c['key']} {c['ctr']} - " + " ".join(hx(x) for x in chunks)], driver)
        elif c["stream"] == "e2e":
            asyncio.set_event_loop(loop)
            v = e2e_run(loop, c)
            if v:
                return v[1]
        elif c["stream"] == "send":
            key = bytes.fromhex(c["key"])
            payload = _send_payload(c)
            calls, ctr2 = impl_send(loop, key, c["ctr"], payload)
            if calls is None:
                return f"send raised {ctr2}"
            flat = [x for call in calls for x in call]
            chunks = ref_read(key, c["ctr"], b"".join(flat))
            if chunks is None or b"".join(chunks) != payload or any(len(ch) > 1024 for ch in chunks):
                return "outbound frames do not decode to the payload"
            compare_with_model(ctx, "send", [c], [f"{ctr2} {blocks_str(flat)}"], [f"sf.send {hx(key)} {c['ctr']} {hx(payload)}"], driver)
        else:
            key = bytes.fromhex(c["key"])
            chunks = [bytes.fromhex(x) if x != "-" else b"" for x in c["chunks"]]
            s, d, err = impl_recv_str(loop, key, c["ctr"], b"", chunks)
            # oracle: unsplit feeding gives the same
            s2, d2, err2 = impl_recv_str(loop, key, c["ctr"], b"", [b"".join(chunks)])
            if (d, err) != (d2, err2):
                return f"split-dependent: {s[:100]} vs unsplit {s2[:100]}"
            compare_with_model(ctx, "recv", [c], [s], [f"sf.recv {hx(key)} {c['ctr']} - " + " ".join(hx(x) for x in chunks)], driver)
        if len(ctx.mismatches) > nm:
            return "model/implementation mismatch: " + str(ctx.mismatches[-1])[:300]
        if len(ctx.violations) > nv:
            return ctx.violations[-1]["what"]
        return None
    finally:
        loop.close()
