"""C05 - encrypted IP session framing is exact outbound and segmentation-proof inbound."""
from __future__ import annotations

import asyncio
import itertools
import json
import random
import re
import struct

from cryptography.exceptions import InvalidTag
from cryptography.hazmat.primitives.ciphers.aead import ChaCha20Poly1305

from harness import cryptoval, refacc, simnet
from harness.acc import Accessory, http
from harness.common import Ctx, Driver, compare_with_model, hx, load_corpus

import aiohomekit.controller.ip.connection as ipc

ID = "C05"
RULE = ("outbound: payload lengths {0,1,1023,1024,1025,2047,2048,2049,3072,...} + random <=20000, any start counter; inbound: accessory frame sizes 1..1024 "
        "(small 1..16 for the exhaustive part), EVERY single and double cut of streams <=~110 bytes, random multi-cut and byte-at-a-time on larger ones, "
        "every single-bit corruption of length prefix / ciphertext / tag on small streams; LARGE streams (60 KiB..300 KiB of plaintext, 60..~5000 frames: all-1024, "
        "mixed, uniform 1..1024, many small frames) delivered as ONE read, as 256 KiB / 64 KiB / 16 KiB / 1460-byte reads, reads of 65535..65555 and 128 KiB, a few random cuts, "
        "a partial frame followed by the whole burst, a burst followed by a trickle - valid, truncated in the tail and single-bit-corrupted late in the burst; large requests "
        "(64 KiB..300 KiB, exact multiples of 1024 and +-1); whole sessions with the real HTTP layer on top (large request -> reference accessory, large Content-Length response "
        "[+ an EVENT right behind it] -> the request future / event_received, several exchanges per session); "
        "whole CONNECTIONS on the simulated network ('xs'): a real SecureHomeKitConnection (alone, or owned by an IpPairing that re-subscribes; request concurrency limit 1..3) connects to a reference "
        "accessory that does a real pair-verify and answers M1 / M3 / requests after d2 / d4 / dr seconds, while callers use the PUBLIC entry points HomeKitConnection.get / get_json / put / put_json / "
        "post / post_json / post_tlv / request and IpPairing.* before the connection exists, during the TCP connect, while M1 or M3 is in flight, in the instant of the switch and after it, over 1..3 "
        "sessions ended by peer close / reset / close() / a stall, with losses, close()+reconnect and reconnect_soon() inside the windows - judged at the accessory: everything it receives on a "
        "connection after it has sent M4 must be frames <=1024 that open under this session's key with counters 0,1,2,... and decrypt to whole requests, each one a request some caller made at that "
        "time (exact method, target, headers given, body), every call that returned was carried by such frames and got the body the accessory sent (answers of any size, cut anywhere). "
        "non-trivial = distinct (stream kind, #frames, cut pattern class, outcome)")
TRUSTED = ["cryptography's ChaCha20Poly1305 as the reference accessory AEAD", "harness/simnet.py (virtual-time loop, in-memory transport) and harness/acc.py + harness/refacc.py (reference accessory, "
           "real pair-verify written with `cryptography`) for the 'xs' connections", "Lean Real ChaCha20-Poly1305 (validated differentially in this run)"]
ASSUMPTIONS = ["asyncio closes the transport when data_received raises (the model's `none` state = session ended)",
               "the HTTP layer above the decrypted blocks is replaced by a byte sink here (C07 covers it), except in the 'e2e' sessions which keep the real one and only "
               "send plain Content-Length messages through it",
               "'xs' connections: the accessory answers one request after the other, in order; what reaches it BEFORE it has sent M4 (requests made through HomeKitConnection while pair-verify "
               "runs are written unencrypted) is counted, not judged - the property speaks about the established session; with a concurrency limit > 1 a request written in the very instant in "
               "which M4 arrives, before the new keys were used once, is not judged either (the controller may not have looked at M4 yet)"]
EXPLANATION = "Lean theorems C05_* over the frame-loop model with an abstract AEAD; model tied to SecureHomeKitProtocol by differential streams send/recv"


def nonce(c):
    return struct.pack("<LQ", 0, c)


def ref_frames(key, ctr, blocks):
    out = b""
    for b in blocks:
        lb = struct.pack("<H", len(b))
        out += lb + ChaCha20Poly1305(key).encrypt(nonce(ctr), b, lb)
        ctr += 1
    return out


def ref_read(key, ctr, stream):
    """conformant accessory reader: list of plaintext chunks or None"""
    out = []
    i = 0
    while i < len(stream):
        if i + 2 > len(stream):
            return None
        n = struct.unpack("<H", stream[i:i + 2])[0]
        if n > 1024 or i + 2 + n + 16 > len(stream):
            return None
        try:
            out.append(ChaCha20Poly1305(key).decrypt(nonce(ctr), stream[i + 2:i + 2 + n + 16], stream[i:i + 2]))
        except InvalidTag:
            return None
        ctr += 1
        i += 2 + n + 16
    return out


class _Transport:
    def __init__(self, proto_ref):
        self.calls = []
        self.proto_ref = proto_ref
        self.closed = False

    def is_closing(self):
        return self.closed

    def writelines(self, lines):
        self.calls.append([bytes(x) for x in lines])
        # answer at once so that send_bytes returns
        p = self.proto_ref[0]
        p.result_cbs[-1].set_result("resp")

    def write(self, data):
        self.calls.append([bytes(data)])
        p = self.proto_ref[0]
        p.result_cbs[-1].set_result("resp")

    def write_eof(self):
        pass

    def close(self):
        self.closed = True


class _Conn:
    def _connection_lost(self, exc):
        pass

    def event_received(self, ev):
        pass


async def _impl_send(a2c, c2a, ctr, payload):
    ref = [None]
    p = ipc.SecureHomeKitProtocol(_Conn(), a2c, c2a)
    ref[0] = p
    t = _Transport(ref)
    p.connection_made(t)
    p.c2a_counter = ctr
    await p.send_bytes(payload)
    return t.calls, p.c2a_counter


async def _impl_recv(a2c, c2a, ctr, buf, chunks):
    p = ipc.SecureHomeKitProtocol(_Conn(), a2c, c2a)
    p.a2c_counter = ctr
    if buf:
        p._incoming_buffer = bytearray(buf)  # (a new session is otherwise used exactly as the library built it)
    delivered = []
    orig = ipc.InsecureHomeKitProtocol.data_received
    ipc.InsecureHomeKitProtocol.data_received = lambda self, data: delivered.append(bytes(data))
    err = None
    try:
        for c in chunks:
            try:
                p.data_received(c)
            except RuntimeError:
                err = "err"
                break
            except Exception as e:  # noqa: BLE001
                err = "exc " + type(e).__name__
                break
    finally:
        ipc.InsecureHomeKitProtocol.data_received = orig
    return delivered, err, bytes(p._incoming_buffer), p.a2c_counter


def blocks_str(l):
    return " ".join(hx(b) for b in l) if l else "."


def impl_send(loop, key, ctr, payload):
    try:
        calls, c = loop.run_until_complete(_impl_send(bytes(32), key, ctr, payload))
    except Exception as e:  # noqa: BLE001
        return None, "exc " + type(e).__name__
    return calls, c


def impl_recv_str(loop, key, ctr, buf, chunks):
    d, err, b, c = loop.run_until_complete(_impl_recv(key, bytes(32), ctr, buf, chunks))
    if err == "err":
        return f"err {blocks_str(d)}", d, err
    if err:
        return err, d, err
    return f"ok {blocks_str(d)} | {hx(b)} {c}", d, None


def rb(rng, n):
    return bytes(rng.randrange(256) for _ in range(n))


# ---------------------------------------------------------------------------------------------------------------------
# large streams: a case is described by small numbers (seeds, sizes, read lengths) so that it stays replayable without
# carrying hundreds of kilobytes of hex

LARGE_MODES = ("all-1024", "mixed", "uniform", "small")
SCHEDS = ("one-read", "256k", "64k", "16k", "mss", "around-64k", "few-cuts", "partial-then-burst", "burst-then-trickle")
_FIXED = {"256k": 262144, "64k": 65536, "16k": 16384, "mss": 1460}


def _split(r, data, mode):
    """the accessory's frame-size choice (every frame 1..1024 plaintext bytes)"""
    blocks, off = [], 0
    while off < len(data):
        if mode == "all-1024":
            n = 1024
        elif mode == "mixed":
            n = r.choice([1, 2, 100, 1023, 1024, r.randrange(1, 1025)])
        elif mode == "uniform":
            n = r.randrange(1, 1025)
        else:
            n = r.randrange(1, 65)
        blocks.append(data[off:off + n])
        off += n
    return blocks


def _large_blocks(pseed, total, mode):
    r = random.Random(pseed)
    return _split(r, r.randbytes(total), mode)


def _sched_reads(rng, L, sched):
    """read lengths (sum = L) of one delivery schedule of an L-byte stream"""
    if L <= 0:
        return []
    if sched == "one-read":
        cuts = []
    elif sched in _FIXED:
        cuts = range(_FIXED[sched], L, _FIXED[sched])
    elif sched == "around-64k":
        n = rng.choice([65535, 65536, 65537, 65552, 65553, 65554, 65555, 131072])
        cuts = range(n, L, n)
    elif sched == "few-cuts":
        cuts = [rng.randrange(1, max(L, 2)) for _ in range(rng.randrange(1, 5))]
    elif sched == "partial-then-burst":
        cuts = [rng.randrange(1, 2100)]
    else:  # burst-then-trickle
        a = rng.randrange(L // 2, L) if L > 2 else 1
        cuts = [a] + list(range(a + 1460, L, 1460))
    cuts = sorted({c for c in cuts if 0 < c < L})
    pts = [0] + cuts + [L]
    return [b - a for a, b in zip(pts, pts[1:])]


def _chunks_of(stream, reads):
    out, off = [], 0
    for n in reads:
        out.append(stream[off:off + n])
        off += n
    return out


def _send_payload(c):
    """payload of a send case: hex, '-' or 'seed:<s>:<n>' (large ones)"""
    pl = c["payload"]
    if pl == "-":
        return b""
    if pl.startswith("seed:"):
        _, sd, n = pl.split(":")
        return random.Random(int(sd)).randbytes(int(n))
    return bytes.fromhex(pl)


def _send_verdict(key, ctr, payload, calls, c):
    flat = [x for call in calls for x in call]
    chunks = ref_read(key, ctr, b"".join(flat))
    ok = (chunks is not None and b"".join(chunks) == payload and all(0 < len(ch) <= 1024 for ch in chunks)
          and all(len(ch) == 1024 for ch in chunks[:-1]) and c == ctr + len(chunks))
    return ok, flat, chunks


_LAST = [None, None, None, None]  # the accessory side of the last large stream (the same stream is fed under many schedules)


def large_recv(loop, case):
    """one large inbound case, expectation from the harness's own bookkeeping of what the accessory sent.
    -> (signature or None, what, impl string for the model, chunks, #frames, err)"""
    key = bytes.fromhex(case["key"])
    ctr = case["ctr"]
    ident = (case["key"], ctr, case["pseed"], case["total"], case["mode"])
    if _LAST[0] != ident:
        blocks = _large_blocks(case["pseed"], case["total"], case["mode"])
        offs, off = [], 0
        for b in blocks:
            offs.append(off)
            off += 2 + len(b) + 16
        _LAST[:] = [ident, blocks, ref_frames(key, ctr, blocks), offs]
    _, blocks, stream, offs = _LAST
    expect, expect_err = blocks, False
    if case.get("flip") is not None:
        bit = case["flip"]
        bad = bytearray(stream)
        bad[bit // 8] ^= 1 << (bit % 8)
        stream = bytes(bad)
        nb = max(i for i, o in enumerate(offs) if o <= bit // 8)
        expect, expect_err = blocks[:nb], True
        if bit // 8 - offs[nb] < 2:
            # altered length prefix: the reader fails if a whole frame of the altered length is there, else it waits
            n = struct.unpack("<H", stream[offs[nb]:offs[nb] + 2])[0]
            expect_err = offs[nb] + 2 + n + 16 <= len(stream)
    if case.get("cut_at") is not None:
        stream = stream[:case["cut_at"]]
        expect = [b for b, o in zip(blocks, offs) if o + 2 + len(b) + 16 <= case["cut_at"]]
    chunks = _chunks_of(stream, case["reads"])
    s, d, err = impl_recv_str(loop, key, ctr, b"", chunks)
    sig = what = None
    got, want = b"".join(d), b"".join(expect)
    reads = case["reads"]
    rd = f"{len(reads)} read(s) of {reads[:6]}{'...' if len(reads) > 6 else ''} bytes"
    if err and err.startswith("exc"):
        sig, what = "recv-large/" + err, f"data_received raised {err} on a {len(stream)}-byte stream of {len(blocks)} frames ({case['mode']}) delivered as {rd}"
    elif got != want or (err == "err") != expect_err:
        sig = "recv-large/" + case["kind"]
        what = (f"{case['kind']} stream of {len(stream)} bytes ({len(blocks)} frames, {case['mode']}) delivered as {rd} [{case['sched']}]: {len(got)} plaintext bytes "
                f"reached the application (err={err}) but the accessory sent {len(want)} authentic bytes before the stream end/first bad frame (expect_err={expect_err})"
                + ("" if got == want[:len(got)] else "; what was delivered is not even a prefix of it"))
    return sig, what, s, chunks, len(blocks), err


# ---------------------------------------------------------------------------------------------------------------------
# whole sessions with the real HTTP layer on top

class _Transport2:
    def __init__(self):
        self.out = bytearray()
        self.closed = False

    def is_closing(self):
        return self.closed

    def writelines(self, lines):
        for x in lines:
            self.out += x

    def write(self, data):
        self.out += data

    def write_eof(self):
        pass

    def close(self):
        self.closed = True

    def abort(self):
        self.closed = True


class _Conn2:
    def __init__(self):
        self.protocol = None
        self.closing = False
        self.closed = False
        self.lost = None
        self.events = []

    def _connection_lost(self, exc):
        self.lost = repr(exc)

    def event_received(self, ev):
        self.events.append(ev)


def _e2e_messages(ex):
    r = random.Random(ex["seed"])
    rbody = r.randbytes(ex["req_len"])
    req = b"PUT /characteristics HTTP/1.1\r\nHost: 192.0.2.1\r\nContent-Type: application/hap+json\r\nContent-Length: " + str(len(rbody)).encode() + b"\r\n\r\n" + rbody
    body = r.randbytes(ex["body_len"])
    msg = b"HTTP/1.1 200 OK\r\nContent-Type: application/hap+json\r\nContent-Length: " + str(len(body)).encode() + b"\r\n\r\n" + body
    evbody = None
    if ex.get("event_len"):
        evbody = r.randbytes(ex["event_len"])
        msg += b"EVENT/1.0 200 OK\r\nContent-Type: application/hap+json\r\nContent-Length: " + str(len(evbody)).encode() + b"\r\n\r\n" + evbody
    return req, body, evbody, _split(r, msg, ex["mode"])


async def _e2e_session(case):
    """-> (signature, what) of the first deviation or None"""
    a2c, c2a = bytes.fromhex(case["a2c"]), bytes.fromhex(case["c2a"])
    conn = _Conn2()
    p = ipc.SecureHomeKitProtocol(conn, a2c, c2a)
    conn.protocol = p
    t = _Transport2()
    p.connection_made(t)
    in_ctr = out_ctr = 0  # the reference accessory's own counters
    nev = 0
    for i, ex in enumerate(case["exchanges"]):
        req, body, evbody, blocks = _e2e_messages(ex)
        where = f"exchange {i} (request {len(req)} bytes, response body {ex['body_len']} bytes in {len(blocks)} frames [{ex['mode']}], reads {ex['reads'][:6]}{'...' if len(ex['reads']) > 6 else ''})"
        fut = asyncio.ensure_future(p.send_bytes(req))
        await asyncio.sleep(0)
        if fut.done():
            e = fut.exception() if not fut.cancelled() else "cancelled"
            return "e2e/send", f"{where}: send_bytes ended before any answer: {e!r}"
        written = bytes(t.out)
        t.out.clear()
        got = ref_read(c2a, in_ctr, written)
        if got is None or b"".join(got) != req or any(len(ch) > 1024 for ch in got):
            fut.cancel()
            return "e2e/request", f"{where}: a conformant accessory (counter {in_ctr}) does not decode what was written to the request bytes in <=1024-byte frames"
        in_ctr += len(got)
        stream = ref_frames(a2c, out_ctr, blocks)
        out_ctr += len(blocks)
        torn = None
        for chunk in _chunks_of(stream, ex["reads"]):
            try:
                p.data_received(chunk)
            except Exception as e:  # noqa: BLE001 - what asyncio does: fatal error, transport dropped
                torn = f"{type(e).__name__}: {e}"
                t.closed = True
                p.connection_lost(e)
                break
        await asyncio.sleep(0)
        if not fut.done():
            fut.cancel()
            await asyncio.sleep(0)
            return "e2e/response", f"{where}: the valid stream was delivered completely but the request is still waiting (torn down: {torn})"
        if fut.cancelled() or fut.exception() is not None:
            return "e2e/response", f"{where}: the request failed with {'cancelled' if fut.cancelled() else repr(fut.exception())} on a valid stream (torn down: {torn})"
        resp = fut.result()
        if bytes(resp.body) != body or resp.code != 200:
            return "e2e/response", f"{where}: the request got code {resp.code} and a body of {len(resp.body)} bytes that is not the {len(body)} bytes the accessory sent"
        if torn:
            return "e2e/response", f"{where}: data_received raised {torn} on a valid stream"
        if evbody is not None:
            nev += 1
            if len(conn.events) != nev or bytes(conn.events[-1].body) != evbody:
                return "e2e/event", f"{where}: the event of {len(evbody)} bytes sent right behind the response was not delivered exactly ({len(conn.events)} events seen, {nev} sent)"
        elif len(conn.events) != nev:
            return "e2e/event", f"{where}: {len(conn.events)} events delivered, the accessory sent {nev}"
    return None


def e2e_run(loop, case):
    try:
        return loop.run_until_complete(_e2e_session(case))
    except Exception as e:  # noqa: BLE001
        return "e2e/exc " + type(e).__name__, f"session raised {type(e).__name__}: {e}"


# ---------------------------------------------------------------------------------------------------------------------
# whole connections on the simulated network: the callers use the PUBLIC entry points (HomeKitConnection.get / get_json / put /
# put_json / post / post_json / post_tlv / request, IpPairing.*) at any moment of a connection's life - before it exists, during
# the TCP connect, while M1 / M3 of pair-verify are in flight, right after the switch to the secure protocol, across a drop and
# the reconnect - and everything is judged from what a conformant accessory receives on each connection after it has sent M4.

XS_PLAN = {"d0": 0.01, "d2": 0.0, "d4": 0.0, "dr": 0.0, "verify": "ok", "plain": "470"}
XS_ENDS = ("peer_close", "peer_reset", "close", "stall")
XS_DB = [{"aid": 1, "services": [{"iid": 1, "type": "3E", "characteristics": [
    {"iid": 2, "type": "23", "format": "string", "perms": ["pr"], "value": "x"},
    {"iid": 3, "type": "25", "format": "bool", "perms": ["pr", "pw", "ev"], "value": False},
    {"iid": 4, "type": "14", "format": "bool", "perms": ["pw"]}]}]}]
_XS_BUGS = (AttributeError, TypeError, KeyError, IndexError, NameError, AssertionError, UnboundLocalError)
_XS_REQLINE = re.compile(rb"^[A-Z]{1,12} \S+ HTTP/1\.1$")


def _xs_body(arg):
    return random.Random(arg.get("bseed", 0)).randbytes(arg.get("n", 0))


def _xs_obj(arg):
    return {"characteristics": [{"aid": 1, "iid": 3, "value": _xs_body(arg).hex()}], "k": arg.get("k", 0)}


def _xs_exact(method, target, body=b"", obj=None, headers=()):
    return {"exact": True, "method": method, "target": target, "body": body, "json": obj, "headers": [f"{h}: {v}" for h, v in headers]}


def _e_get(c, p, a):
    t = f"/characteristics?id=1.{a.get('k', 2)}"
    return c.get(t), _xs_exact("GET", t)


def _e_get_json(c, p, a):
    t = f"/accessories?k={a.get('k', 0)}"
    return c.get_json(t), _xs_exact("GET", t)


def _e_put(c, p, a):
    b = _xs_body(a)
    return c.put("/characteristics", b), _xs_exact("PUT", "/characteristics", b, headers=[("Content-Length", len(b))])


def _e_put_json(c, p, a):
    o = _xs_obj(a)
    return c.put_json("/characteristics", o), _xs_exact("PUT", "/characteristics", None, o)


def _e_post(c, p, a):
    b = _xs_body(a)
    return c.post("/resource", b), _xs_exact("POST", "/resource", b, headers=[("Content-Length", len(b))])


def _e_post_json(c, p, a):
    o = _xs_obj(a)
    return c.post_json("/resource", o), _xs_exact("POST", "/resource", None, o)


def _e_post_tlv(c, p, a):
    items = [(6, b"\x01"), (0, b"\x05"), (1, _xs_body(a))]
    # (post_tlv returns normally with the body of a 4xx answer too: its return says nothing about the exchange)
    return c.post_tlv("/pairings", items), dict(_xs_exact("POST", "/pairings", refacc.tlv(items)), returns_on_error=True)


def _e_request(c, p, a):
    b = _xs_body(a)
    m = ("GET", "PUT", "POST", "DELETE")[a.get("k", 0) % 4]
    t = f"/x/{a.get('k', 0)}"
    hs = ([("Content-Length", len(b))] if b or m != "GET" else []) + [("X-Call", str(a.get("k", 0)))]
    return c.request(method=m, target=t, headers=hs, body=b or None), _xs_exact(m, t, b, headers=hs)


def _xs_loose(method, prefix):
    return {"exact": False, "method": method, "prefix": prefix}


XS_DIRECT = {"get": _e_get, "get_json": _e_get_json, "put": _e_put, "put_json": _e_put_json, "post": _e_post, "post_json": _e_post_json, "post_tlv": _e_post_tlv,
             "request": _e_request}
XS_PAIRING = {  # entry points of IpPairing (they wait for the connector before they send)
    "p.la": lambda c, p, a: (p.list_accessories_and_characteristics(), _xs_loose("GET", "/accessories")),
    "p.get": lambda c, p, a: (p.get_characteristics([(1, 2)]), _xs_loose("GET", "/characteristics")),
    "p.put": lambda c, p, a: (p.put_characteristics([(1, 3, bool(a.get("k", 0) % 2))]), _xs_loose("PUT", "/characteristics")),
    "p.sub": lambda c, p, a: (p.subscribe([(1, 3)]), None),
    "p.lp": lambda c, p, a: (p.list_pairings(), _xs_loose("POST", "/pairings")),
    "p.img": lambda c, p, a: (p.image(1, 4, 4), None),
    "p.identify": lambda c, p, a: (p.identify(), _xs_loose("PUT", "/characteristics")),
}
XS_ENTRIES = {**XS_DIRECT, **XS_PAIRING}
_XS_OWN = (("GET", "/accessories"), ("GET", "/characteristics"), ("PUT", "/characteristics"), ("POST", "/pairings"), ("POST", "/resource"))


def _xs_answer(method, target, body, serial=0, pad=""):
    """-> (the accessory's answer, its body); serial / pad make every answer different from every other and of any size"""
    J = b"application/hap+json"

    def js(o):
        b = json.dumps(dict(o, serial=serial, pad=pad)).encode()
        return http(b, J), b
    if target.startswith("/accessories"):
        return js({"accessories": XS_DB})
    if target.startswith("/characteristics") and method == "GET":
        rows = []
        for i in (target.split("id=", 1)[1].split(",") if "id=" in target else []):
            try:
                rows.append({"aid": int(i.split(".")[0]), "iid": int(i.split(".")[1]), "value": "x"})
            except (ValueError, IndexError):
                pass
        return js({"characteristics": rows})
    if target.startswith("/characteristics"):
        return b"HTTP/1.1 204 No Content\r\n\r\n", b""
    if target == "/pairings":
        b = refacc.tlv([(6, b"\x02"), (1, b"CONTROLLER-%d" % serial), (3, bytes(32)), (11, b"\x01")])
        return http(b), b
    return js({"ok": 1})


class XAccessory(Accessory):
    """harness/acc.py's accessory (real pair-verify, AEAD framing) that answers one request after the other (d2 / d4 / dr seconds
    for M1 / M3 / a request of the session; d0 = TCP connect time) and keeps, per connection, the books the oracle needs:
    what arrived before it sent M4, and after M4 a STRICT reading of the byte stream as frames of this session"""

    def __init__(self, loop, net, rb, limit, rnd):
        super().__init__(loop, net, rb, accessories=XS_DB)
        self.plans = []
        self.limit = limit
        self.rnd = rnd
        self.mute = False
        self.serial = 0
        self.notes = []

    def on_connect(self, t):
        super().on_connect(t)
        s = self.sessions[t]
        s.plan = dict(XS_PLAN, **(self.plans.pop(0) if self.plans else {}))
        s.mode = s.plan["verify"]
        s.m4_at = None   # virtual time at which this accessory sent M4 on this connection
        s.pre = []       # (time, 'METHOD target'): requests other than pair-verify that arrived before M4
        s.bad = None     # (signature, text): the first thing after M4 that is not a frame of this session / not a whole request
        s.raced = 0      # limit > 1 only: bytes written in the very instant of M4, before anything was framed (see _broken)
        s.frames = []    # plaintext sizes of the frames opened after M4
        s.framed = []    # (time, method, target, header lines, body): the requests the frames decrypted to
        s.answers = {}   # index in s.framed -> the body this accessory sent in answer
        s.queue = []
        s.busy = False
        s.dead = False   # the framing broke: the accessory has stopped reading
        s.silent = False  # the accessory says nothing more on this connection

    # ---- what arrives
    def on_write(self, t, data):
        s = self.sessions[t]
        now = self.loop.time()
        if s.dead:
            return
        if s.m4_at is None:
            s.buf += data
            while True:
                try:
                    req = self._xs_take(s)
                except ValueError:
                    s.pre.append((now, f"bytes that are no HTTP request {s.buf[:16]!r}"))
                    s.buf = b""
                    return
                if req is None:
                    return
                method, target, heads, body = req
                if method == "POST" and target == "/pair-verify":
                    s.queue.append(("verify", body))
                else:
                    s.pre.append((now, f"{method} {target}"))
                    s.queue.append(("plain", method, target))
                self._pump(t)
        s.ebuf += data
        while len(s.ebuf) >= 2:
            n = struct.unpack("<H", s.ebuf[:2])[0]
            if n <= 1024 and len(s.ebuf) < 2 + n + 16:
                return
            if n > 1024:
                return self._broken(t, s, now, "xs/after-m4/length", f"the length prefix {bytes(s.ebuf[:2])!r} announces {n} > 1024 plaintext bytes ({len(s.ebuf)} bytes starting "
                                    f"{bytes(s.ebuf[:40])!r}): not a frame of the secure session")
            try:
                plain = ChaCha20Poly1305(s.c2a).decrypt(nonce(s.rctr), s.ebuf[2:2 + n + 16], s.ebuf[:2])
            except InvalidTag:
                return self._broken(t, s, now, "xs/after-m4/unauthentic", f"frame #{s.rctr} ({n} plaintext bytes announced) does not open under this session's controller-to-accessory "
                                    f"key with counter {s.rctr}")
            s.rctr += 1
            s.frames.append(n)
            s.ebuf = s.ebuf[2 + n + 16:]
            s.buf += plain
            while True:
                try:
                    req = self._xs_take(s)
                except ValueError:
                    return self._broken(t, s, now, "xs/after-m4/not-a-request", f"the frames decrypt to bytes that are no HTTP request: {s.buf[:40]!r}")
                if req is None:
                    break
                s.framed.append((now,) + req)
                s.queue.append(("framed", len(s.framed) - 1) + req)
                self._pump(t)

    def _broken(self, t, s, now, sig, text):
        if self.limit > 1 and now == s.m4_at and not s.frames:
            # more than one request may be in flight: a request written in the very instant in which M4 arrives, before the
            # controller has used the new keys once, may have been written before the controller looked at M4 - not judged
            s.raced += 1
        else:
            s.bad = (sig, f"t={now:.3f} (M4 was sent at t={s.m4_at:.3f}, {len(s.frames)} frame(s) opened so far): {text}")
        s.dead = True
        s.ebuf = s.buf = b""
        self.loop.call_soon(t.peer_close)  # a genuine accessory ends a session whose framing broke

    @staticmethod
    def _xs_take(s):
        b = s.buf
        i = b.find(b"\r\n\r\n")
        if i < 0:
            if len(b) >= 16 and b"\r\n" not in b[:4096] and not re.match(rb"^[A-Z]{1,12} ", b):
                raise ValueError
            if b"\r\n" in b and not _XS_REQLINE.match(b.split(b"\r\n", 1)[0]):
                raise ValueError
            return None
        head = b[:i].split(b"\r\n")
        if not _XS_REQLINE.match(head[0]):
            raise ValueError
        method, target, _ = head[0].split(b" ", 2)
        cl = 0
        for h in head[1:]:
            if b":" not in h:
                raise ValueError
            if h.lower().startswith(b"content-length:"):
                cl = int(h.split(b":")[1])
        if len(b) < i + 4 + cl:
            return None
        s.buf = b[i + 4 + cl:]
        return method.decode(), target.decode(), [h.decode("latin-1") for h in head[1:]], b[i + 4:i + 4 + cl]

    # ---- one request after the other
    def _pump(self, t):
        s = self.sessions[t]
        if s.busy or not s.queue or t.closing or t.closed:
            return
        item = s.queue.pop(0)
        s.busy = True
        if item[0] == "verify":
            try:
                step = refacc.untlv(item[1]).get(6)
            except Exception:  # noqa: BLE001
                step = None
            d = s.plan["d2"] if step == b"\x01" else s.plan["d4"]
        else:
            d = s.plan["dr"] if item[0] == "framed" else 0.0
        if d > 0:
            self.loop.call_later(d, self._done, t, item)
        else:
            self.loop.call_soon(self._done, t, item)

    def _done(self, t, item):
        s = self.sessions[t]
        s.busy = False
        if t.closing or t.closed or s.dead or s.silent:
            return
        if item[0] == "verify":
            if s.m4_at is not None:
                return t.peer_close()
            try:
                self._verify(t, s, item[1])
            except Exception as e:  # noqa: BLE001
                self.notes.append(f"accessory could not process a pair-verify request: {type(e).__name__}")
                return t.peer_close()
            if s.secure and s.m4_at is None:
                s.m4_at = self.loop.time()
                s.buf = b""
        elif item[0] == "plain":
            if s.m4_at is not None:
                # it arrived unencrypted while M3 was being processed; its turn comes on the secure session, where a genuine
                # accessory reads those bytes as a frame and gives up
                return t.peer_close()
            if s.plan["plain"] == "470":
                t.feed(http(b"", code=b"470 Connection Authorization Required"))
            elif s.plan["plain"] == "close":
                return t.peer_close()
            else:
                # 'ignore': the accessory says nothing more on this connection (answers are attributed by position: skipping one
                # request and answering the next would not be HTTP)
                s.silent = True
                return
        elif self.mute:
            s.silent = True
            return
        else:
            self.serial += 1
            ans, body = _xs_answer(item[2], item[3], item[5], self.serial, "%x" % self.rnd.getrandbits(4 * n) if (n := self.rnd.choice([0, 0, 8, 600, 1100, 2600])) else "")
            s.answers[item[1]] = body
            L = len(ans) + 18 * (len(ans) // 1024 + 1)
            self.send(t, ans, [self.rnd.randrange(1, L) for _ in range(self.rnd.choice([0, 0, 1, 2, 5]))] if s.plan.get("cuts", True) else ())
        self._pump(t)


async def _xs_settle(loop):
    for _ in range(2000):
        await asyncio.sleep(0)
        if not loop._ready and not (loop._scheduled and any(not h._cancelled and h._when <= loop.time() for h in loop._scheduled)):
            return


def _xs_match(exp, req):
    """does the request the accessory decrypted (method, target, header lines, body) carry this call?"""
    method, target, heads, body = req
    if not exp["exact"]:
        return method == exp["method"] and target.startswith(exp["prefix"])
    if method != exp["method"] or target != exp["target"]:
        return False
    if exp["json"] is not None:
        try:
            if json.loads(body) != exp["json"]:
                return False
        except ValueError:
            return False
    elif body != exp["body"]:
        return False
    return all(h in heads for h in exp["headers"])


async def _xs_scenario(loop, hist):
    """run one history -> (problems, stats)"""
    from unittest.mock import MagicMock

    from aiohomekit.characteristic_cache import CharacteristicCacheMemory
    from aiohomekit.controller.ip.pairing import IpPairing
    rnd = random.Random(hist["seed"])
    limit = hist.get("limit", 1)
    net = simnet.Net(loop)
    acc = XAccessory(loop, net, lambda n: bytes(rnd.randrange(256) for _ in range(n)), limit, rnd)
    connect_now = net.start_connection

    async def start_connection(addr_infos, **kw):
        await asyncio.sleep(max((acc.plans[0] if acc.plans else XS_PLAN).get("d0", 0.01), 0.001))  # a TCP connect takes a round trip
        return await connect_now(addr_infos, **kw)
    net.start_connection = start_connection
    calls, tasks, problems, bugs = [], [], [], []
    compared = 0
    with net.patched():
        pdata = acc.pairing_data(["10.0.0.1"])
        p = None
        if hist.get("owner"):
            ctrl = MagicMock()
            ctrl._char_cache = CharacteristicCacheMemory()
            p = IpPairing(ctrl, pdata)
            conn = p.connection
        else:
            conn = ipc.SecureHomeKitConnection(None, pdata)
        if limit > 1:
            # HomeKitConnection's public concurrency_limit parameter, which SecureHomeKitConnection's constructor does not pass on
            ipc.HomeKitConnection.__init__(conn, p, conn.hosts, conn.port, concurrency_limit=limit)

        async def call(entry, arg):
            rec = {"entry": entry, "start": loop.time(), "end": None, "outcome": "pending", "exp": None}
            calls.append(rec)
            try:
                coro, rec["exp"] = XS_ENTRIES[entry](conn, p, arg)
                r = await coro
                rec["outcome"] = "returned"
                if hasattr(r, "body") and hasattr(r, "code"):
                    rec["result"] = ("bytes", bytes(r.body))
                elif isinstance(r, dict):
                    rec["result"] = ("json", r)
            except asyncio.CancelledError:
                rec["outcome"] = "cancelled"
                raise
            except BaseException as e:  # noqa: BLE001
                rec["outcome"] = "raised:" + type(e).__name__
                if isinstance(e, _XS_BUGS):
                    rec["bug"] = f"{type(e).__name__}: {e}"
            finally:
                rec["end"] = loop.time()

        async def kick():
            try:
                await conn.ensure_connection()
            except Exception:  # noqa: BLE001
                pass

        async def end(how):
            if how in ("peer_close", "peer_reset"):
                if net.open:
                    getattr(net.open[-1], how)()
            elif how == "close":
                await (p.close() if p is not None else conn.close())
            elif how == "reconnect_soon":
                conn.reconnect_soon()
            elif how == "stall":
                # the accessory goes silent: the request layer gives the session up by itself after its time-out
                if net.open and acc.sessions[net.open[-1]].m4_at is not None:
                    acc.mute = True
                    t = asyncio.ensure_future(call("get", {"k": 9}))
                    await asyncio.wait([t], timeout=60)
                    acc.mute = False

        for ep in hist["epochs"]:
            acc.plans = [dict(x) for x in ep["plans"]]  # for the connections opened from now on
            if ep["end"] == "stall":
                await end("stall")
                timeline = []
            else:
                timeline = [(0.0, 0, "end", ep["end"], None)]
            timeline += [(float(off), 3, "call", entry, arg) for off, entry, arg in ep["calls"]]
            timeline += [(float(off), 2, "kick" if how == "kick" else "end", how, None) for off, how in ep.get("events", [])]
            if ep.get("kick"):
                timeline.append((0.0, 1, "kick", None, None))
            base = loop.time() + max(0.0, -min([x[0] for x in timeline] or [0.0]))
            for off, _, kind, what, arg in sorted(timeline, key=lambda x: (x[0], x[1])):
                dt = base + off - loop.time()
                if dt > 0:
                    await asyncio.sleep(dt)
                if kind == "end":
                    await end(what)
                elif kind == "kick":
                    tasks.append(asyncio.ensure_future(kick()))
                elif what in XS_DIRECT or p is not None:
                    tasks.append(asyncio.ensure_future(call(what, arg)))
            pending = [t for t in tasks if not t.done()]
            if pending:
                await asyncio.wait(pending, timeout=200)
            await asyncio.sleep(ep.get("idle", 0.5))
            await _xs_settle(loop)
        for t in tasks:
            t.cancel()
        try:
            await (p.close() if p is not None else conn.close())
        except Exception as e:  # noqa: BLE001
            acc.notes.append(f"close raised {type(e).__name__}")
        await _xs_settle(loop)
    # ---- the property, stated on what the accessory received after it had sent M4 and on what the callers asked for
    for rec in calls:
        rec["used"] = False
    for s in acc.order:
        if s.m4_at is None:
            continue
        where = f"connection {s.idx}"
        if s.bad:
            problems.append((s.bad[0], f"{where}, {s.bad[1]}"))
        elif not s.dead and (s.ebuf or s.buf):
            problems.append(("xs/after-m4/partial", f"{where}: the connection ended with {len(s.ebuf)} bytes of an incomplete frame and {len(s.buf)} decrypted bytes of an incomplete request "
                             f"({bytes(s.buf[:40])!r}) - the frames do not decrypt to whole requests"))
        if any(n > 1024 for n in s.frames):
            problems.append(("xs/after-m4/length", f"{where}: frame sizes {s.frames[:12]}"))
        for idx, (when, method, target, heads, body) in enumerate(s.framed):
            req = (method, target, heads, body)
            cands = [r for r in calls if r["exp"] and r["exp"]["exact"] and not r["used"] and r["start"] <= when <= (r["end"] if r["end"] is not None else when)
                     and _xs_match(r["exp"], req)]
            # two calls may have issued byte-identical requests (empty bodies) in overlapping windows: the frames belong to the one that
            # RETURNED, if any - a call that failed needs no frames, a call that returned does
            hit = next((r for r in cands if r["outcome"] == "returned"), cands[0] if cands else None)
            if hit is not None:
                hit["used"] = True
                hit["answer"] = s.answers.get(idx)
                continue
            if not any(h.lower().startswith("host:") for h in heads):
                problems.append(("xs/after-m4/unrequested", f"{where}, t={when:.3f}: the frames decrypt to '{method} {target}' without a Host header"))
            if p is not None and any(method == m and target.split("?")[0] == tg for m, tg in _XS_OWN):
                continue  # the pairing's own requests (re-subscription, database fetch, the IpPairing calls of this history)
            problems.append(("xs/after-m4/unrequested", f"{where}, t={when:.3f}: the frames decrypt to '{method} {target}' with a body of {len(body)} bytes - no caller made that request "
                             f"at that time (or made it once and it arrived twice, or its bytes are not the caller's)"))
    for rec in calls:
        if rec.get("bug"):
            # not a matter of the framing: noted with its input, never a verdict of this property
            bugs.append((rec["bug"], f"{rec['entry']} issued at t={rec['start']:.3f}"))
        if rec["outcome"] != "returned" or not rec["exp"] or rec["exp"].get("returns_on_error"):
            continue
        exp = rec["exp"]
        if exp["exact"] and rec["used"] and rec.get("result") and rec.get("answer") is not None:
            kind, got = rec["result"]
            sent = rec["answer"]
            compared += 1
            if kind == "bytes":
                same = got == sent
            else:
                try:
                    same = got == (json.loads(sent) if sent else {})
                except ValueError:
                    same = True
            if not same:
                problems.append(("xs/response", f"{rec['entry']} ({exp['method']} {exp['target']}) issued at t={rec['start']:.3f} returned {str(got)[:60]!r}... ({len(got)} bytes / items), which is not "
                                 f"the {len(sent)}-byte body the accessory sent in answer to that request ({sent[:60]!r}...)"))
        if exp["exact"] and not rec["used"]:
            problems.append(("xs/returned-unframed", f"{rec['entry']} ({exp['method']} {exp['target']}) issued at t={rec['start']:.3f} returned normally at t={rec['end']:.3f} although no frames "
                             f"that decrypt to exactly that request reached the accessory on a verified connection while the call ran"))
        elif not exp["exact"] and not any(rec["start"] <= when <= rec["end"] and _xs_match(exp, (m, tg, hs, b)) for s in acc.order for when, m, tg, hs, b in s.framed):
            problems.append(("xs/returned-unframed", f"{rec['entry']} issued at t={rec['start']:.3f} returned normally although the accessory received no {exp['method']} {exp['prefix']} in frames "
                             f"of a verified session while the call ran"))
    stats = {"connections": len(acc.order), "verified": sum(1 for s in acc.order if s.m4_at is not None), "calls": [(r["entry"], r["outcome"]) for r in calls],
             "framed": sum(len(s.framed) for s in acc.order), "frames": sum(len(s.frames) for s in acc.order), "multi": sum(1 for s in acc.order for n in s.frames if n == 1024),
             "pre": [(s.idx, w, what) for s in acc.order for w, what in s.pre], "raced": sum(s.raced for s in acc.order), "notes": acc.notes, "bugs": bugs,
             "compared": compared}
    return problems, stats


def xs_run(hist):
    loop = simnet.VLoop()
    asyncio.set_event_loop(loop)
    try:
        return loop.run_until_complete(_xs_scenario(loop, hist))
    finally:
        try:
            loop.run_until_complete(loop.shutdown_asyncgens())
        except Exception:  # noqa: BLE001
            pass
        loop.close()
        asyncio.set_event_loop(None)


def _xs_arg(rng, k):
    return {"k": k, "n": rng.choice([0, 1, 40, 900, 1024, 1500, rng.randrange(0, 3000)]), "bseed": rng.randrange(1 << 30)}


def _xs_plan(rng, ok=False):
    return {"d0": rng.choice([0.001, 0.01, 0.01, 0.2]),
            "d2": rng.choice([0.0, 0.05, 0.4, 0.4, 2.0, 9.0, 31.0]),
            "d4": rng.choice([0.0, 0.05, 0.4, 0.4, 2.0, 9.0]),
            "dr": rng.choice([0.0, 0.0, 0.3, 2.0]),
            "verify": "ok" if ok or rng.random() < 0.85 else rng.choice(["badsig", "err12", "err22", "close1", "reset2", "close2", "hang", "http470"]),
            "plain": rng.choice(["470", "470", "ignore", "close"])}


def xs_gen(rng):
    owner = rng.random() < 0.4
    entries = list(XS_DIRECT) * 2 + (list(XS_PAIRING) if owner else [])
    epochs, k = [], 10
    for i in range(rng.choice([1, 2, 2, 3, 3])):
        end = "first" if i == 0 else rng.choice(XS_ENDS)
        plan = _xs_plan(rng, ok=rng.random() < 0.6)
        plans = [plan] + ([_xs_plan(rng, ok=True)] if plan["verify"] != "ok" else [])
        d0, d2, d4 = plan["d0"], plan["d2"], plan["d4"]
        calls = []
        for _ in range(rng.choice([1, 1, 2, 3, 4, 6])):
            w = rng.choice(["before", "tcp", "m2", "m2", "m4", "m4", "m4", "after", "after"])
            f = rng.choice([0.0, 0.001, 0.25, 0.5, 0.75, 0.999, 1.0, rng.random()])
            off = {"before": -rng.choice([0.05, 0.2]), "tcp": d0 * f, "m2": d0 + d2 * f, "m4": d0 + d2 + d4 * f, "after": d0 + d2 + d4 + rng.choice([0.0, 0.0, 0.001, 0.1, 3.0])}[w]
            k += 1
            calls.append([round(off, 6), rng.choice(entries), _xs_arg(rng, k)])
        kick = end in ("first", "close") and (not owner or rng.random() < 0.7)
        events = []
        if rng.random() < 0.3:
            # the connection is lost / closed / hurried somewhere inside the windows as well, not only between two sessions
            how = rng.choice(["peer_close", "peer_reset", "close", "reconnect_soon", "reconnect_soon"])
            at = rng.choice([d0 * 0.5, d0 + d2 * rng.random(), d0 + d2 + d4 * rng.random(), d0 + d2 + d4, d0 + d2 + d4 + rng.choice([0.001, 0.1, 1.0])])
            events.append([round(at, 6), how])
            if how == "close":
                events.append([round(at + rng.choice([0.0, 0.05, 1.0]), 6), "kick"])
        epochs.append({"end": end, "plans": plans, "calls": calls, "events": events, "kick": kick, "idle": rng.choice([0.0, 0.5, 5.0])})
    return {"stream": "xsession", "seed": rng.randrange(1 << 30), "owner": owner, "limit": rng.choice([1, 1, 1, 2, 3]), "epochs": epochs}


def xs_grid(rng):
    """every way the previous session can have ended (none: the first connection) x the window of the new pair-verify in which
    the callers act (M1 sent and M2 outstanding / M3 sent and M4 outstanding / the instant after the switch) x every entry point of
    the connection, one or two callers, the connection alone and under an IpPairing that re-subscribes on it"""
    out, k = [], 100
    for end in ("first",) + XS_ENDS:
        for window in ("m2", "m4", "after"):
            for entry in XS_DIRECT:
                for owner in (False, True):
                    d = rng.choice([0.4, 2.0, 6.0])
                    plan = dict(XS_PLAN, d2=d if window == "m2" else 0.0, d4=d if window == "m4" else 0.0, plain=rng.choice(["470", "ignore", "close"]), dr=rng.choice([0.0, 0.3]))
                    at = plan["d0"] + (d * rng.choice([0.25, 0.5, 0.9]) if window != "after" else d * 0 + rng.choice([0.0, 0.001]))
                    k += 2
                    calls = [[round(at, 6), entry, _xs_arg(rng, k)]]
                    if rng.random() < 0.5:
                        calls.append([round(at + rng.choice([0.0, 0.01]), 6), rng.choice(list(XS_DIRECT)), _xs_arg(rng, k + 1)])
                    if owner:
                        calls.insert(0, [-0.05, "p.sub", {"k": 0}])
                    ep = {"end": end, "plans": [plan], "calls": calls, "kick": True, "idle": 0.5}
                    first = {"end": "first", "plans": [dict(XS_PLAN)], "calls": [[0.5, rng.choice(["get", "put_json", "post"]), _xs_arg(rng, k + 50)]], "kick": True, "idle": 0.5}
                    out.append({"stream": "xsession", "seed": rng.randrange(1 << 30), "owner": owner, "limit": 1, "epochs": [ep] if end == "first" else [first, ep]})
    return out


def _run_xsessions(ctx):
    rng = ctx.rng
    hists = xs_grid(rng)
    if not ctx.thorough():
        # the quick tier keeps every (window, entry point) of the first connection and a sample of the rest
        keep = [h for h in hists if len(h["epochs"]) == 1 and not h["owner"]]
        rest = [h for h in hists if not (len(h["epochs"]) == 1 and not h["owner"])]
        hists = keep + rng.sample(rest, min(len(rest), ctx.budget(60, len(rest))))
    hists += [xs_gen(rng) for _ in range(ctx.budget(150, 4000))]
    sampled = False
    for hist in hists:
        ctx.evaluations += 1
        try:
            problems, stats = xs_run(hist)
        except Exception as e:  # noqa: BLE001
            problems = [(f"xs/exc {type(e).__name__}", f"the history could not be run to its end: {type(e).__name__}: {e}")]
            stats = {"connections": 0, "verified": 0, "calls": [], "framed": 0, "frames": 0, "multi": 0, "pre": [], "raced": 0, "notes": [], "bugs": [], "compared": 0}
        ctx.nontrivial.add(("xs", hist["owner"], hist["limit"], tuple(ep["end"] for ep in hist["epochs"]), tuple(sorted(set(stats["calls"]))), min(stats["verified"], 3), bool(stats["pre"])))
        ctx.dist["xs:histories"] += 1
        ctx.dist[f"xs:limit={hist['limit']}:{'pairing' if hist['owner'] else 'connection'}"] += 1
        ctx.dist["xs:verified-connections"] += stats["verified"]
        ctx.dist["xs:requests-decrypted-after-M4"] += stats["framed"]
        ctx.dist["xs:frames-opened"] += stats["frames"]
        ctx.dist["xs:frames-of-1024"] += stats["multi"]
        ctx.dist["xs:plain-request-before-M4 (not judged here)"] += len(stats["pre"])
        ctx.dist["xs:written-in-the-instant-of-M4 (limit>1, not judged)"] += stats["raced"]
        ctx.dist["xs:answers-compared-with-what-the-caller-got"] += stats["compared"]
        for bug, at in stats["bugs"]:
            ctx.dist[f"xs:call raised {bug.split(':')[0]} (noted, not a framing matter)"] += 1
            if not any(bug in n for n in ctx.notes):
                ctx.notes.append(f"xs: (not a matter of this property, noted only) {at} of history seed={hist['seed']} raised {bug}: {json.dumps(hist)[:700]}")
        for entry, outcome in stats["calls"]:
            ctx.dist[f"xs:call:{entry}:{outcome}"] += 1
        for ep in hist["epochs"]:
            ctx.dist[f"xs:end:{ep['end']}"] += 1
        for n in stats["notes"]:
            if "xs: " + n not in ctx.notes and len(ctx.notes) < 20:
                ctx.notes.append("xs: " + n)
        if stats["pre"] and not any(n.startswith("xs: before M4") for n in ctx.notes):
            i, w, what = stats["pre"][0]
            ctx.notes.append(f"xs: before M4 (not a matter of this property, counted only): a request made through HomeKitConnection while pair-verify runs is written unencrypted, e.g. '{what}' "
                             f"on connection {i} at t={w:.3f} of history seed={hist['seed']}")
        if not sampled and len(hist["epochs"]) > 1 and stats["framed"] > 1:
            sampled = True
            ctx.sample(hist, limit=10)
        done = set()
        for sig, text in problems:
            if sig not in done:
                done.add(sig)
                ctx.violation(sig, text, hist)


def run(ctx: Ctx, driver: Driver):
    rng = ctx.rng
    loop = asyncio.new_event_loop()
    asyncio.set_event_loop(loop)
    cryptoval.validate(ctx, driver, 6)
    for c in load_corpus(ID):
        replay(ctx, driver, c)
    # ---------------- outbound
    lens = [0, 1, 2, 1023, 1024, 1025, 2047, 2048, 2049, 3071, 3072, 3073, 4096, 5000] + [rng.randrange(0, 20000) for _ in range(ctx.budget(40, 600))]
    cases, outs, lines = [], [], []
    for n in lens:
        key = rb(rng, 32)
        ctr = rng.choice([0, 1, 7, 255, 256, 65535, 2 ** 32 - 1, 2 ** 32, rng.randrange(2 ** 40)])
        payload = rb(rng, n)
        calls, c = impl_send(loop, key, ctr, payload)
        ctx.evaluations += 1
        case = {"stream": "send", "key": hx(key), "ctr": ctr, "payload": hx(payload) if n <= 64 else f"random:{n}"}
        if calls is None:
            ctx.violation("send/" + c, f"send_bytes raised {c} for a payload of {n} bytes", case)
            continue
        if n == 0:
            # nothing to frame; the code still issues one (empty) writelines - not a framing matter
            flat = [x for call in calls for x in call]
        else:
            flat = [x for call in calls for x in call]
        stream = b"".join(flat)
        chunks = ref_read(key, ctr, stream)
        ok = chunks is not None and b"".join(chunks) == payload and all(0 < len(ch) <= 1024 for ch in chunks) and all(len(ch) == 1024 for ch in chunks[:-1]) and c == ctr + len(chunks)
        ctx.nontrivial.add(("send", min(len(chunks or []), 6), n % 1024 in (0, 1, 1023)))
        if not ok:
            ctx.violation("send/frames", f"a conformant accessory does not decode the {n}-byte request written from counter {ctr} to the request bytes in <=1024-byte frames", {**case, "payload": hx(payload)})
        if len(calls) != 1:
            ctx.dist["send:calls!=1"] += 1
        cases.append({**case, "payload": hx(payload)} if n <= 3000 else case)
        outs.append(f"{c} {blocks_str(flat)}")
        lines.append(f"sf.send {hx(key)} {ctr} {hx(payload)}")
        ctx.dist["send"] += 1
    ctx.sample({k: (v if len(str(v)) < 200 else str(v)[:200] + "...") for k, v in cases[2].items()})
    compare_with_model(ctx, "send", cases, outs, lines, driver)

    # ---------------- inbound: exhaustive single+double cuts on small streams
    cases, outs, lines = [], [], []
    model_every = ctx.budget(7, 3)

    def one_recv(kind, key, ctr, blocks, stream, cuts, expect_blocks, expect_err, to_model):
        pts = [0] + list(cuts) + [len(stream)]
        chunks = [stream[a:b] for a, b in zip(pts, pts[1:])]
        s, d, err = impl_recv_str(loop, key, ctr, b"", chunks)
        ctx.evaluations += 1
        case = {"stream": "recv", "kind": kind, "key": hx(key), "ctr": ctr, "chunks": [hx(x) for x in chunks]}
        ctx.nontrivial.add((kind, len(blocks), len(cuts), tuple(min(c * 8 // max(len(stream), 1), 7) for c in cuts[:2]), err))
        if err and err.startswith("exc"):
            ctx.violation("recv/" + err, f"data_received raised {err}", case)
        elif d != expect_blocks or (err == "err") != expect_err:
            ctx.violation("recv/" + kind, f"{kind}: delivered {len(d)} blocks (err={err}) but the accessory sent {len(expect_blocks)} authentic blocks before the stream end/first bad frame (expect_err={expect_err}); cuts={list(cuts)}", case)
        if to_model:
            cases.append(case)
            outs.append(s)
            lines.append(f"sf.recv {hx(key)} {ctr} - " + " ".join(hx(x) for x in chunks))
        ctx.dist["recv:" + kind] += 1

    nsmall = ctx.budget(8, 40)
    k = 0
    for _ in range(nsmall):
        key = rb(rng, 32)
        ctr = rng.choice([0, 3, 2 ** 32 - 1])
        blocks = [rb(rng, rng.randrange(1, 17)) for _ in range(rng.choice([2, 3]))]
        stream = ref_frames(key, ctr, blocks)
        L = len(stream)
        for a in range(1, L):
            k += 1
            one_recv("single-cut", key, ctr, blocks, stream, (a,), blocks, False, k % model_every == 0)
        for a, b in itertools.combinations(range(1, L), 2):
            k += 1
            one_recv("double-cut", key, ctr, blocks, stream, (a, b), blocks, False, k % (model_every * 7) == 0)
        # every single-bit corruption of the first two frames (prefix, ciphertext, tag), with one random cut
        f0 = 2 + len(blocks[0]) + 16
        f1 = f0 + 2 + len(blocks[1]) + 16
        for bit in range(f1 * 8):
            bad = bytearray(stream)
            bad[bit // 8] ^= 1 << (bit % 8)
            nb = 0 if bit // 8 < f0 else 1
            k += 1
            # a corrupted length prefix may make the reader wait for more bytes instead of failing: nothing is delivered from it either way
            in_prefix = (bit // 8) in (0, 1) or (bit // 8) in (f0, f0 + 1)
            exp_blocks = blocks[:nb]
            pts = (rng.randrange(1, L),)
            chunks_err = True
            if in_prefix:
                # decide by reference: does a full frame fit under the altered length?
                off = 0 if nb == 0 else f0
                n = struct.unpack("<H", bytes(bad[off:off + 2]))[0]
                chunks_err = off + 2 + n + 16 <= L
            one_recv("bitflip", key, ctr, blocks, bytes(bad), pts, exp_blocks, chunks_err, k % model_every == 0)
    # ---------------- inbound: larger streams, realistic frame sizes, random multi-cut / byte-at-a-time
    for _ in range(ctx.budget(300, 6000)):
        key = rb(rng, 32)
        ctr = rng.randrange(0, 2 ** 33)
        blocks = [rb(rng, rng.choice([1, 2, 100, 1023, 1024, rng.randrange(1, 1025)])) for _ in range(rng.randrange(1, 6))]
        stream = ref_frames(key, ctr, blocks)
        L = len(stream)
        mode = rng.randrange(4)
        if mode == 0 and L <= 400:
            cuts = tuple(range(1, L))
        else:
            cuts = tuple(sorted(set(rng.randrange(1, L) for _ in range(rng.choice([0, 1, 2, 5, 20])))))
        if mode == 3:
            # truncated stream: the tail frame is incomplete, nothing from it is delivered, no error
            cut_at = rng.randrange(0, L)
            full = []
            off = 0
            for b in blocks:
                if off + 2 + len(b) + 16 <= cut_at:
                    full.append(b)
                off += 2 + len(b) + 16
            cuts = tuple(c for c in cuts if c < cut_at)
            one_recv("truncated", key, ctr, blocks, stream[:cut_at], cuts, full, False, True)
        else:
            one_recv("multi-cut", key, ctr, blocks, stream, cuts, blocks, False, True)
    # ---------------- a new session after one that ended in the middle of a frame: nothing of the old session's bytes
    # (or counters) may reach the new one
    for _ in range(ctx.budget(30, 400)):
        key1, key2 = rb(rng, 32), rb(rng, 32)
        blocks1 = [rb(rng, rng.choice([5, 100, 1024])) for _ in range(rng.randrange(1, 4))]
        s1 = ref_frames(key1, 0, blocks1)
        cut_at = rng.randrange(1, len(s1))
        impl_recv_str(loop, key1, 0, b"", [s1[:cut_at]])  # session 1: the link drops here
        blocks2 = [rb(rng, rng.choice([1, 50, 1024])) for _ in range(rng.randrange(1, 4))]
        s2 = ref_frames(key2, 0, blocks2)
        cuts = tuple(sorted(set(rng.randrange(1, len(s2)) for _ in range(rng.choice([0, 1, 3])))))
        one_recv("after-dropped-session", key2, 0, blocks2, s2, cuts, blocks2, False, True)
    ctx.sample({k2: (v if len(str(v)) < 300 else str(v)[:300] + "...") for k2, v in cases[0].items()})
    compare_with_model(ctx, "recv", cases, outs, lines, driver)
    # (the streams below come last so that the ones above keep drawing the same random numbers as before)
    _run_large_send(ctx, driver, loop)
    _run_large_recv(ctx, driver, loop)
    _run_e2e(ctx, loop)
    loop.close()
    _run_xsessions(ctx)


def _run_large_send(ctx, driver, loop):
    """outbound: large requests (60 KiB .. 300 KiB), exact multiples of 1024 and their neighbours"""
    rng = ctx.rng
    cases, outs, lines = [], [], []
    big = [65536, 70000, 200000, 262144, 300 * 1024 - 1, 300 * 1024 + 1]
    for i in range(ctx.budget(6, 40)):
        if i < len(big) and ctx.tier != "search":
            n = big[i]
        else:
            n = rng.choice([rng.randrange(61440, 307200), 1024 * rng.randrange(60, 300) + rng.choice([-1, 0, 1])])
        key = rb(rng, 32)
        ctr = rng.choice([0, 1, 255, 65535, 2 ** 32 - 1, rng.randrange(2 ** 40)])
        case = {"stream": "send", "key": hx(key), "ctr": ctr, "payload": f"seed:{rng.randrange(2 ** 32)}:{n}"}
        payload = _send_payload(case)
        calls, c = impl_send(loop, key, ctr, payload)
        ctx.evaluations += 1
        ctx.dist["send-large"] += 1
        if calls is None:
            ctx.violation("send-large/" + c, f"send_bytes raised {c} for a payload of {n} bytes", case)
            continue
        ok, flat, chunks = _send_verdict(key, ctr, payload, calls, c)
        ctx.nontrivial.add(("send-large", n // 65536, n % 1024 in (0, 1, 1023), ok))
        if not ok:
            ctx.violation("send-large/frames", f"a conformant accessory does not decode the {n}-byte request written from counter {ctr} to the request bytes in <=1024-byte frames "
                          f"(decoded {None if chunks is None else sum(map(len, chunks))} bytes in {None if chunks is None else len(chunks)} frames, counter afterwards {c})", case)
        if i < ctx.budget(2, 6):
            cases.append(case)
            outs.append(f"{c} {blocks_str(flat)}")
            lines.append(f"sf.send {hx(key)} {ctr} {hx(payload)}")
    compare_with_model(ctx, "send", cases, outs, lines, driver)


def _run_large_recv(ctx, driver, loop):
    """inbound: bursts far larger than one frame / one 64 KiB read, under every delivery schedule of SCHEDS"""
    rng = ctx.rng
    cases, outs, lines = [], [], []
    nmodel = ctx.budget(4, 12)

    def one(case, to_model):
        sig, what, s, chunks, nframes, err = large_recv(loop, case)
        ctx.evaluations += 1
        ctx.dist[f"recv-large:{case['kind']}:{case['sched']}"] += 1
        ctx.dist["recv-large:max-read>65553" if max(case["reads"], default=0) > 65553 else "recv-large:max-read<=65553"] += 1
        ctx.nontrivial.add(("recv-large", case["kind"], case["mode"], case["sched"], min(case["total"] // 65536, 4), err))
        if sig:
            ctx.violation(sig, what, case)
        if to_model and len(cases) < nmodel:
            cases.append(case)
            outs.append(s)
            lines.append(f"sf.recv {case['key']} {case['ctr']} - " + " ".join(hx(x) for x in chunks))

    for i in range(ctx.budget(20, 300)):
        mode = LARGE_MODES[i % len(LARGE_MODES)] if i < 8 else rng.choice(LARGE_MODES)
        if mode == "small":
            total = rng.randrange(61440, 98304)  # thousands of frames
        else:
            total = rng.choice([rng.randrange(61440, 71680), rng.randrange(65536, 307200), 65536, 131072, 262144, 300000])
        base = {"stream": "recv-large", "key": hx(rb(rng, 32)), "ctr": rng.choice([0, 1, 2 ** 32 - 1, rng.randrange(2 ** 33)]), "pseed": rng.randrange(2 ** 32),
                "total": total, "mode": mode}
        blocks = _large_blocks(base["pseed"], total, mode)
        offs, off = [], 0
        for b in blocks:
            offs.append(off)
            off += 2 + len(b) + 16
        L = off
        for j, sched in enumerate(SCHEDS):
            one({**base, "kind": "valid", "sched": sched, "reads": _sched_reads(rng, L, sched)}, i < 2 and sched in ("one-read", "few-cuts"))
        # the burst stops in the middle of its last frames: everything before is delivered, no error
        cut_at = rng.randrange(max(L - 3000, 1), L)
        sched = rng.choice(SCHEDS)
        one({**base, "kind": "truncated", "sched": sched, "cut_at": cut_at, "reads": _sched_reads(rng, cut_at, sched)}, False)
        # one bit of a frame late in the burst (prefix, ciphertext or tag) is corrupted
        nb = rng.randrange(len(blocks) * 2 // 3, len(blocks))
        flen = 2 + len(blocks[nb]) + 16
        byte = offs[nb] + rng.choice([0, 1, rng.randrange(2, flen - 16), rng.randrange(flen - 16, flen)])
        sched = rng.choice(SCHEDS)
        one({**base, "kind": "bitflip", "sched": sched, "flip": byte * 8 + rng.randrange(8), "reads": _sched_reads(rng, L, sched)}, i == 0)
    if cases:
        ctx.sample({k: (v if len(str(v)) < 200 else str(v)[:200] + "...") for k, v in cases[0].items()}, limit=8)
    compare_with_model(ctx, "recv", cases, outs, lines, driver)


def _run_e2e(ctx, loop):
    """whole sessions, real HTTP layer: the request future gets exactly the body the accessory sent"""
    rng = ctx.rng
    for i in range(ctx.budget(10, 120)):
        exchanges = []
        for j in range(rng.choice([1, 2, 3])):
            mode = rng.choice(LARGE_MODES[:3]) if rng.randrange(4) else "small"
            body_len = rng.choice([rng.randrange(1, 5000), rng.randrange(61440, 98304)]) if mode == "small" else rng.choice([rng.randrange(1, 5000), rng.randrange(61440, 307200), rng.randrange(61440, 307200)])
            ex = {"seed": rng.randrange(2 ** 32), "req_len": rng.choice([0, 40, rng.randrange(1, 3000), rng.randrange(61440, 204800)]), "body_len": body_len, "mode": mode,
                  "event_len": rng.choice([None, None, rng.randrange(1, 2000)])}
            _, _, _, blocks = _e2e_messages(ex)
            L = sum(2 + len(b) + 16 for b in blocks)
            ex["sched"] = SCHEDS[(i + j) % len(SCHEDS)]
            ex["reads"] = _sched_reads(rng, L, ex["sched"])
            exchanges.append(ex)
        case = {"stream": "e2e", "a2c": hx(rb(rng, 32)), "c2a": hx(rb(rng, 32)), "exchanges": exchanges}
        v = e2e_run(loop, case)
        ctx.evaluations += 1
        ctx.dist["e2e:sessions"] += 1
        for ex in exchanges:
            ctx.dist["e2e:" + ex["sched"]] += 1
            ctx.nontrivial.add(("e2e", ex["mode"], ex["sched"], ex["body_len"] > 65536, ex["req_len"] > 65536, ex["event_len"] is not None, v and v[0]))
        if v:
            ctx.violation(v[0], v[1], case)


def replay(ctx, driver, c):
    loop = asyncio.new_event_loop()
    try:
        nv = len(ctx.violations)
        nm = len(ctx.mismatches)
        if c["stream"] == "recv-large":
            sig, what, s, chunks, _, _ = large_recv(loop, c)
            if sig:
                return what
            compare_with_model(ctx, "recv", [c], [s], [f"sf.recv {c['key']} {c['ctr']} - " + " ".join(hx(x) for x in chunks)], driver)
        elif c["stream"] == "e2e":
            asyncio.set_event_loop(loop)
            v = e2e_run(loop, c)
            if v:
                return v[1]
        elif c["stream"] == "xsession":
            problems, _ = xs_run(c)
            return "; ".join(f"{sg}: {tx}" for sg, tx in problems) or None
        elif c["stream"] == "send":
            key = bytes.fromhex(c["key"])
            payload = _send_payload(c)
            calls, ctr2 = impl_send(loop, key, c["ctr"], payload)
            if calls is None:
                return f"send raised {ctr2}"
            flat = [x for call in calls for x in call]
            chunks = ref_read(key, c["ctr"], b"".join(flat))
            if chunks is None or b"".join(chunks) != payload or any(len(ch) > 1024 for ch in chunks):
                return "outbound frames do not decode to the payload"
            compare_with_model(ctx, "send", [c], [f"{ctr2} {blocks_str(flat)}"], [f"sf.send {hx(key)} {c['ctr']} {hx(payload)}"], driver)
        else:
            key = bytes.fromhex(c["key"])
            chunks = [bytes.fromhex(x) if x != "-" else b"" for x in c["chunks"]]
            s, d, err = impl_recv_str(loop, key, c["ctr"], b"", chunks)
            # oracle: unsplit feeding gives the same
            s2, d2, err2 = impl_recv_str(loop, key, c["ctr"], b"", [b"".join(chunks)])
            if (d, err) != (d2, err2):
                return f"split-dependent: {s[:100]} vs unsplit {s2[:100]}"
            compare_with_model(ctx, "recv", [c], [s], [f"sf.recv {hx(key)} {c['ctr']} - " + " ".join(hx(x) for x in chunks)], driver)
        if len(ctx.mismatches) > nm:
            return "model/implementation mismatch: " + str(ctx.mismatches[-1])[:300]
        if len(ctx.violations) > nv:
            return ctx.violations[-1]["what"]
        return None
    finally:
        loop.close()
