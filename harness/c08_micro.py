"""C08, below the quiescence abstraction: the request FIFO of InsecureHomeKitProtocol inside one event-loop iteration.

Model: `HapVerif.ReqConn.Micro` (lean/HapVerif/Model/ReqConn.lean), theorems C08_micro_* in Props/C08.lean.
Events (the same tokens go to the driver, `rq.micro ...`):
  w:<id>  a caller's task starts `protocol.send_bytes(...)`; the loop runs until nothing is ready
  d       the accessory's next complete response is read (one `data_received` call); the loop does NOT run
  g:<id>  `task.cancel()` of that caller; the loop does NOT run
  t       the loop runs until nothing is ready

Each response carries its own index in the body, so what a caller returns says WHICH response it was given.
Oracle (property text, harness bookkeeping only): a caller completes only with the response whose position equals the position
of its request among the requests written on the connection; a caller that was cancelled never completes with a response.
"""
from __future__ import annotations

import asyncio

from harness import simnet
from harness.common import Ctx, Driver, compare_with_model

import aiohomekit.controller.ip.connection as ipc
from aiohomekit.exceptions import AccessoryDisconnectedError


class _Owner:
    name = "micro"

    def event_received(self, ev):
        pass

    def _connection_lost(self, exc):
        pass

    protocol = None
    closing = False


def response(k: int) -> bytes:
    body = b'{"k":%d}' % k
    return b"HTTP/1.1 200 OK\r\nContent-Type: application/hap+json\r\nContent-Length: %d\r\n\r\n" % len(body) + body


def chunked_response(k: int) -> bytes:
    """the same response in chunked transfer coding (two chunks and the zero-size last chunk)"""
    body = b'{"k":%d}' % k
    a, b = body[:3], body[3:]
    return (b"HTTP/1.1 200 OK\r\nContent-Type: application/hap+json\r\nTransfer-Encoding: chunked\r\n\r\n"
            + b"%x\r\n" % len(a) + a + b"\r\n" + b"%x\r\n" % len(b) + b + b"\r\n" + b"0\r\n\r\n")


async def settle(loop):
    for _ in range(12):
        await asyncio.sleep(0)


async def micro_scenario(loop, events):
    net = simnet.Net(loop)
    owner = _Owner()
    proto = ipc.InsecureHomeKitProtocol(owner)
    owner.protocol = proto
    t = simnet.FakeTransport(net, "10.0.0.1", proto, loop)
    proto.connection_made(t)
    tasks = {}
    finished = []          # ids in the order their tasks finished
    written = []           # ids in the order their requests reached the transport
    given_up = set()
    nresp = 0

    def on_write(tr, data):
        written.append(int(data.split(b" ")[1].rsplit(b"/", 1)[1]))
    net.handler = on_write

    def done_cb(rid):
        def cb(task):
            finished.append(rid)
        return cb

    for e in events + ["t"]:
        k = e.split(":")
        if k[0] == "w":
            rid = int(k[1])
            tk = asyncio.ensure_future(proto.send_bytes(b"GET /r/%d HTTP/1.1\r\nHost: 10.0.0.1\r\n\r\n" % rid))
            tk.add_done_callback(done_cb(rid))
            tasks[rid] = tk
            await settle(loop)
        elif k[0] == "d":
            if not (t.closed or t.closing):   # a closing transport delivers nothing more (asyncio contract)
                t.feed(response(nresp))
                nresp += 1
        elif k[0] == "c":
            # the same complete response, chunked, arriving in two reads cut <n> bytes before its end (no loop run in between)
            if not (t.closed or t.closing):
                data = chunked_response(nresp)
                cutp = max(len(data) - int(k[1]), 1)
                t.feed(data[:cutp])
                if not (t.closed or t.closing) and data[cutp:]:
                    t.feed(data[cutp:])
                nresp += 1
        elif k[0] == "g":
            rid = int(k[1])
            if rid in tasks and not tasks[rid].done():
                tasks[rid].cancel()
                given_up.add(rid)
        elif k[0] == "t":
            await settle(loop)
    out = []
    problems = []
    for rid in finished:
        tk = tasks[rid]
        if tk.cancelled():
            o = "canc"
        elif tk.exception() is not None:
            o = "disc" if isinstance(tk.exception(), AccessoryDisconnectedError) else "exc:" + type(tk.exception()).__name__
        else:
            import json
            kk = json.loads(tk.result().body)["k"]
            o = f"ok:{kk}"
            # ---- oracle: position-based attribution from the harness's own record of what was written
            if rid not in written or written.index(rid) != kk:
                problems.append(("micro/misattributed", f"request {rid} (position {written.index(rid) if rid in written else '-'} among the requests written) completed with response #{kk}"))
            if rid in given_up:
                problems.append(("micro/completed-after-giving-up", f"request {rid} was cancelled before its task ran, yet it completed with response #{kk}"))
        out.append(f"{rid}={o}")
    up = 0 if (t.closing or t.closed) else 1
    # ---- oracle: in a history in which nobody gave up and the accessory never said more than it was asked, the connection is
    # healthy: every request whose response was delivered completes with it, nothing raises, the transport stays open
    toks = [e.split(":")[0] for e in events]
    healthy = "g" not in toks
    nw = nd = 0
    for x in toks:
        nw += x == "w"
        nd += x in ("d", "c")
        if nd > nw:
            healthy = False
    if healthy:
        if net.errors:
            problems.append(("micro/callback-raised", f"data_received raised {net.errors[0]} on a healthy connection (no caller gave up, no unsolicited response)"))
        done_ok = {int(o.split("=")[0]) for o in out if "=ok:" in o}
        for pos, rid in enumerate(written):
            if pos < nd and rid not in done_ok:
                problems.append(("micro/response-not-delivered", f"request {rid} (position {pos}) did not complete with its response although the accessory sent it on a healthy connection"))
                break
        if not up:
            problems.append(("micro/healthy-connection-torn-down", "the transport was closed although no caller gave up and the accessory sent exactly the responses it was asked for"))
    for rid, tk in tasks.items():
        if not tk.done():
            problems.append(("micro/hung", f"request {rid} neither completed nor failed although the loop ran to quiescence with the transport {'closed' if t.closed else 'open'} and no response outstanding for it" if t.closed else ""))
            tk.cancel()
    problems = [p for p in problems if p[1]]
    await settle(loop)
    return (",".join(out) or "-") + f" up={up}", problems, net.errors


def gen(rng, n):
    evs = []
    nid = 0
    live = []
    for _ in range(n):
        r = rng.random()
        if r < 0.3 or not live:
            nid += 1
            evs.append(f"w:{nid}")
            live.append(nid)
        elif r < 0.6:
            evs.append("d" if rng.random() < 0.6 else "c:%d" % rng.randrange(0, 8))
        elif r < 0.85:
            evs.append(f"g:{rng.choice(live)}")
        else:
            evs.append("t")
    return evs


def directed():
    """every history over {w, d, g, t} of length <= 5 with up to three callers (ids assigned in order of appearance)"""
    out = []

    def rec(prefix, nid, depth):
        out.append(list(prefix))
        if depth == 0:
            return
        rec(prefix + [f"w:{nid + 1}"], nid + 1, depth - 1) if nid < 3 else None
        if nid:
            rec(prefix + ["d"], nid, depth - 1)
            for i in range(1, nid + 1):
                rec(prefix + [f"g:{i}"], nid, depth - 1)
            rec(prefix + ["t"], nid, depth - 1)
    rec([], 0, 5)
    return out


def run_micro(ctx: Ctx, driver: Driver):
    loop = asyncio.new_event_loop()
    asyncio.set_event_loop(loop)
    rng = ctx.rng
    cases, outs, lines = [], [], []
    hist = directed()
    if not ctx.thorough():
        hist = [h for i, h in enumerate(hist) if len(h) <= 4 or i % 5 == ctx.seed % 5]
    # complete chunked responses cut at every position of their last seven bytes, alone and with another request behind them
    for n in range(0, 8):
        hist += [["w:1", f"c:{n}"], ["w:1", "w:2", f"c:{n}", "t", "d"], ["w:1", "w:2", f"c:{n}", "d"], ["w:1", f"c:{n}", "t", "w:2", f"c:{(n + 3) % 8}"],
                 ["w:1", "w:2", "w:3", f"c:{n}", f"c:{7 - n}", "d"]]
    hist += [gen(rng, rng.randrange(4, 14)) for _ in range(ctx.budget(400, 8000))]
    try:
        for evs in hist:
            case = {"stream": "micro", "events": evs}
            try:
                out, problems, errors = loop.run_until_complete(micro_scenario(loop, evs))
            except Exception as e:  # noqa: BLE001
                ctx.violation("micro/scenario-raised", f"{type(e).__name__}: {e} on {' '.join(evs)}", case)
                continue
            ctx.evaluations += 1
            ctx.nontrivial.add(("micro",) + tuple(evs))
            ctx.dist["micro"] += 1
            if any(x.startswith("g:") for x in evs) and "d" in evs:
                ctx.dist["micro:give-up-and-delivery-in-one-history"] += 1
            for sig, what in problems[:2]:
                ctx.violation("plain/" + sig, what + f" [history: {' '.join(evs)}]", case)
            cases.append(case)
            outs.append(out)
            lines.append("rq.micro " + " ".join("d" if x.startswith("c:") else x for x in evs))
    finally:
        asyncio.set_event_loop(None)
        loop.close()
    compare_with_model(ctx, "micro", cases, outs, lines, driver, canon=lambda s: " ".join(sorted(s.split(" ")[0].split(","))) + " " + s.split(" ")[-1])
    m4_close_probe(ctx)


def m4_close_probe(ctx: Ctx):
    """A connection lost in the very instant its pair-verify completes (the accessory sends M4 and closes): requests issued afterwards
    through the public HomeKitConnection entry points must fail with a disconnection error like on any other dead connection, never
    with a non-library exception.  (Found on the unchanged tree by the C05 cross-session stream: the connector went on to install a
    SecureHomeKitProtocol without a transport and every request raised AttributeError until the next reconnect; repaired in /repo.)"""
    from harness.c05 import xs_run
    for entry in ("get", "put", "post", "get_json", "put_json", "post_json", "request", "post_tlv"):
        for d4, tclose, tcall in ((0.4, 0.41, 0.5), (0.4, 0.41, 0.41), (0.0, 0.02, 0.3)):
            hist = {"stream": "xsession", "seed": 1, "owner": False, "limit": 1,
                    "epochs": [{"end": "first", "plans": [{"d0": 0.01, "d2": 0, "d4": d4}], "events": [[tclose, "peer_close"]], "calls": [[tcall, entry, {"k": 11}]], "kick": True}]}
            case = {"stream": "m4-close-probe", "hist": hist}
            try:
                _problems, info = xs_run(hist)
            except Exception as e:  # noqa: BLE001
                ctx.violation("secure/m4-close-probe/scenario-raised", f"{type(e).__name__}: {e}", case)
                continue
            ctx.evaluations += 1
            ctx.dist["m4-close-probe"] += 1
            for name, outcome in info.get("calls", []):
                if outcome.startswith("raised:") and outcome.split(":", 1)[1] not in ("AccessoryDisconnectedError", "HttpErrorResponse", "CancelledError", "TimeoutError"):
                    ctx.violation("secure/wrong-error", f"{name} issued at t={tcall} on a connection the accessory closed at t={tclose} right after sending M4 (t={d4 + 0.01:.2f}) failed with "
                                  f"{outcome.split(':', 1)[1]} instead of a disconnection error", case)


def replay_micro(ctx: Ctx, driver: Driver, case):
    if case.get("stream") == "m4-close-probe":
        from harness.c05 import xs_run
        _p, info = xs_run(case["hist"])
        bad = [o for _n, o in info.get("calls", []) if o.startswith("raised:") and o.split(":", 1)[1] not in ("AccessoryDisconnectedError", "HttpErrorResponse", "CancelledError", "TimeoutError")]
        return ("request failed with " + bad[0]) if bad else None
    loop = asyncio.new_event_loop()
    asyncio.set_event_loop(loop)
    try:
        out, problems, _ = loop.run_until_complete(micro_scenario(loop, case["events"]))
    finally:
        asyncio.set_event_loop(None)
        loop.close()
    compare_with_model(ctx, "micro", [case], [out], ["rq.micro " + " ".join("d" if x.startswith("c:") else x for x in case["events"])], driver, canon=lambda s: " ".join(sorted(s.split(" ")[0].split(","))) + " " + s.split(" ")[-1])
    return "; ".join(f"{s}: {w}" for s, w in problems) or None
