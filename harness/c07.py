"""C07 - HTTP/EVENT message parsing is independent of stream segmentation."""
from __future__ import annotations

import asyncio
import bisect
import builtins
import itertools
import re
import struct
from collections import Counter

from cryptography.hazmat.primitives.ciphers.aead import ChaCha20Poly1305

from harness.common import Ctx, Driver, compare_with_model, hx, load_corpus

import aiohomekit.controller.ip.connection as ipc
import aiohomekit.http.response as resp
from aiohomekit.exceptions import HttpErrorResponse

ID = "C07"
RULE = ("message sequences from a grammar (HTTP/EVENT, status codes, header sets/casings/whitespace, fixed-length bodies 0..600, chunk sequences incl. 1-byte chunks and "
        "upper-case hex sizes, body-less, bodies containing CRLF and '0\\r\\n\\r\\n'); EVERY single and double cut of streams <=~150 bytes, random multi-cut and "
        "byte-at-a-time on larger ones; separate malformed stream (byte mutations/truncations) for the correspondence only; "
        "connection-level histories (conn:*): the same grammar and cut patterns fed to the real Insecure/SecureHomeKitProtocol under a real HomeKitConnection (concurrency limit 1/2/64) while the requests are "
        "issued through protocol.send_bytes / connection.get/put/post/request at every kind of moment (all up front, each just before the read holding the first byte of its response, random earlier read "
        "boundaries, unanswered extra requests), secure variant with 1..1024-byte blocks: request results and events handed to the connection = the messages sent. "
        "non-trivial = distinct (message-shape tuple, cut-pattern class)")
TRUSTED = ["CPython bytes/str methods (find, split, strip, title, decode)", "cryptography's ChaCha20Poly1305 as the accessory's sealing in the secure variant of the connection-level histories"]
ASSUMPTIONS = ["model domain: numeric fields are plain ASCII digit/hex strings and header/status lines are ASCII; cases outside (Python int() tolerance for sign/space/underscore/0x, "
               "Unicode-aware strip/title) are detected by instrumentation and skipped for the correspondence (count in coverage.distribution)",
               "theorem side condition GoodRun: no header block announces both 'Transfer-Encoding: chunked' and a positive Content-Length (RFC 7230 3.3.3); "
               "the implementation is split-dependent on such messages - observed on this run and reported as 'both-framings-split-dependent' (not a violation: outside 'well-formed')",
               "correctness against the writer (C07_written_stream_any_segmentation over Spec/HttpWriter.lean) covers all three framings (Content-Length, chunked, no body), every header - the framing header included - "
               "in any spelling and the framing header at any position (the application sees Title-Cased names and values without surrounding white space); what the writer never produces is outside the theorem: "
               "two framing headers in one message, a header block that is not ASCII, chunk extensions",
               "connection-level histories: no byte of an HTTP response (secure: of the block that holds its first byte) is delivered before its request reached the transport - the accessory cannot answer earlier; "
               "the j-th request on the wire owns the j-th HTTP response"]
EXPLANATION = ("Lean theorems C07_* over the model of HttpResponse.parse + data_received loop: segmentation independence (feed (a++b) = feed a; feed b, lifted to any list of reads, any stream) and "
               "correctness for every segmentation of every stream written by the independent writer of Spec/HttpWriter.lean (the parser returns exactly the messages written and consumes exactly their bytes); "
               "differential tie on data_received")


class _Fut:
    def __init__(self, log):
        self.log = log

    def done(self):
        return False

    def set_result(self, r):
        self.log.append(r)


class _Conn:
    def __init__(self, log):
        self.log = log

    def event_received(self, ev):
        self.log.append(ev)

    def _connection_lost(self, exc):
        pass


_flag = [False]
_plain_dec = re.compile(rb"[0-9]+\Z")
_plain_hex = re.compile(rb"[0-9a-fA-F]+\Z")


def _int(x, base=10):
    if isinstance(x, (bytes, bytearray, str)):
        b = x.encode("utf-8", "surrogatepass") if isinstance(x, str) else bytes(x)
        if not (_plain_hex if base == 16 else _plain_dec).match(b):
            try:
                builtins.int(x, base)
                _flag[0] = True  # python accepted something the model's domain excludes
            except ValueError:
                pass
    return builtins.int(x, base)


def msg_str(r):
    hs = ",".join(f"{hx(a.encode())}={hx(b.encode())}" for a, b in r.headers) or "."
    return f"{hx(r.get_http_name().encode())}:{r.code}:{hs}:{hx(r.body)}"


def impl_feed(loop, chunks):
    """returns (canonical string, list of message strings, raised?, outside_domain)"""
    log = []

    async def mk():
        return ipc.InsecureHomeKitProtocol(_Conn(log))

    p = loop.run_until_complete(mk())
    p.result_cbs = [_Fut(log) for _ in range(64)]
    _flag[0] = False
    resp.int = _int
    err = None
    try:
        for c in chunks:
            p.data_received(c)
    except Exception as e:  # noqa: BLE001
        err = type(e).__name__
    finally:
        del resp.int
    msgs = [msg_str(r) for r in log]
    out = (" ".join(msgs) or ".")
    if err:
        return out + " ERR", msgs, err, _flag[0]
    cur = p.current_response
    return out + f" | {hx(cur._raw_response)} {cur._state} {hx(cur.body)}", msgs, None, _flag[0]


def canon_model(s):
    """apply data_received's dispatch on the message kind to the model's output: the first message that is
    neither HTTP nor EVENT raises RuntimeError before anything else happens"""
    if s.startswith("driver-died"):
        return s
    head, sep, tail = s.partition(" | ") if " | " in s else (s[:-4] if s.endswith(" ERR") else s, " ERR", "")
    msgs = [] if head == "." else head.split(" ")
    for i, m in enumerate(msgs):
        name = m.split(":")[0]
        kind = bytes.fromhex(name).decode("latin1").lower() if name != "-" else ""
        if kind not in ("http", "event"):
            return (" ".join(msgs[:i]) or ".") + " ERR"
    return s


# ------------------------------------------------------------------ grammar
def rbody(rng, n):
    return bytes(rng.choice(b"ab\r\n0 :{}\x00\xff5") for _ in range(n))


HDRS = [b"Content-Type: application/hap+json", b"X-foo-bAR:  v v ", b"date:Mon", b"A1b-c: \t x", b"Server:", b"cache-control : no-cache"]


def gen_msg(rng, small=False):
    """returns (bytes, expected (name, code, headers, body), shape)"""
    kind = rng.choice([b"HTTP/1.1", b"EVENT/1.0", b"HTTP/1.0"])
    code = rng.choice([200, 204, 207, 400, 470, 500])
    reason = rng.choice([b"OK", b"No Content", b"Multi Status  x", b""])
    h = rng.sample(HDRS, rng.randint(0, 1 if small else 3))
    t = rng.random()
    maxb = 12 if small else 600

    def exp_headers(hs):
        out = []
        for x in hs:
            n, v = x.split(b":", 1)
            out.append((n.decode().strip().title(), v.decode().strip()))
        return out

    if t < 0.4:
        b = rbody(rng, rng.choice([0, 1, 2, rng.randint(0, maxb)]))
        cl = rng.choice([b"Content-Length", b"content-length", b"CONTENT-LENGTH"])
        hs = h + [cl + b": %d" % len(b)]
        rng.shuffle(hs)
        return kind + b" %d " % code + reason + b"\r\n" + b"".join(x + b"\r\n" for x in hs) + b"\r\n" + b, (kind.split(b"/")[0].decode(), code, exp_headers(hs), b), ("cl", len(b), len(hs))
    if t < 0.8:
        hs = h + [rng.choice([b"Transfer-Encoding: chunked", b"transfer-encoding:chunked"])]
        rng.shuffle(hs)
        s = kind + b" %d " % code + reason + b"\r\n" + b"".join(x + b"\r\n" for x in hs) + b"\r\n"
        body = b""
        sizes = []
        for _ in range(rng.randint(0, 2 if small else 4)):
            c = rbody(rng, rng.choice([1, 2, rng.randint(1, 6 if small else 40)]))
            s += (b"%x" % len(c) if rng.random() < .5 else b"%X" % len(c)) + b"\r\n" + c + b"\r\n"
            body += c
            sizes.append(len(c))
        return s + b"0\r\n\r\n", (kind.split(b"/")[0].decode(), code, exp_headers(hs), body), ("chunked", tuple(sizes), len(hs))
    return kind + b" %d " % code + reason + b"\r\n" + b"".join(x + b"\r\n" for x in h) + b"\r\n", (kind.split(b"/")[0].decode(), code, exp_headers(h), b""), ("bodyless", len(h))


CANON_HDRS = [(b"Content-Type", b"application/hap+json"), (b"X-Foo-Bar", b"v  v"), (b"Date", b"Mon, 01 Jan 2024 00:00:00 GMT"), (b"A1B-C", b"x"),
              (b"Cache-Control", b"no-cache"), (b"Server", b"hap/1.0 (x; y)")]


def gen_written(rng, small=False):
    """a message in the writer spec's vocabulary: returns (driver token, python-built bytes, expected (name, code, headers, body), shape)"""
    ver = rng.choice([b"HTTP/1.1", b"EVENT/1.0", b"HTTP/1.0"])
    code = rng.choice([200, 204, 207, 400, 470, 500])
    reason = rng.choice([b"OK", b"No Content", b"Multi-Status", b"Multi Status  x", b""])
    # ordinary headers in any spelling: (name as written, value as written incl. its padding)
    pool = [(n, b" " + v) for n, v in CANON_HDRS] + [tuple(x.split(b":", 1)) for x in HDRS]
    hs = rng.sample(pool, rng.randint(0, 1 if small else 4))
    cut_at = rng.randint(0, len(hs))
    before, after = hs[:cut_at], hs[cut_at:]  # the framing header goes between them
    maxb = 12 if small else 600
    t = rng.random()

    def lines(l):
        return b"".join(n + b":" + v + b"\r\n" for n, v in l)

    def htok(l):
        return ",".join(f"{hx(n)}={hx(v)}" for n, v in l) or "."

    def seen(l):
        return [(n.decode().strip().title(), v.decode().strip()) for n, v in l]  # what the application must see
    head = ver + b" %d " % code + reason + b"\r\n"
    if t < 0.4:
        body = rbody(rng, rng.choice([0, 1, 2, rng.randint(0, maxb)]))
        lt = b"%d" % len(body) if rng.random() < 0.8 else b"%04d" % len(body)
        fh = (rng.choice([b"Content-Length", b"content-length", b"CONTENT-LENGTH", b"Content-length "]), rng.choice([b" ", b"", b"  ", b"\t"]) + lt + rng.choice([b"", b" "]))
        raw = head + lines(before) + lines([fh]) + lines(after) + b"\r\n" + body
        fr, shape = "L:" + htok([fh]), ("w-cl", len(body), len(hs), cut_at)
    elif t < 0.8:
        chunks = []
        for _ in range(rng.randint(0, 2 if small else 5)):
            c = rbody(rng, rng.choice([1, 2, rng.randint(1, 6 if small else 80)]))
            sz = rng.choice([b"%x", b"%X", b"%03x"]) % len(c)
            chunks.append((sz, c))
        body = b"".join(c for _, c in chunks)
        fh = (rng.choice([b"Transfer-Encoding", b"transfer-encoding", b"TRANSFER-ENCODING"]), rng.choice([b" chunked", b"chunked", b"  chunked "]))
        raw = head + lines(before) + lines([fh]) + lines(after) + b"\r\n" + b"".join(sz + b"\r\n" + c + b"\r\n" for sz, c in chunks) + b"0\r\n\r\n"
        fr = "C:" + htok([fh]) + ":" + (",".join(f"{hx(sz)}={hx(c)}" for sz, c in chunks) or ".")
        shape = ("w-chunked", tuple(len(c) for _, c in chunks), len(hs), cut_at)
    else:
        body = b""
        fh = None
        raw = head + lines(before) + lines(after) + b"\r\n"
        fr, shape = "N", ("w-bodyless", len(hs))
    tok = ";".join([hx(ver), hx(b"%d" % code), hx(reason), htok(before), fr, htok(after), hx(body)])
    exp = (ver.split(b"/")[0].decode(), code, seen(before) + (seen([fh]) if fh else []) + seen(after), body)
    return tok, raw, exp, shape


def exp_str(e):
    name, code, headers, body = e
    hs = ",".join(f"{hx(a.encode())}={hx(b.encode())}" for a, b in headers) or "."
    return f"{hx(name.encode())}:{code}:{hs}:{hx(body)}"


def cut(stream, cuts):
    pts = [0] + list(cuts) + [len(stream)]
    return [stream[a:b] for a, b in zip(pts, pts[1:])]

# ------------------------------------------------------------------ connection-level stream
# The real InsecureHomeKitProtocol / SecureHomeKitProtocol under a real HomeKitConnection, a fake transport as the only
# stand-in: the requests are ISSUED through the public send path (protocol.send_bytes, connection.get/put/post/request)
# as tasks on the harness's loop, at varying moments relative to the reads, while the accessory's stream (HTTP responses
# and unsolicited EVENTs) arrives cut in any way.  Reference = the harness's own bookkeeping: the messages it wrote, and
# the order in which the requests reached the transport (the j-th request on the wire owns the j-th HTTP response).
A2C_KEY = bytes(range(1, 33))
C2A_KEY = bytes(range(65, 97))
CONN_METHODS = ["get", "put", "post", "request", "request-body"]
CONN_MODES = ["upfront", "lazy", "early", "mixed"]


class _Transport:
    """stands in for the TCP socket; remembers which task wrote what"""

    def __init__(self):
        self.writers = []
        self.closed = False

    def is_closing(self):
        return self.closed

    def writelines(self, lines):
        b"".join(lines)
        self.writers.append(asyncio.current_task())

    def write(self, data):
        self.writers.append(asyncio.current_task())

    def write_eof(self):
        pass

    def can_write_eof(self):
        return True

    def abort(self):
        self.closed = True

    def close(self):
        self.closed = True

    def get_extra_info(self, name, default=None):
        return default


class _Owner:
    """stands in for the pairing that owns the connection"""
    name = "verif"
    description = None

    def __init__(self):
        self.events = []

    def event_received(self, ev):
        self.events.append(ev)


class _RecConn(ipc.HomeKitConnection):
    """the real connection; event_received additionally records the message it was handed"""

    def event_received(self, event):
        self.verif_events.append(msg_str(event))
        return super().event_received(event)


def _unhx(s):
    return b"" if s == "-" else bytes.fromhex(s)


def _nonce(c):
    return struct.pack("<LQ", 0, c)


def _issue(conn, proto, layer, k, how):
    if layer == "protocol":
        pad = b"x" * (1500 if how == "request-body" else 0)  # > one 1024-byte block on the secure send path
        return proto.send_bytes(b"GET /r/%d HTTP/1.1\r\nHost: 127.0.0.1\r\n\r\n" % k + pad)
    if how == "get":
        return conn.get(f"/r/{k}")
    if how == "put":
        return conn.put(f"/r/{k}", b'{"k":%d}' % k)
    if how == "post":
        return conn.post(f"/r/{k}", b"\x06\x01\x01")
    if how == "request-body":
        return conn.request("PUT", f"/r/{k}", headers=[("Content-Length", 3), ("X-K", str(k))], body=b"abc")
    return conn.request("GET", f"/r/{k}", headers=[("X-K", str(k))])


async def _conn_exec(case):
    """run one history; returns what the application observed (never raises on library misbehaviour)"""
    layer, secure, limit = case["layer"], case["secure"], case["limit"]
    starts = case["starts"]  # wire offset before which the request of the i-th HTTP response must be on the wire
    methods = case["methods"]
    conn = _RecConn(_Owner(), ["127.0.0.1"], 51826, limit)
    conn.verif_events = []
    proto = ipc.SecureHomeKitProtocol(conn, A2C_KEY, C2A_KEY) if secure else ipc.InsecureHomeKitProtocol(conn)
    tr = _Transport()
    proto.connection_made(tr)
    conn.transport, conn.protocol = tr, proto
    conn.connected_host, conn.host_header = "127.0.0.1", "Host: 127.0.0.1"
    tasks = []
    err = None
    stalled = False
    off = 0
    try:
        for st in case["steps"]:
            if st[0] == "issue":
                k = len(tasks)
                tasks.append(asyncio.ensure_future(_issue(conn, proto, layer, k, methods[k % len(methods)])))
                await asyncio.sleep(0)
                await asyncio.sleep(0)
            elif st[0] == "spin":
                for _ in range(st[1]):
                    await asyncio.sleep(0)
            else:
                data = _unhx(st[1])
                while data:
                    # a response cannot arrive before its request was sent: the requests of all responses whose first
                    # byte lies in this read must be on the wire; let the loop run, and if the connection's concurrency
                    # limit still holds one back, deliver only the bytes in front of that response first
                    need = bisect.bisect_left(starts, off + len(data))
                    for _ in range(12):
                        if len(tr.writers) >= need:
                            break
                        await asyncio.sleep(0)
                    part = data
                    if len(tr.writers) < need:
                        part = data[:max(starts[len(tr.writers)] - off, 0)]
                        if not part:
                            stalled = True  # every earlier byte was delivered and the next request still is not sent
                            break
                    try:
                        proto.data_received(part)
                    except Exception as e:  # noqa: BLE001
                        err = f"{type(e).__name__}: {e}"[:120]
                        break
                    off += len(part)
                    data = data[len(part):]
                if err or stalled:
                    break
        for _ in range(8):
            await asyncio.sleep(0)
        results = []
        for t in tasks:
            if not t.done():
                results.append(None)
            elif t.cancelled():
                results.append("cancelled")
            elif t.exception() is not None:
                ex = t.exception()
                r = getattr(ex, "response", None)
                results.append(msg_str(r) if isinstance(ex, HttpErrorResponse) and r is not None else f"raised {type(ex).__name__}: {ex}"[:120])
            else:
                results.append(msg_str(t.result()))
        order = [tasks.index(w) if w in tasks else -1 for w in tr.writers]
        return {"events": list(conn.verif_events), "results": results, "order": order, "err": err, "stalled": stalled, "fed": off}
    finally:
        for t in tasks:
            if not t.done():
                t.cancel()
        if tasks:
            await asyncio.gather(*tasks, return_exceptions=True)


def _conn_judge(case, obs):
    """(signature, what) of the first disagreement between what was sent and what the application saw, or None"""
    exp_r, exp_e = case["responses"], case["events"]
    if obs["err"]:
        return "conn/raised", f"data_received raised {obs['err']} after {obs['fed']} bytes of a well-formed stream"
    if obs["events"] != exp_e:
        i = next((i for i, (a, b) in enumerate(zip(obs["events"], exp_e)) if a != b), min(len(obs["events"]), len(exp_e)))
        return "conn/events", f"{len(obs['events'])} events handed to the connection, {len(exp_e)} sent; first difference at #{i}: got {obs['events'][i:i + 1]} want {exp_e[i:i + 1]}"
    order, results = obs["order"], obs["results"]
    if -1 in order or len(set(order)) != len(order):
        return "conn/writes", f"requests reached the transport as {order}: not one write per request"
    for j, want in enumerate(exp_r):
        if j >= len(order):
            return "conn/responses", f"response #{j} could not be delivered: its request never reached the wire although every earlier byte was fed (stalled={obs['stalled']})"
        got = results[order[j]]
        if got != want:
            return "conn/responses", f"request #{order[j]} (the {j}-th on the wire) obtained {got if got is not None else 'no reply'}, the {j}-th HTTP response sent was {want}"
    served = set(order[:len(exp_r)])
    for k, r in enumerate(results):
        if k not in served and r is not None:
            return "conn/spurious", f"request #{k} has no response in the stream and yet finished with {r}"
    return None


def _conn_msgs(rng, pattern, small):
    out = []
    for want in pattern:
        while True:
            if rng.random() < 0.5:
                raw, exp, shape = gen_msg(rng, small)
            else:
                _, raw, exp, shape = gen_written(rng, small)
            if exp[0][0] == want:
                break
        out.append((raw, exp, shape))
    return out


def _conn_wire(rng, msgs, secure):
    """the accessory's byte stream on the wire, and per HTTP response the earliest wire byte that depends on its request"""
    plain = b"".join(m[0] for m in msgs)
    pstarts, o = [], 0
    for raw, exp, _ in msgs:
        if exp[0] == "HTTP":
            pstarts.append(o)
        o += len(raw)
    if not secure:
        return plain, pstarts
    # blocks of 1..1024 bytes; a block never holds bytes of a response together with older bytes (it is sealed after the request came in)
    bounds = set(pstarts) | {rng.randrange(1, len(plain)) for _ in range(rng.choice([0, 0, 1, 2, 5])) if len(plain) > 1}
    pts = sorted(bounds | {0, len(plain)})
    blocks = []
    for a, b in zip(pts, pts[1:]):
        while b - a > 1024:
            n = rng.choice([1024, rng.randint(1, 1024)])
            blocks.append((a, a + n))
            a += n
        if b > a:
            blocks.append((a, b))
    wire, wstart = b"", {}
    for ctr, (a, b) in enumerate(blocks):
        wstart[a] = len(wire)
        lb = struct.pack("<H", b - a)
        wire += lb + ChaCha20Poly1305(A2C_KEY).encrypt(_nonce(ctr), plain[a:b], lb)
    return wire, [wstart[p] for p in pstarts]


def _conn_steps(rng, wire, starts, cuts, mode, extra):
    pts = [0] + list(cuts) + [len(wire)]
    reads = [wire[a:b] for a, b in zip(pts, pts[1:])]
    latest = [bisect.bisect_right(pts, s) - 1 for s in starts]  # the read that holds the first byte of the i-th response
    at, prev = [], 0  # at[i] = the read boundary at which the i-th request is issued: never after `latest`, in order
    for r in latest:
        how = mode if mode != "mixed" else rng.choice(["lazy", "early", "with-previous"])
        if how == "upfront":
            b = 0
        elif how == "lazy":
            b = r
        elif how == "early":
            b = rng.randint(prev, r)
        else:
            b = prev
        at.append(b)
        prev = b
    for _ in range(extra):  # a request the accessory has not answered (yet)
        prev = rng.randint(prev, len(reads))
        at.append(prev)
    steps = []
    for r in range(len(reads) + 1):
        steps += [["issue"]] * at.count(r)
        if r < len(reads):
            if len(reads) <= 40 and rng.random() < 0.15:
                steps.append(["spin", rng.randint(1, 4)])
            steps.append(["recv", hx(reads[r])])
    return steps


def run_conn(ctx: Ctx, loop):
    rng = ctx.rng
    seen = Counter()

    def one(msgs, wire, starts, cuts, layer, secure, limit, mode, extra, cutkind):
        methods = [rng.choice(CONN_METHODS) for _ in range(3)]
        case = {"stream": "conn", "layer": layer, "secure": secure, "limit": limit, "mode": mode, "methods": methods, "starts": starts,
                "steps": _conn_steps(rng, wire, starts, cuts, mode, extra),
                "responses": [exp_str(m[1]) for m in msgs if m[1][0] == "HTTP"], "events": [exp_str(m[1]) for m in msgs if m[1][0] == "EVENT"]}
        ctx.evaluations += 1
        ctx.dist[f"conn:{layer}/{'secure' if secure else 'plain'}/{mode}"] += 1
        ctx.dist["conn-cuts:" + cutkind] += 1
        ctx.nontrivial.add(("conn", "".join(m[1][0][0] for m in msgs), layer, secure, min(limit, 2), mode, extra, cutkind, tuple(m[2][0] for m in msgs)))
        try:
            bad = _conn_judge(case, loop.run_until_complete(_conn_exec(case)))
        except Exception as e:  # noqa: BLE001 - the send path / connection itself failed on a valid history
            bad = ("conn/exception", f"{type(e).__name__}: {e}"[:200])
        if bad:
            seen[bad[0]] += 1
            if seen[bad[0]] <= 8:
                ctx.violation(bad[0], f"{layer}{' (secure)' if secure else ''}, limit {limit}, requests issued {mode}, {cutkind} {list(cuts)[:6]}, messages {''.join(m[1][0][0] for m in msgs)}: {bad[1]}"[:600], case)
        return case

    def config():
        layer = rng.choice(["protocol", "connection", "connection"])
        limit = 64 if layer == "protocol" else rng.choice([1, 1, 2, 64])
        return layer, rng.random() < 0.3, limit

    # small streams, every single cut under every issue schedule; the kinds cycle through fixed patterns so that each
    # neighbourhood (event in front of / between / behind responses, responses only, events only) is there on every run
    patterns = ["EH", "HEH", "EEH", "HE", "HH", "EHE", "E", "H", "HHEH", "EE"]
    first = None
    for i in range(ctx.budget(8, 60)):
        msgs = _conn_msgs(rng, patterns[i % len(patterns)], small=True)
        layer, secure, limit = config()
        if i < 2:
            secure = False
        wire, starts = _conn_wire(rng, msgs, secure)
        L = len(wire)
        for mode in CONN_MODES:
            one(msgs, wire, starts, (), layer, secure, limit, mode, 0, "unsplit")
            for a in range(1, L):
                c = one(msgs, wire, starts, (a,), layer, secure, limit, mode, rng.choice([0, 0, 1]), "single-cut")
                first = first or c
        for _ in range(ctx.budget(40, 400)):
            a, b = sorted(rng.sample(range(1, L), 2)) if L > 2 else (1, 1)
            if a != b:
                one(msgs, wire, starts, (a, b), layer, secure, limit, rng.choice(CONN_MODES), rng.choice([0, 0, 1]), "double-cut")
    # larger sequences: random multi-cut and byte-at-a-time, random kinds
    last = None
    for _ in range(ctx.budget(500, 8000)):
        pattern = "".join(rng.choice("EH") for _ in range(rng.randint(1, 5)))
        msgs = _conn_msgs(rng, pattern, small=rng.random() < 0.3)
        layer, secure, limit = config()
        wire, starts = _conn_wire(rng, msgs, secure)
        L = len(wire)
        if rng.randrange(5) == 0 and L < 400:
            cuts, ck = tuple(range(1, L)), "byte-at-a-time"
        else:
            cuts, ck = tuple(sorted(set(rng.randrange(1, L) for _ in range(rng.choice([1, 2, 3, 8, 30]))))), "multi-cut"
        last = one(msgs, wire, starts, cuts, layer, secure, limit, rng.choice(CONN_MODES), rng.choice([0, 0, 1]), ck)
    for c in (first, last):
        if c:
            ctx.sample({k: (v if k != "steps" else v[:6]) for k, v in c.items()}, limit=8)


def run(ctx: Ctx, driver: Driver):
    rng = ctx.rng
    loop = asyncio.new_event_loop()
    for c in load_corpus(ID):
        replay(ctx, driver, c)
    cases, outs, lines = [], [], []
    k = [0]

    def one(kind, stream, cuts, expected, shapes, to_model):
        chunks = cut(stream, cuts)
        out, msgs, err, outside = impl_feed(loop, chunks)
        ctx.evaluations += 1
        case = {"stream": "feed", "kind": kind, "chunks": [hx(c) for c in chunks]}
        ctx.nontrivial.add((shapes, len(cuts), tuple(min(c * 6 // max(len(stream), 1), 5) for c in cuts[:2])))
        if expected is not None:
            if err:
                ctx.violation("feed/raised", f"{kind}: parser raised {err} on a well-formed stream cut at {list(cuts)[:6]}", case)
            elif msgs != expected:
                ctx.violation("feed/" + kind, f"{kind}: parsed {len(msgs)} messages differing from the {len(expected)} sent (cuts {list(cuts)[:6]}): got {msgs[:2]} want {expected[:2]}"[:500], case)
            elif not out.endswith("| - 0 -"):
                ctx.violation("feed/leftover", f"{kind}: bytes left in the parser after the last complete message: {out[-60:]}", case)
        if outside:
            ctx.dist["outside-model-domain"] += 1
        elif to_model:
            cases.append(case)
            outs.append(out)
            lines.append("http.feed " + " ".join(hx(c) for c in chunks))
        ctx.dist["feed:" + kind] += 1
        return out

    # exhaustive single + double cuts on small streams
    nsmall = ctx.budget(10, 60)
    me = ctx.budget(9, 3)
    for _ in range(nsmall):
        ms = [gen_msg(rng, small=True) for _ in range(rng.choice([1, 2]))]
        stream = b"".join(m[0] for m in ms)
        if len(stream) > 170:
            continue
        expected = [exp_str(m[1]) for m in ms]
        shapes = tuple(m[2] for m in ms)
        L = len(stream)
        one("unsplit", stream, (), expected, shapes, True)
        for a in range(1, L):
            k[0] += 1
            one("single-cut", stream, (a,), expected, shapes, k[0] % me == 0)
        for a, b in itertools.combinations(range(1, L), 2):
            k[0] += 1
            one("double-cut", stream, (a, b), expected, shapes, k[0] % (me * 11) == 0)
    # larger streams: random multi-cut, byte-at-a-time
    for _ in range(ctx.budget(250, 5000)):
        ms = [gen_msg(rng) for _ in range(rng.randint(1, 4))]
        stream = b"".join(m[0] for m in ms)
        expected = [exp_str(m[1]) for m in ms]
        shapes = tuple(m[2] for m in ms)
        L = len(stream)
        mode = rng.randrange(4)
        if mode == 0 and L < 500:
            cuts = tuple(range(1, L))
        else:
            cuts = tuple(sorted(set(rng.randrange(1, L) for _ in range(rng.choice([0, 1, 2, 3, 8, 30])))))
        one("multi-cut", stream, cuts, expected, shapes, True)
    # streams in the vocabulary of the writer specification (Spec/HttpWriter.lean): the driver certifies each message
    # (goodB, proved sound), writes the bytes with the spec's `write` and states the messages the theorem promises;
    # those bytes must be the ones this harness builds itself, and the real parser must return those messages
    # under every cut tried
    wl, wmeta = [], []
    for _ in range(ctx.budget(120, 2500)):
        ms = [gen_written(rng, small=rng.random() < 0.3) for _ in range(rng.randint(1, 4))]
        wl.append("http.write " + " ".join(m[0] for m in ms))
        wmeta.append(ms)
    for ms, ans in zip(wmeta, driver.run(wl)):
        f = ans.split(" ")
        stream = b"".join(m[1] for m in ms)
        expected = [exp_str(m[2]) for m in ms]
        case = {"stream": "feed", "kind": "written", "chunks": [hx(stream)]}
        ctx.evaluations += 1
        if len(f) < 3 or f[0] != "good=1":
            ctx.mismatch("written", case, "well-formed message of the harness's writer", ans[:160])
            continue
        if f[1] != hx(stream):
            ctx.mismatch("written", case, hx(stream)[:200], f[1][:200])
            continue
        if f[2:] != expected:
            ctx.mismatch("written", case, " ".join(expected)[:300], " ".join(f[2:])[:300])
            continue
        L = len(stream)
        shapes = tuple(m[3] for m in ms)
        for _ in range(ctx.budget(4, 8)):
            mode = rng.randrange(5)
            if mode == 0 and L < 400:
                cuts = tuple(range(1, L))
            else:
                cuts = tuple(sorted(set(rng.randrange(1, L) for _ in range(rng.choice([0, 1, 2, 3, 8, 30])))))
            one("written", stream, cuts, f[2:], shapes, mode == 1)
    # truncated well-formed streams: messages completed so far only, no error
    for _ in range(ctx.budget(150, 3000)):
        ms = [gen_msg(rng) for _ in range(rng.randint(1, 3))]
        stream = b"".join(m[0] for m in ms)
        t = rng.randrange(0, len(stream))
        done = []
        off = 0
        for m in ms:
            off += len(m[0])
            if off <= t:
                done.append(exp_str(m[1]))
        L = t
        cuts = tuple(sorted(set(rng.randrange(1, L) for _ in range(rng.choice([0, 1, 3]))))) if L > 1 else ()
        out = one("truncated", stream[:t], cuts, None, ("trunc",), True)
        got = [] if out.split(" | ")[0] == "." else out.split(" | ")[0].split(" ")
        # a body-less message that ends exactly at the cut is complete; a fixed-length/chunked one as well
        if " ERR" in out or got[:len(done)] != done or len(got) > len(done) + 1:
            ctx.violation("feed/truncated", f"truncated stream: got {len(got)} messages, {len(done)} were complete", {"stream": "feed", "kind": "truncated", "chunks": [hx(c) for c in cut(stream[:t], cuts)]})
    # malformed: correspondence only (same outcome split or unsplit is checked by the model theorem + tie)
    for _ in range(ctx.budget(600, 12000)):
        ms = [gen_msg(rng) for _ in range(rng.randint(1, 3))]
        stream = bytearray(b"".join(m[0] for m in ms))
        for _ in range(rng.choice([1, 1, 2])):
            i = rng.randrange(len(stream))
            m = rng.randrange(4)
            if m == 0:
                stream[i] = rng.choice(b"\r\n :0123456789abcdefXHTP/ -_+\t")
            elif m == 1:
                del stream[i]
            elif m == 2:
                stream.insert(i, rng.choice(b"\r\n :09afx"))
            else:
                stream[i] = rng.randrange(128)
        stream = bytes(stream)
        L = len(stream)
        cuts = tuple(sorted(set(rng.randrange(1, L) for _ in range(rng.choice([0, 1, 2, 5]))))) if L > 1 else ()
        one("malformed", stream, cuts, None, ("malformed",), True)
    # the excluded point of the theorem, run on the real code: both framings announced
    both = b"HTTP/1.1 200 OK\r\nTransfer-Encoding: chunked\r\nContent-Length: 5\r\n\r\n3\r\nabc\r\n0\r\n\r\n"
    o1 = impl_feed(loop, [both])[0]
    o2 = impl_feed(loop, cut(both, (len(both) - 9,)))[0]
    ctx.notes.append(f"both-framings message (outside well-formed, GoodRun fails): unsplit -> {o1[:40]}..., cut inside the chunk -> {o2[-50:]}; split-dependent={o1 != o2}")
    if o1 != o2:
        ctx.dist["both-framings-split-dependent"] += 1
    ctx.sample({k2: v for k2, v in cases[1].items()})
    ctx.sample(cases[-1])
    compare_with_model(ctx, "feed", cases, outs, lines, driver, canon=canon_model)
    run_conn(ctx, loop)
    loop.close()


def replay(ctx, driver, c):
    loop = asyncio.new_event_loop()
    try:
        if c.get("stream") == "conn":
            try:
                bad = _conn_judge(c, loop.run_until_complete(_conn_exec(c)))
            except Exception as e:  # noqa: BLE001
                bad = ("conn/exception", f"{type(e).__name__}: {e}"[:200])
            return f"{bad[0]}: {bad[1]}" if bad else None
        chunks = [bytes.fromhex(x) if x != "-" else b"" for x in c["chunks"]]
        out, msgs, err, outside = impl_feed(loop, chunks)
        whole, msgs2, err2, _ = impl_feed(loop, [b"".join(chunks)])
        nm = len(ctx.mismatches)
        if not outside:
            compare_with_model(ctx, "feed", [c], [out], ["http.feed " + " ".join(hx(x) for x in chunks)], driver, canon=canon_model)
        if (msgs, bool(err)) != (msgs2, bool(err2)):
            return f"split-dependent parse: split -> {out[:200]} ; unsplit -> {whole[:200]}"
        if len(ctx.mismatches) > nm:
            return "model/implementation mismatch: " + str(ctx.mismatches[-1])[:300]
        return None
    finally:
        loop.close()


def search(ctx: Ctx, driver: Driver, broken):
    """tie broken, no violation yet: compare split vs unsplit parses on the implementation alone"""
    rng = ctx.rng
    loop = asyncio.new_event_loop()
    for _ in range(4000):
        ms = [gen_msg(rng, small=rng.random() < 0.5) for _ in range(rng.randint(1, 3))]
        stream = b"".join(m[0] for m in ms)
        expected = [exp_str(m[1]) for m in ms]
        L = len(stream)
        cuts = tuple(sorted(set(rng.randrange(1, L) for _ in range(rng.choice([1, 2, 3, 10])))))
        out, msgs, err, _ = impl_feed(loop, cut(stream, cuts))
        if err or msgs != expected:
            ctx.violation("feed/search", f"parsed messages differ from those sent (cuts {list(cuts)[:6]})", {"stream": "feed", "kind": "search", "chunks": [hx(c) for c in cut(stream, cuts)]})
            break
    loop.close()
