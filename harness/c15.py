"""C15 - pairing TLV encoding round-trips and is the canonical TLV8 wire format."""
from __future__ import annotations

import asyncio
import itertools

from harness.common import Ctx, Driver, compare_with_model, hx, load_corpus

from aiohomekit.protocol.tlv import TLV, TlvParseException
import aiohomekit.controller.ble.client as bleclient

ID = "C15"
RULE = ("item lists: types 0..255 x value lengths exhaustive over {0,1,2,254,255,256,257,509,510,511,765,766} for lists of <=3 items "
        "(with/without separators) + random <=2000; byte strings: all of length <=2 over all bytes (sampled per tier), all of length <=4 over a "
        "6-symbol alphabet, random and mutation-based beyond; with/without 'expected' filter; BLE reassembly: random splits into <=60 pieces. "
        "non-trivial = distinct (stream, outcome class, shape) where shape is the tuple of (type, length) pairs or the input length bucket")
TRUSTED = ["CPython bytearray/list semantics"]
ASSUMPTIONS = ["model mirrors TLV.encode_list/decode_bytearray/_pairing_char_write; tie is differential (this run's counts in coverage)",
               "the PDU layer under _pairing_char_write (char_write) is replaced by a scripted responder; it is covered by C17"]
EXPLANATION = "Lean theorems C15_* over the model of the codec; model tied to the code by differential streams enc/dec/reasm"

LENS = [0, 1, 2, 254, 255, 256, 257, 509, 510, 511, 765, 766]


# ---- independent reference (written from the TLV8 description, used as oracle on the implementation)
def ref_write(items):
    out = bytearray()
    for t, v in items:
        v = bytes(v)
        if len(v) == 0:
            out += bytes([t, 0])
            continue
        for i in range(0, len(v), 255):
            c = v[i:i + 255]
            out += bytes([t, len(c)]) + c
    return bytes(out)


def ref_read(bs, expected=None):
    """returns list of [t, v] or None if malformed; items of types outside `expected` are skipped and never
    glue their neighbours together"""
    out = []
    i = 0
    skipped = False
    while i < len(bs):
        t = bs[i]
        if expected and t not in expected:
            if i + 1 >= len(bs):
                break
            i += 2 + bs[i + 1]
            skipped = True
            continue
        if i + 1 >= len(bs):
            return None
        ln = bs[i + 1]
        v = bs[i + 2:i + 2 + ln]
        if len(v) != ln:
            return None
        i += 2 + ln
        if out and out[-1][0] == t and not skipped:
            out[-1][1] += v
        else:
            out.append([t, bytes(v)])
        skipped = False
    return out


def wf(items):
    for i, (t, v) in enumerate(items):
        if t == 255 and len(v):
            return False
        if i + 1 < len(items) and items[i + 1][0] == t:
            return False
    return True


def show_items(l):
    return ",".join(f"{int(k)}:{hx(v)}" for k, v in l) if l else "-"


# ---- implementation adapters
def impl_enc(items):
    try:
        b = TLV.encode_list([(t, bytearray(v)) for t, v in items])
        return "ok " + hx(b)
    except ValueError:
        return "err value"
    except Exception as e:  # noqa: BLE001
        return "exc " + type(e).__name__


def impl_dec(bs, expected, use_bytearray=False):
    try:
        r = TLV.decode_bytearray(bytearray(bs), expected) if use_bytearray else TLV.decode_bytes(bytes(bs), expected)
        return "ok " + show_items(r)
    except TlvParseException:
        return "err parse"
    except Exception as e:  # noqa: BLE001
        return "exc " + type(e).__name__


def impl_reasm(resps):
    it = iter(resps)
    count = [0]

    async def fake_char_write(client, ek, dk, handle, iid, body):
        count[0] += 1
        try:
            return next(it)
        except StopIteration:
            raise _Starved()

    class _Starved(Exception):
        pass

    class _Client:
        address = "00:00"

    orig = bleclient.char_write
    bleclient.char_write = fake_char_write
    try:
        r = asyncio.run(bleclient._pairing_char_write(_Client(), None, 1, [(6, b"\x01")]))
        # dict -> the item list it came from is not recoverable; compare as sorted dict
        return "done " + (",".join(f"{k}:{hx(v)}" for k, v in sorted(r.items())) or "-") + f" {count[0]}"
    except _Starved:
        return f"starved {count[0] - 1}"
    except TlvParseException:
        return f"err parse {count[0]}"
    except ValueError:
        return f"toomany {count[0]}"
    except Exception as e:  # noqa: BLE001
        return f"exc {type(e).__name__} {count[0]}"
    finally:
        bleclient.char_write = orig


def check_reasm(ctx, resps, out, case):
    """implementation-level oracle, independent of the model: replies that each carry exactly one fragment item
    (FragmentData ... FragmentData, FragmentLast; a fragment may be empty) must be reassembled into the decoding of
    the concatenated fragments, using every reply exactly once"""
    if out.startswith("exc"):
        ctx.violation("reasm/" + out.split()[1], f"_pairing_char_write raised {out.split()[1]}", case)
        return
    parts = []
    for i, r in enumerate(resps):
        d = ref_read(r)
        if d is None or len(d) != 1 or d[0][0] != (13 if i == len(resps) - 1 else 12):
            return  # not a plain fragment sequence: the correspondence with the model judges it
        parts.append(bytes(d[0][1]))
    if not resps or len(resps) > 50:
        return
    whole = ref_read(b"".join(parts))
    if whole is None:
        return
    want = "done " + (",".join(f"{k}:{hx(v)}" for k, v in sorted({t: bytes(v) for t, v in whole}.items())) or "-") + f" {len(resps)}"
    if out != want:
        ctx.violation("reasm/wrong-result", f"{len(resps)} fragment replies of sizes {[len(x) for x in parts][:8]} carrying a {len(b''.join(parts))}-byte TLV: got '{out[:120]}', the reassembled items are '{want[:120]}'", case)


def canon_reasm(s):
    # the model prints the item list; the implementation returns dict(items): last occurrence wins, sort by key
    p = s.split(" ")
    if p[0] == "done" and p[1] != "-":
        d = {}
        for kv in p[1].split(","):
            k, v = kv.split(":")
            d[int(k)] = v
        p[1] = ",".join(f"{k}:{v}" for k, v in sorted(d.items()))
    return " ".join(p)


def exp_str(expected):
    if expected is None:
        return "none"
    if not expected:
        return "empty"
    return ",".join(str(x) for x in expected)


# ---- generators
def val(rng, n):
    mode = rng.randrange(3)
    if mode == 0:
        return bytes([rng.randrange(256)]) * n
    if mode == 1:
        return bytes((i * 7 + n) % 256 for i in range(n))
    return bytes(rng.randrange(256) for _ in range(n))


def gen_item_lists(ctx: Ctx):
    rng = ctx.rng
    types = [0, 1, 6, 7, 12, 13, 254]
    # exhaustive boundary lengths, 1..2 items (and 3 in thorough), separators between equal types
    for n in (1, 2, 3) if ctx.thorough() else (1, 2):
        for lens in itertools.product(LENS, repeat=n):
            if n == 3 and rng.random() < 0.5:
                continue
            ts = [rng.choice(types) for _ in range(n)]
            items = []
            for i, (t, ln) in enumerate(zip(ts, lens)):
                if items and items[-1][0] == t:
                    if rng.random() < 0.8:
                        items.append((255, b""))
                items.append((t, val(rng, ln)))
            yield items
    for _ in range(ctx.budget(1500, 40000)):
        n = rng.choice([0, 1, 1, 2, 3, 5, 8])
        items = []
        for _ in range(n):
            t = rng.choice([rng.randrange(256), rng.randrange(16), 255])
            if t == 255:
                v = b"" if rng.random() < 0.85 else val(rng, rng.randrange(1, 4))
            else:
                ln = rng.choice([rng.choice(LENS), rng.randrange(0, 40), rng.randrange(0, 2000)])
                v = val(rng, ln)
            items.append((t, v))
        yield items


def gen_byte_strings(ctx: Ctx):
    rng = ctx.rng
    alpha = [0, 1, 2, 7, 254, 255]
    for n in range(0, 5):
        for tup in itertools.product(alpha, repeat=n):
            yield bytes(tup), None
    # all of length <= 2 over all bytes: length-1 fully, length-2 fully in thorough, sampled in quick
    for a in range(256):
        yield bytes([a]), None
    step = 1 if ctx.thorough() else 7
    for a in range(0, 256, step):
        for b in range(0, 256, step):
            yield bytes([a, b]), None
    filters = [None, [], [6], [6, 7], [6, 3, 5], [6, 7, 3, 2], list(range(0, 12))]
    for _ in range(ctx.budget(4000, 120000)):
        mode = rng.randrange(4)
        if mode == 0:
            bs = bytes(rng.randrange(256) for _ in range(rng.randrange(0, 40)))
        else:
            # mostly valid: encode something then mutate
            items = []
            for _ in range(rng.randrange(1, 5)):
                t = rng.choice([6, 7, 3, 5, 2, 1, 10, 255, rng.randrange(256)])
                v = b"" if t == 255 else val(rng, rng.choice([0, 1, 2, 32, 254, 255, 256, 300, 510, 511]))
                items.append((t, v))
            bs = bytearray(ref_write(items))
            if mode >= 2 and bs:
                k = rng.randrange(4)
                i = rng.randrange(len(bs))
                if k == 0:
                    bs[i] ^= 1 << rng.randrange(8)
                elif k == 1:
                    bs = bs[:i]
                elif k == 2:
                    j = rng.randrange(len(bs))
                    bs = bs[:i] + bs[j:]
                else:
                    bs[i] = rng.randrange(256)
            bs = bytes(bs)
        yield bs, rng.choice(filters)


def gen_reasm(ctx: Ctx):
    rng = ctx.rng
    for _ in range(ctx.budget(400, 8000)):
        items = []
        for _ in range(rng.randrange(1, 4)):
            t = rng.choice([6, 3, 5, 2, 1, 10, 7])
            items.append((t, val(rng, rng.choice([1, 2, 32, 100, 255, 256, 384, 600]))))
        payload = ref_write(items)
        mode = rng.randrange(6)
        if mode == 0:
            yield [payload]  # unfragmented
            continue
        npieces = rng.choice([1, 2, 3, 5, 48, 49, 50, 51, 60]) if mode == 1 else rng.randrange(1, 6)
        cuts = sorted(rng.randrange(0, len(payload) + 1) for _ in range(npieces - 1))
        pts = [0] + cuts + [len(payload)]
        pieces = [payload[a:b] for a, b in zip(pts, pts[1:])]
        if mode == 5 and rng.random() < 0.5:
            k = rng.choice([1, 7, 137, 255])
            pieces = [payload[i:i + k] for i in range(0, len(payload), k)][:49] + [b""]
            if b"".join(pieces) != payload:
                pieces = [payload, b""]
        resps = [ref_write([(12, p)]) for p in pieces[:-1]] + [ref_write([(13, pieces[-1])])]
        if mode == 2:
            resps = resps[:-1]  # never finishes: starved / too many
        if mode == 3 and resps:
            i = rng.randrange(len(resps))
            b = bytearray(resps[i])
            if b:
                b[rng.randrange(len(b))] ^= 1 << rng.randrange(8)
            resps[i] = bytes(b)
        if mode == 4:
            resps.insert(rng.randrange(len(resps) + 1), ref_write([(6, b"\x02"), (7, b"\x02")]))
        yield resps


# ---- the run
def check_enc(ctx, items, out):
    ctx.evaluations += 1
    shape = tuple((t, min(len(v), 800)) for t, v in items)
    if out.startswith("exc"):
        ctx.violation("enc/" + out.split()[1], f"encode_list raised {out} on {show_items(items)[:200]}", {"stream": "enc", "items": [[t, hx(v)] for t, v in items]})
        return
    sep_with_data = any(t == 255 and len(v) for t, v in items)
    if sep_with_data:
        if out != "err value":
            ctx.violation("enc/separator-data", "separator with data accepted", {"stream": "enc", "items": [[t, hx(v)] for t, v in items]})
        return
    ctx.nontrivial.add(("enc", shape))
    enc = bytes.fromhex(out[3:]) if out[3:] != "-" else b""
    if enc != ref_write(items):
        ctx.violation("enc/not-canonical", f"encoding of {show_items(items)[:200]} is not the canonical TLV8 form", {"stream": "enc", "items": [[t, hx(v)] for t, v in items]})
        return
    if wf(items):
        back = impl_dec(enc, None)
        if back != "ok " + show_items(items):
            ctx.violation("enc/roundtrip", f"decode(encode(l)) != l for {show_items(items)[:200]}: {back[:200]}", {"stream": "enc", "items": [[t, hx(v)] for t, v in items]})


def check_dec(ctx, bs, expected, out):
    ctx.evaluations += 1
    case = {"stream": "dec", "bytes": hx(bs), "expected": expected}
    if out.startswith("exc"):
        ctx.violation("dec/" + out.split()[1], f"decode raised {out.split()[1]} (not the codec's parse error) on {hx(bs)[:120]}", case)
        return
    ref = ref_read(bs, expected)
    want = "err parse" if ref is None else "ok " + show_items(ref)
    ctx.nontrivial.add(("dec", out[:3], len(bs) if len(bs) < 8 else 8 + len(bs) // 64, expected is not None and tuple(expected)))
    if out != want:
        ctx.violation("dec/wrong-result", f"decode({hx(bs)[:120]}, expected={expected}) = {out[:160]} but a conformant reader gives {want[:160]}", case)


def run(ctx: Ctx, driver: Driver):
    # corpus first (past failures)
    for c in load_corpus(ID):
        run_case(ctx, driver, c, record=True)
    # stream enc
    cases, outs, lines = [], [], []
    for items in gen_item_lists(ctx):
        out = impl_enc(items)
        check_enc(ctx, items, out)
        cases.append({"stream": "enc", "items": [[t, hx(v)] for t, v in items]})
        outs.append(out)
        lines.append("tlv.enc " + " ".join(f"{t} {hx(v)}" for t, v in items))
        ctx.dist["enc:" + out.split()[0]] += 1
    ctx.sample(cases[len(cases) // 2])
    compare_with_model(ctx, "enc", cases, outs, lines, driver)
    # stream dec
    cases, outs, lines = [], [], []
    for i, (bs, expected) in enumerate(gen_byte_strings(ctx)):
        out = impl_dec(bs, expected, use_bytearray=(i % 2 == 1))
        check_dec(ctx, bs, expected, out)
        cases.append({"stream": "dec", "bytes": hx(bs), "expected": expected})
        outs.append(out)
        lines.append(f"tlv.dec {exp_str(expected)} {hx(bs)}")
        ctx.dist["dec:" + " ".join(out.split()[:2] if out.startswith("err") else out.split()[:1])] += 1
    ctx.sample(cases[-1])
    compare_with_model(ctx, "dec", cases, outs, lines, driver)
    # stream reasm
    cases, outs, lines = [], [], []
    for resps in gen_reasm(ctx):
        out = impl_reasm(resps)
        ctx.evaluations += 1
        case = {"stream": "reasm", "responses": [hx(r) for r in resps]}
        check_reasm(ctx, resps, out, case)
        cases.append(case)
        outs.append(out)
        lines.append("tlv.reasm " + " ".join(hx(r) for r in resps))
        ctx.dist["reasm:" + out.split()[0]] += 1
        ctx.nontrivial.add(("reasm", out.split()[0], min(len(resps), 52)))
    ctx.sample(cases[0])
    compare_with_model(ctx, "reasm", cases, outs, lines, driver, canon=canon_reasm)


def run_case(ctx, driver, c, record=False):
    """run one stored case through implementation, oracle and model; returns a description if it fails"""
    before = len(ctx.violations)
    nm = len(ctx.mismatches)
    if c["stream"] == "enc":
        items = [(t, bytes.fromhex(v) if v != "-" else b"") for t, v in c["items"]]
        out = impl_enc(items)
        check_enc(ctx, items, out)
        compare_with_model(ctx, "enc", [c], [out], ["tlv.enc " + " ".join(f"{t} {hx(v)}" for t, v in items)], driver)
    elif c["stream"] == "dec":
        bs = bytes.fromhex(c["bytes"]) if c["bytes"] != "-" else b""
        out = impl_dec(bs, c.get("expected"))
        check_dec(ctx, bs, c.get("expected"), out)
        compare_with_model(ctx, "dec", [c], [out], [f"tlv.dec {exp_str(c.get('expected'))} {hx(bs)}"], driver)
    else:
        resps = [bytes.fromhex(r) if r != "-" else b"" for r in c["responses"]]
        out = impl_reasm(resps)
        check_reasm(ctx, resps, out, c)
        compare_with_model(ctx, "reasm", [c], [out], ["tlv.reasm " + " ".join(hx(r) for r in resps)], driver, canon=canon_reasm)
    if len(ctx.violations) > before:
        return ctx.violations[-1]["what"]
    if len(ctx.mismatches) > nm:
        return "model/implementation mismatch: " + str(ctx.mismatches[-1])[:300]
    return None


def replay(ctx, driver, case):
    return run_case(ctx, driver, case)


def search(ctx: Ctx, driver: Driver, broken):
    """tie broken and no violation yet: oracle-only search with a 10x budget on the implementation"""
    ctx.tier = "thorough"
    for items in gen_item_lists(ctx):
        check_enc(ctx, items, impl_enc(items))
        if ctx.violations:
            return
    for bs, expected in gen_byte_strings(ctx):
        check_dec(ctx, bs, expected, impl_dec(bs, expected))
        if ctx.violations:
            return
    for resps in gen_reasm(ctx):
        check_reasm(ctx, resps, impl_reasm(resps), {"stream": "reasm", "responses": [hx(r) for r in resps]})
        if ctx.violations:
            return
