"""C15 - pairing TLV encoding round-trips and is the canonical TLV8 wire format."""
from __future__ import annotations

import asyncio
import itertools

from harness.common import Ctx, Driver, compare_with_model, hx, load_corpus

from aiohomekit.protocol.tlv import TLV, TlvParseException
import aiohomekit.controller.ble.client as bleclient

ID = "C15"
RULE = ("item lists: types 0..255 x value lengths exhaustive over {0,1,2,254,255,256,257,509,510,511,765,766} for lists of <=3 items "
        "(with/without separators) + random <=2000; byte strings: all of length <=2 over all bytes (sampled per tier), all of length <=4 over a "
        "6-symbol alphabet, random and mutation-based beyond; with/without 'expected' filter; BLE reassembly: random splits into <=60 pieces; "
        "BLE driver: drive_pairing_state_machine over the real PDU layer with the real pair-setup/pair-verify generators (reference accessory) and "
        "scripted state machines (1-4 round trips, real and random non-empty expected lists) against a GATT accessory that answers unfragmented or as "
        "FragmentData* FragmentLast with every fragment size 1..46 on a short response, boundary sizes around 255 on a 409-byte one, random cuts, "
        "empty fragments, <=50 pieces, MTUs 20..512 in both directions. "
        "non-trivial = distinct (stream, outcome class, shape) where shape is the tuple of (type, length) pairs or the input length bucket")
TRUSTED = ["CPython bytearray/list semantics"]
ASSUMPTIONS = ["model mirrors TLV.encode_list/decode_bytearray/_pairing_char_write; tie is differential (this run's counts in coverage)",
               "reasm stream: the PDU layer under _pairing_char_write (char_write) is replaced by a scripted responder; it is covered by C17",
               "drive stream: oracle only (no model); only write_gatt_char/read_gatt_char are faked; the driver may hand the state machine items "
               "outside its expected list or not (IP/CoAP filter, BLE does not) - both are accepted, every expected type must be exact"]
EXPLANATION = "Lean theorems C15_* over the model of the codec; model tied to the code by differential streams enc/dec/reasm"

LENS = [0, 1, 2, 254, 255, 256, 257, 509, 510, 511, 765, 766]


# ---- independent reference (written from the TLV8 description, used as oracle on the implementation)
def ref_write(items):
    out = bytearray()
    for t, v in items:
        v = bytes(v)
        if len(v) == 0:
            out += bytes([t, 0])
            continue
        for i in range(0, len(v), 255):
            c = v[i:i + 255]
            out += bytes([t, len(c)]) + c
    return bytes(out)


def ref_read(bs, expected=None):
    """returns list of [t, v] or None if malformed; items of types outside `expected` are skipped and never
    glue their neighbours together"""
    out = []
    i = 0
    skipped = False
    while i < len(bs):
        t = bs[i]
        if expected and t not in expected:
            if i + 1 >= len(bs):
                break
            i += 2 + bs[i + 1]
            skipped = True
            continue
        if i + 1 >= len(bs):
            return None
        ln = bs[i + 1]
        v = bs[i + 2:i + 2 + ln]
        if len(v) != ln:
            return None
        i += 2 + ln
        if out and out[-1][0] == t and not skipped:
            out[-1][1] += v
        else:
            out.append([t, bytes(v)])
        skipped = False
    return out


def wf(items):
    for i, (t, v) in enumerate(items):
        if t == 255 and len(v):
            return False
        if i + 1 < len(items) and items[i + 1][0] == t:
            return False
    return True


def show_items(l):
    return ",".join(f"{int(k)}:{hx(v)}" for k, v in l) if l else "-"


# ---- implementation adapters
def impl_enc(items):
    try:
        b = TLV.encode_list([(t, bytearray(v)) for t, v in items])
        return "ok " + hx(b)
    except ValueError:
        return "err value"
    except Exception as e:  # noqa: BLE001
        return "exc " + type(e).__name__


def impl_dec(bs, expected, use_bytearray=False):
    try:
        r = TLV.decode_bytearray(bytearray(bs), expected) if use_bytearray else TLV.decode_bytes(bytes(bs), expected)
        return "ok " + show_items(r)
    except TlvParseException:
        return "err parse"
    except Exception as e:  # noqa: BLE001
        return "exc " + type(e).__name__


def impl_reasm(resps):
    it = iter(resps)
    count = [0]

    async def fake_char_write(client, ek, dk, handle, iid, body):
        count[0] += 1
        try:
            return next(it)
        except StopIteration:
            raise _Starved()

    class _Starved(Exception):
        pass

    class _Client:
        address = "00:00"

    orig = bleclient.char_write
    bleclient.char_write = fake_char_write
    try:
        r = asyncio.run(bleclient._pairing_char_write(_Client(), None, 1, [(6, b"\x01")]))
        # dict -> the item list it came from is not recoverable; compare as sorted dict
        return "done " + (",".join(f"{k}:{hx(v)}" for k, v in sorted(r.items())) or "-") + f" {count[0]}"
    except _Starved:
        return f"starved {count[0] - 1}"
    except TlvParseException:
        return f"err parse {count[0]}"
    except ValueError:
        return f"toomany {count[0]}"
    except Exception as e:  # noqa: BLE001
        return f"exc {type(e).__name__} {count[0]}"
    finally:
        bleclient.char_write = orig


def check_reasm(ctx, resps, out, case):
    """implementation-level oracle, independent of the model: replies that each carry exactly one fragment item
    (FragmentData ... FragmentData, FragmentLast; a fragment may be empty) must be reassembled into the decoding of
    the concatenated fragments, using every reply exactly once"""
    if out.startswith("exc"):
        ctx.violation("reasm/" + out.split()[1], f"_pairing_char_write raised {out.split()[1]}", case)
        return
    parts = []
    for i, r in enumerate(resps):
        d = ref_read(r)
        if d is None or len(d) != 1 or d[0][0] != (13 if i == len(resps) - 1 else 12):
            return  # not a plain fragment sequence: the correspondence with the model judges it
        parts.append(bytes(d[0][1]))
    if not resps or len(resps) > 50:
        return
    whole = ref_read(b"".join(parts))
    if whole is None:
        return
    want = "done " + (",".join(f"{k}:{hx(v)}" for k, v in sorted({t: bytes(v) for t, v in whole}.items())) or "-") + f" {len(resps)}"
    if out != want:
        ctx.violation("reasm/wrong-result", f"{len(resps)} fragment replies of sizes {[len(x) for x in parts][:8]} carrying a {len(b''.join(parts))}-byte TLV: got '{out[:120]}', the reassembled items are '{want[:120]}'", case)


def canon_reasm(s):
    # the model prints the item list; the implementation returns dict(items): last occurrence wins, sort by key
    p = s.split(" ")
    if p[0] == "done" and p[1] != "-":
        d = {}
        for kv in p[1].split(","):
            k, v = kv.split(":")
            d[int(k)] = v
        p[1] = ",".join(f"{k}:{v}" for k, v in sorted(d.items()))
    return " ".join(p)


def exp_str(expected):
    if expected is None:
        return "none"
    if not expected:
        return "empty"
    return ",".join(str(x) for x in expected)


# ---- generators
def val(rng, n):
    mode = rng.randrange(3)
    if mode == 0:
        return bytes([rng.randrange(256)]) * n
    if mode == 1:
        return bytes((i * 7 + n) % 256 for i in range(n))
    return bytes(rng.randrange(256) for _ in range(n))


def gen_item_lists(ctx: Ctx):
    rng = ctx.rng
    types = [0, 1, 6, 7, 12, 13, 254]
    # exhaustive boundary lengths, 1..2 items (and 3 in thorough), separators between equal types
    for n in (1, 2, 3) if ctx.thorough() else (1, 2):
        for lens in itertools.product(LENS, repeat=n):
            if n == 3 and rng.random() < 0.5:
                continue
            ts = [rng.choice(types) for _ in range(n)]
            items = []
            for i, (t, ln) in enumerate(zip(ts, lens)):
                if items and items[-1][0] == t:
                    if rng.random() < 0.8:
                        items.append((255, b""))
                items.append((t, val(rng, ln)))
            yield items
    for _ in range(ctx.budget(1500, 40000)):
        n = rng.choice([0, 1, 1, 2, 3, 5, 8])
        items = []
        for _ in range(n):
            t = rng.choice([rng.randrange(256), rng.randrange(16), 255])
            if t == 255:
                v = b"" if rng.random() < 0.85 else val(rng, rng.randrange(1, 4))
            else:
                ln = rng.choice([rng.choice(LENS), rng.randrange(0, 40), rng.randrange(0, 2000)])
                v = val(rng, ln)
            items.append((t, v))
        yield items


def gen_byte_strings(ctx: Ctx):
    rng = ctx.rng
    alpha = [0, 1, 2, 7, 254, 255]
    for n in range(0, 5):
        for tup in itertools.product(alpha, repeat=n):
            yield bytes(tup), None
    # all of length <= 2 over all bytes: length-1 fully, length-2 fully in thorough, sampled in quick
    for a in range(256):
        yield bytes([a]), None
    step = 1 if ctx.thorough() else 7
    for a in range(0, 256, step):
        for b in range(0, 256, step):
            yield bytes([a, b]), None
    filters = [None, [], [6], [6, 7], [6, 3, 5], [6, 7, 3, 2], list(range(0, 12))]
    for _ in range(ctx.budget(4000, 120000)):
        mode = rng.randrange(4)
        if mode == 0:
            bs = bytes(rng.randrange(256) for _ in range(rng.randrange(0, 40)))
        else:
            # mostly valid: encode something then mutate
            items = []
            for _ in range(rng.randrange(1, 5)):
                t = rng.choice([6, 7, 3, 5, 2, 1, 10, 255, rng.randrange(256)])
                v = b"" if t == 255 else val(rng, rng.choice([0, 1, 2, 32, 254, 255, 256, 300, 510, 511]))
                items.append((t, v))
            bs = bytearray(ref_write(items))
            if mode >= 2 and bs:
                k = rng.randrange(4)
                i = rng.randrange(len(bs))
                if k == 0:
                    bs[i] ^= 1 << rng.randrange(8)
                elif k == 1:
                    bs = bs[:i]
                elif k == 2:
                    j = rng.randrange(len(bs))
                    bs = bs[:i] + bs[j:]
                else:
                    bs[i] = rng.randrange(256)
            bs = bytes(bs)
        yield bs, rng.choice(filters)


def gen_reasm(ctx: Ctx):
    rng = ctx.rng
    for _ in range(ctx.budget(400, 8000)):
        items = []
        for _ in range(rng.randrange(1, 4)):
            t = rng.choice([6, 3, 5, 2, 1, 10, 7])
            items.append((t, val(rng, rng.choice([1, 2, 32, 100, 255, 256, 384, 600]))))
        payload = ref_write(items)
        mode = rng.randrange(6)
        if mode == 0:
            yield [payload]  # unfragmented
            continue
        npieces = rng.choice([1, 2, 3, 5, 48, 49, 50, 51, 60]) if mode == 1 else rng.randrange(1, 6)
        cuts = sorted(rng.randrange(0, len(payload) + 1) for _ in range(npieces - 1))
        pts = [0] + cuts + [len(payload)]
        pieces = [payload[a:b] for a, b in zip(pts, pts[1:])]
        if mode == 5 and rng.random() < 0.5:
            k = rng.choice([1, 7, 137, 255])
            pieces = [payload[i:i + k] for i in range(0, len(payload), k)][:49] + [b""]
            if b"".join(pieces) != payload:
                pieces = [payload, b""]
        resps = [ref_write([(12, p)]) for p in pieces[:-1]] + [ref_write([(13, pieces[-1])])]
        if mode == 2:
            resps = resps[:-1]  # never finishes: starved / too many
        if mode == 3 and resps:
            i = rng.randrange(len(resps))
            b = bytearray(resps[i])
            if b:
                b[rng.randrange(len(b))] ^= 1 << rng.randrange(8)
            resps[i] = bytes(b)
        if mode == 4:
            resps.insert(rng.randrange(len(resps) + 1), ref_write([(6, b"\x02"), (7, b"\x02")]))
        yield resps


# ---- stream drive: the real BLE driver of the pairing state machines (drive_pairing_state_machine -> _pairing_char_write ->
# char_write -> ble_request -> PDU layer) against a scripted HAP-BLE accessory behind a fake GATT radio.  The state machine
# yields (request items, NON-EMPTY expected list) the way the generators of aiohomekit.protocol do; the accessory hands its
# pairing TLV out whole or as FragmentData* FragmentLast pieces and waits for the empty-FragmentData acknowledgements.
REAL_EXPECTED = [[6, 7, 3, 2], [6, 7, 4, 5], [6, 7, 5], [6, 7, 3, 5], [6, 7]]  # the lists the real generators yield
MTUS = [20, 23, 50, 100, 182, 244, 512]
MAX_PIECES = 50  # the driver gives up after 50 GATT round trips for one response; longer trains are not judged here


class _Runaway(Exception):
    pass


class _Char:
    uuid = "0000004c-0000-1000-8000-0026bb765291"
    handle = 7
    max_write_without_response_size = 0

    def __init__(self, wwr):
        self.properties = ["read", "write-without-response"] if wwr else ["read", "write"]


def split_plan(L, plan):
    """piece lengths for an L-byte pairing TLV, or None = not fragmented; never more than MAX_PIECES pieces"""
    mode = plan["mode"]
    if mode == "whole":
        return None
    if mode == "size":
        e = plan.get("empty")
        room = MAX_PIECES - (1 if e else 0)
        k = max(int(plan["k"]), 1, -(-L // room))
        sizes = [min(k, L - o) for o in range(0, L, k)] or [0]
        if e == "first":
            sizes.insert(0, 0)
        elif e == "last":
            sizes.append(0)
        elif e == "mid":
            sizes.insert(len(sizes) // 2, 0)
        return sizes
    cuts = sorted(min(L, L * int(f) // 1000) for f in plan["fracs"])[:MAX_PIECES - 1]
    pts = [0] + cuts + [L]
    return [b - a for a, b in zip(pts, pts[1:])]


class GattAccessory:
    """fake radio (write_gatt_char / read_gatt_char of one pairing characteristic) + HAP-BLE accessory: reassembles the
    request PDUs itself, takes the written value out of the request body, answers through `responder` and hands the answer
    out according to the fragmentation plan of the round; keeps its own book of every write it saw"""
    address = "AA:BB:CC:00:15:07"

    def __init__(self, responder, plans, mtu, resp_mtu, wwr, iid):
        self.responder = responder
        self.plans = plans
        self.mtu = mtu
        self.resp_mtu = resp_mtu
        self.char = _Char(wwr)
        self.iid = iid
        self.rounds = []  # dicts: request, payload, pieces (None = whole), handed, acks, abandoned
        self.anomalies = []
        self.partial = None
        self.want = 0
        self.tid = 0
        self.reads = []
        self.nwrites = 0

    async def get_characteristic(self, service_uuid, characteristic_uuid, iid=None):
        return self.char

    async def get_characteristic_iid(self, char):
        return self.iid

    def determine_fragment_size(self, additional_overhead_size, handle):
        return self.mtu - additional_overhead_size

    async def write_gatt_char(self, handle, data, response=None):
        self.nwrites += 1
        if self.nwrites > 5000:
            raise _Runaway()
        data = bytes(data)
        if self.partial is None:
            if len(data) < 5 or data[0] & 0x80:
                self.anomalies.append(f"GATT write {hx(data)[:40]} is not the start of a request PDU")
                return
            self.tid = data[2]
            if len(data) >= 7:
                self.want = int.from_bytes(data[5:7], "little")
                self.partial = bytearray(data[7:])
            else:
                self.want = 0
                self.partial = bytearray()
        else:
            if len(data) < 2 or not data[0] & 0x80 or data[1] != self.tid:
                self.anomalies.append(f"GATT write {hx(data)[:40]} is not a continuation of transaction {self.tid}")
                return
            self.partial += data[2:]
        if len(self.partial) < self.want:
            return
        body = bytes(self.partial)
        self.partial = None
        self._on_request(body)

    def _status(self, code):
        self.reads = [bytes([0x02, self.tid, code, 0, 0])]

    def _on_request(self, body):
        items = ref_read(body)
        value = None if items is None else {t: bytes(v) for t, v in items}.get(1)
        if value is None:
            self.anomalies.append(f"request body {hx(body)[:60]} carries no value")
            return self._status(6)
        cur = self.rounds[-1] if self.rounds else None
        pending = cur is not None and cur["pieces"] is not None and cur["handed"] < len(cur["pieces"])
        if ref_read(value) == [[12, b""]]:
            if not pending:
                self.anomalies.append("fragment acknowledgement written while no fragment was outstanding")
                return self._status(6)
            cur["acks"] += 1
            return self._hand(cur)
        if pending:
            cur["abandoned"] = True
            self.anomalies.append(f"round {len(self.rounds)}: new request written after {cur['handed']} of {len(cur['pieces'])} fragments")
        i = len(self.rounds)
        if i >= len(self.plans):
            self.anomalies.append(f"request {i + 1} written, the exchange has only {len(self.plans)} round trips")
            return self._status(6)
        payload = bytes(self.responder(i, value))
        sizes = split_plan(len(payload), self.plans[i])
        pieces = None
        if sizes is not None:
            pieces, o = [], 0
            for s in sizes:
                pieces.append(payload[o:o + s])
                o += s
        cur = {"request": value, "payload": payload, "pieces": pieces, "handed": 0, "acks": 0, "abandoned": False}
        self.rounds.append(cur)
        self._hand(cur)

    def _hand(self, cur):
        if cur["pieces"] is None:
            value = cur["payload"]
        else:
            j = cur["handed"]
            value = ref_write([(13 if j == len(cur["pieces"]) - 1 else 12, cur["pieces"][j])])
            cur["handed"] += 1
        body = ref_write([(1, value)])
        n = self.resp_mtu
        self.reads = [bytes([0x02, self.tid, 0]) + len(body).to_bytes(2, "little") + body[:n - 5]]
        for o in range(n - 5, len(body), n - 2):
            self.reads.append(bytes([0x82, self.tid]) + body[o:o + n - 2])

    async def read_gatt_char(self, handle):
        if not self.reads:
            self.anomalies.append("GATT read with no response outstanding")
            return bytes([0x02, self.tid, 6, 0, 0])
        return self.reads.pop(0)


def _snap(resp):
    try:
        return {int(k): bytes(v) for k, v in dict(resp).items()}
    except Exception:  # noqa: BLE001
        return repr(resp)[:200]


def _tap(gen, log):
    """transparent wrapper of a pairing state machine: the harness's own record of what it yielded and what it was sent"""
    try:
        out = gen.send(None)
        while True:
            req, exp = out
            log.append(("yield", [(int(t), bytes(v)) for t, v in req], [int(x) for x in exp]))
            resp = yield out
            log.append(("recv", _snap(resp)))
            out = gen.send(resp)
    except StopIteration as e:
        return e.value


def _scripted_machine(rounds, token):
    for r in rounds:
        yield ([(t, bytearray(unhex(v))) for t, v in r["request"]], list(r["expected"]))
    return token


def unhex(s):
    return b"" if s == "-" else bytes.fromhex(s)


def _drive_setup(case):
    """(state machine, responder, judge(result) -> None | what is wrong) for one case"""
    import random as _random
    from harness import refacc
    from aiohomekit import protocol as proto
    kind = case["kind"]
    r = _random.Random(case.get("seed", 0))

    def rb(n):
        return bytes(r.randrange(256) for _ in range(n))

    extra = [(19, b"\x10\x00\x00\x00")] if case.get("extra") else []  # kTLVType_Flags, as HAP R2 accessories send
    if kind == "synthetic":
        token = ("finished", len(case["rounds"]))
        payloads = [ref_write([(t, unhex(v)) for t, v in rd["response"]]) for rd in case["rounds"]]
        return (_scripted_machine(case["rounds"], token), lambda i, value: payloads[i],
                lambda res: None if res == token else f"drive_pairing_state_machine returned {res!r:.80}, the state machine returned {token!r}")
    if kind == "setup1":
        salt, B = rb(16), bytes([r.randrange(1, 256)]) + rb(383)
        m2 = [(6, b"\x02"), (3, B), (2, salt)]
        r.shuffle(m2)

        def judge(res):
            try:
                ok = (bytes(res[0]), bytes(res[1])) == (salt, B)
            except Exception:  # noqa: BLE001
                ok = False
            return None if ok else f"pair-setup part 1 returned {res!r:.80} instead of the salt and the 384-byte SRP public key the accessory sent"
        return proto.perform_pair_setup_part1(with_auth=bool(case.get("with_auth"))), (lambda i, value: refacc.tlv(m2 + extra)), judge
    if kind == "verify":
        ident = refacc.Identity(rb)
        acc = refacc.VerifyAccessory(ident, rb(32))
        state = {}

        def responder(i, value):
            items = ref_read(value) or []
            if i == 0:
                d = {t: bytes(v) for t, v in items}
                return refacc.tlv(acc.m2(d.get(3, b"\0" * 32)) + extra)
            state["m3"] = acc.check_m3(items)
            return refacc.tlv([(6, b"\x04")] if state["m3"] else [(6, b"\x04"), (7, b"\x02")])

        def judge(res):
            if not state.get("m3"):
                return "the reference accessory rejected the M3 it received"
            try:
                derive = res[1]
                got = (derive(b"Control-Salt", b"Control-Write-Encryption-Key"), derive(b"Control-Salt", b"Control-Read-Encryption-Key"))
            except Exception as e:  # noqa: BLE001
                return f"pair-verify result unusable: {type(e).__name__}"
            return None if (bytes(got[0]), bytes(got[1])) == acc.keys()[:2] else "pair-verify session keys differ from the accessory's"
        return proto.get_session_keys(ident.pairing_data(connection="BLE")), responder, judge
    if kind == "setup2":
        from cryptography.hazmat.primitives.asymmetric import ed25519
        from cryptography.hazmat.primitives.ciphers.aead import ChaCha20Poly1305
        pin = "%03d-%02d-%03d" % (r.randrange(1000), r.randrange(100), r.randrange(1000))
        srv = refacc.SrpServer(pin, rb(16), int.from_bytes(rb(32), "big") | 1)
        ltsk = ed25519.Ed25519PrivateKey.from_private_bytes(rb(32))
        ltpk = ltsk.public_key().public_bytes(**refacc.RAW)
        acc_id = b"12:34:56:00:15:0A"
        state = {}

        def responder(i, value):
            d = {t: bytes(v) for t, v in (ref_read(value) or [])}
            if i == 0:
                srv.on_A(d.get(3, b"\x01"))
                state["proof"] = d.get(4) == srv.M1
                return refacc.tlv(([(6, b"\x04"), (4, srv.M2)] if state["proof"] else [(6, b"\x04"), (7, b"\x02")]) + extra)
            key = refacc.hk(srv.K, b"Pair-Setup-Encrypt-Salt", b"Pair-Setup-Encrypt-Info")
            try:
                sub = refacc.untlv(ChaCha20Poly1305(key).decrypt(b"\0\0\0\0PS-Msg05", d.get(5, b""), b""))
                iosx = refacc.hk(srv.K, b"Pair-Setup-Controller-Sign-Salt", b"Pair-Setup-Controller-Sign-Info")
                ed25519.Ed25519PublicKey.from_public_bytes(sub[3]).verify(sub[10], iosx + sub[1] + sub[3])
                state["m5"] = True
            except Exception:  # noqa: BLE001
                state["m5"] = False
                return refacc.tlv([(6, b"\x06"), (7, b"\x02")])
            accx = refacc.hk(srv.K, b"Pair-Setup-Accessory-Sign-Salt", b"Pair-Setup-Accessory-Sign-Info")
            sub = refacc.tlv([(1, acc_id), (3, ltpk), (10, ltsk.sign(accx + acc_id + ltpk))])
            return refacc.tlv([(6, b"\x06"), (5, ChaCha20Poly1305(key).encrypt(b"\0\0\0\0PS-Msg06", sub, b""))])

        def judge(res):
            if state.get("proof") is False:
                return "skip"  # SRP proof disagreement is C02's subject, not judged here
            if res is None:
                return "no result"
            if not state.get("m5"):
                return "the reference accessory rejected the M5 it received"
            try:
                ok = res["AccessoryPairingID"] == acc_id.decode() and res["AccessoryLTPK"] == ltpk.hex()
            except Exception:  # noqa: BLE001
                ok = False
            return None if ok else f"pair-setup part 2 returned {res!r:.80}, not the accessory's identifier and long-term key"
        return proto.perform_pair_setup_part2(pin, "c15-controller", bytearray(srv.salt), bytearray(refacc.PAD(srv.B))), responder, judge
    raise ValueError("unknown drive kind " + str(kind))


def case_plans(case):
    return [rd["plan"] for rd in case["rounds"]] if case["kind"] == "synthetic" else list(case["plans"])


def run_drive(ctx, case):
    """one exchange through the real driver; oracles from the accessory's and the tap's own books only"""
    ctx.evaluations += 1
    kind = case["kind"]
    machine, responder, judge = _drive_setup(case)
    acc = GattAccessory(responder, case_plans(case), case["mtu"], case["resp_mtu"], bool(case.get("wwr")), case.get("iid", 16))
    log = []
    exc = None
    result = None
    try:
        result = asyncio.run(bleclient.drive_pairing_state_machine(acc, "0000004c-0000-1000-8000-0026bb765291" if kind.startswith("setup") else "0000004e-0000-1000-8000-0026bb765291", _tap(machine, log)))
    except _Runaway:
        exc = "runaway"
    except Exception as e:  # noqa: BLE001
        exc = type(e).__name__ + ": " + str(e)[:120]
    yields = [e for e in log if e[0] == "yield"]
    recvs = [e for e in log if e[0] == "recv"]
    npieces = tuple(1 if rd["pieces"] is None else min(len(rd["pieces"]), MAX_PIECES + 1) for rd in acc.rounds)
    for rd in acc.rounds:
        n = 0 if rd["pieces"] is None else len(rd["pieces"])
        ctx.dist["drive:" + ("whole" if n == 0 else "pieces=1" if n == 1 else "pieces=2-5" if n <= 5 else "pieces=6-49" if n < 50 else "pieces=50")] += 1
    ctx.dist[f"drive:{kind}:" + ("exc" if exc else "ok")] += 1
    ctx.nontrivial.add(("drive", kind, bool(exc), npieces, tuple(len(y[2]) for y in yields)))

    def describe(i):
        rd = acc.rounds[i]
        how = "unfragmented" if rd["pieces"] is None else f"as {len(rd['pieces'])} fragment(s) of sizes {[len(p) for p in rd['pieces']][:8]}"
        return f"{kind} round trip {i + 1} (expected={yields[i][2] if i < len(yields) else '?'}): accessory answers with a {len(rd['payload'])}-byte pairing TLV {how}"

    # 1. what the state machine was handed: the items of the accessory's TLV (every expected type exactly, nothing invented)
    for i, rd in enumerate(acc.rounds):
        if i >= len(recvs) or i >= len(yields):
            break
        whole = ref_read(rd["payload"])
        want = {t: bytes(v) for t, v in whole}
        got = recvs[i][1]
        expected = yields[i][2]
        bad = None
        if not isinstance(got, dict):
            bad = f"the state machine was sent {got}"
        else:
            for t in expected:
                if got.get(t) != want.get(t):
                    bad = (f"type {t} is " + ("missing" if t not in got else f"{len(got[t])} bytes {hx(got[t])[:24]}") + ", the accessory sent "
                           + ("no such item" if t not in want else f"{len(want[t])} bytes {hx(want[t])[:24]}"))
                    break
            if bad is None:
                for t, v in got.items():
                    if want.get(t) != v:
                        bad = f"type {t} ({len(v)} bytes) was handed to the state machine but is not what the accessory sent"
                        break
        if bad:
            ctx.violation("drive/wrong-result", f"{describe(i)}; the state machine received {sorted(got) if isinstance(got, dict) else got} after {1 + rd['acks']} write(s): {bad}", case)
            return
    # 2. the bytes the accessory was written: the canonical TLV8 encoding of the yielded request, one request per yield
    for i, rd in enumerate(acc.rounds):
        if i < len(yields) and rd["request"] != ref_write(yields[i][1]):
            ctx.violation("drive/request-bytes", f"{kind} round trip {i + 1}: the accessory was written {hx(rd['request'])[:80]} ({len(rd['request'])} bytes), the TLV8 encoding of the request is {hx(ref_write(yields[i][1]))[:80]}", case)
            return
    # 3. every fragment fetched with exactly one empty-FragmentData acknowledgement, no response used twice or dropped
    for i, rd in enumerate(acc.rounds):
        if rd["pieces"] is not None and (rd["abandoned"] or rd["handed"] != len(rd["pieces"]) or rd["acks"] != len(rd["pieces"]) - 1):
            ctx.violation("drive/ack-count", f"{describe(i)}; the controller fetched {rd['handed']} of them with {rd['acks']} acknowledgement(s)", case)
            return
    if acc.anomalies:
        ctx.violation("drive/ack-count", f"{kind}: {acc.anomalies[0]}", case)
        return
    # 4. outcome of the exchange with a conformant accessory
    if judge(None) == "skip":
        ctx.dist["drive:setup2-srp-proof-rejected(not judged)"] += 1
        return
    if exc:
        ctx.violation("drive/" + exc.split(":")[0], f"{kind} exchange of {len(acc.plans)} round trip(s) with a conformant accessory ended with {exc}", case)
        return
    if len(acc.rounds) != len(yields) or len(recvs) != len(yields):
        ctx.violation("drive/ack-count", f"{kind}: state machine yielded {len(yields)} request(s), accessory saw {len(acc.rounds)}, state machine was answered {len(recvs)} time(s)", case)
        return
    verdict = judge(result)
    if verdict:
        ctx.violation("drive/wrong-result", f"{kind}: {verdict}", case)


def gen_plan(rng, L):
    mode = rng.randrange(7)
    if mode == 0:
        return {"mode": "whole"}
    if mode <= 4:
        if L <= 48 and rng.random() < 0.7:
            k = rng.choice([1, 1, 2, 3, 5])
        else:
            k = rng.choice([-(-L // 50), -(-L // 49), 20, 50, 100, 180, 254, 255, 256, 257, 300, 512, max(L - 1, 1), L, L + 1])
        return {"mode": "size", "k": max(k, 1), "empty": rng.choice([None, None, None, "first", "mid", "last"])}
    n = rng.choice([1, 2, 3, 6, 20, 49])
    fr = [rng.randrange(0, 1001) for _ in range(n)]
    if rng.random() < 0.3:
        fr.append(rng.choice(fr))  # an empty fragment in the middle
    if rng.random() < 0.2:
        fr.append(1000)  # empty FragmentLast
    return {"mode": "cuts", "fracs": fr}


def gen_drive_cases(ctx: Ctx):
    rng = ctx.rng

    def base(kind):
        return {"stream": "drive", "kind": kind, "mtu": rng.choice(MTUS), "resp_mtu": rng.choice(MTUS), "wwr": rng.random() < 0.3,
                "iid": rng.choice([1, 16, 255, 256, 65535])}

    def one(resp, expected, plan):
        c = base("synthetic")
        c["rounds"] = [{"request": [[6, "01"], [0, "00"]], "expected": expected, "response": [[t, hx(v)] for t, v in resp], "plan": plan}]
        return c

    # every fragment size from 1 byte up for a short response, boundary sizes for a pair-setup sized one
    small = [(6, b"\x02"), (3, bytes(range(40)))]
    for k in range(1, 47):
        yield one(small, [6, 7, 3, 2], {"mode": "size", "k": k, "empty": None})
    big = [(6, b"\x02"), (3, bytes((i * 7 + 3) % 256 for i in range(384))), (2, bytes(range(16)))]
    for k in (9, 10, 100, 180, 253, 254, 255, 256, 257, 408, 409, 410):
        yield one(big, [6, 7, 3, 2], {"mode": "size", "k": k, "empty": rng.choice([None, "first", "mid", "last"])})
    yield one(big, [6, 7, 3, 2], {"mode": "whole"})
    # the real state machines against the reference accessory
    for kind, n, rounds in (("setup1", ctx.budget(16, 300), 1), ("verify", ctx.budget(16, 300), 2), ("setup2", ctx.budget(5, 60), 2)):
        lens = {"setup1": [409], "verify": [140, 3], "setup2": [69, 160]}[kind]
        for _ in range(n):
            c = base(kind)
            c.update(seed=rng.randrange(1 << 30), extra=rng.random() < 0.3, with_auth=rng.random() < 0.5,
                     plans=[gen_plan(rng, lens[i]) for i in range(rounds)])
            yield c
    # synthetic state machines: several round trips, real and random expected lists, items inside and outside of them
    for _ in range(ctx.budget(260, 6000)):
        c = base("synthetic")
        c["rounds"] = []
        tiny = rng.random() < 0.35
        for _ in range(rng.choice([1, 1, 2, 3, 4])):
            expected = list(rng.choice(REAL_EXPECTED)) if rng.random() < 0.7 else rng.sample([0, 1, 2, 3, 4, 5, 6, 7, 8, 9, 10, 11, 14, 19], rng.randrange(1, 6))
            req, last = [], None
            for _ in range(rng.randrange(1, 5)):
                t = rng.choice([x for x in (0, 1, 2, 3, 4, 5, 6, 9, 10, 11, 14) if x != last])
                last = t
                req.append([t, hx(val(rng, rng.choice([0, 1, 1, 2, 8, 32, 64, 255, 256, 384, 600])))])
            resp, last = [], None
            for _ in range(rng.choice([0, 1, 2, 2, 3, 3, 4])):
                pool = expected if rng.random() < 0.75 else [0, 1, 9, 10, 11, 14, 19, 255]
                t = rng.choice(pool)
                if t == last:
                    continue
                last = t
                ln = 0 if t == 255 else rng.choice([0, 1, 1, 2, 5, 16] if tiny else [0, 1, 2, 16, 32, 64, 100, 254, 255, 256, 384, 510, 600])
                resp.append([t, hx(val(rng, ln))])
            L = len(ref_write([(t, unhex(v)) for t, v in resp]))
            c["rounds"].append({"request": req, "expected": expected, "response": resp, "plan": gen_plan(rng, L)})
        yield c


def run_drive_stream(ctx, stop_at_first=False):
    first = None
    for case in gen_drive_cases(ctx):
        if first is None:
            first = case
        run_drive(ctx, case)
        if stop_at_first and ctx.violations:
            return
    if first is not None:
        ctx.sample(first)


# ---- the run
def check_enc(ctx, items, out):
    ctx.evaluations += 1
    shape = tuple((t, min(len(v), 800)) for t, v in items)
    if out.startswith("exc"):
        ctx.violation("enc/" + out.split()[1], f"encode_list raised {out} on {show_items(items)[:200]}", {"stream": "enc", "items": [[t, hx(v)] for t, v in items]})
        return
    sep_with_data = any(t == 255 and len(v) for t, v in items)
    if sep_with_data:
        if out != "err value":
            ctx.violation("enc/separator-data", "separator with data accepted", {"stream": "enc", "items": [[t, hx(v)] for t, v in items]})
        return
    ctx.nontrivial.add(("enc", shape))
    enc = bytes.fromhex(out[3:]) if out[3:] != "-" else b""
    if enc != ref_write(items):
        ctx.violation("enc/not-canonical", f"encoding of {show_items(items)[:200]} is not the canonical TLV8 form", {"stream": "enc", "items": [[t, hx(v)] for t, v in items]})
        return
    if wf(items):
        back = impl_dec(enc, None)
        if back != "ok " + show_items(items):
            ctx.violation("enc/roundtrip", f"decode(encode(l)) != l for {show_items(items)[:200]}: {back[:200]}", {"stream": "enc", "items": [[t, hx(v)] for t, v in items]})


def check_dec(ctx, bs, expected, out):
    ctx.evaluations += 1
    case = {"stream": "dec", "bytes": hx(bs), "expected": expected}
    if out.startswith("exc"):
        ctx.violation("dec/" + out.split()[1], f"decode raised {out.split()[1]} (not the codec's parse error) on {hx(bs)[:120]}", case)
        return
    ref = ref_read(bs, expected)
    want = "err parse" if ref is None else "ok " + show_items(ref)
    ctx.nontrivial.add(("dec", out[:3], len(bs) if len(bs) < 8 else 8 + len(bs) // 64, expected is not None and tuple(expected)))
    if out != want:
        ctx.violation("dec/wrong-result", f"decode({hx(bs)[:120]}, expected={expected}) = {out[:160]} but a conformant reader gives {want[:160]}", case)


def run(ctx: Ctx, driver: Driver):
    # corpus first (past failures)
    for c in load_corpus(ID):
        run_case(ctx, driver, c, record=True)
    # stream enc
    cases, outs, lines = [], [], []
    for items in gen_item_lists(ctx):
        out = impl_enc(items)
        check_enc(ctx, items, out)
        cases.append({"stream": "enc", "items": [[t, hx(v)] for t, v in items]})
        outs.append(out)
        lines.append("tlv.enc " + " ".join(f"{t} {hx(v)}" for t, v in items))
        ctx.dist["enc:" + out.split()[0]] += 1
    ctx.sample(cases[len(cases) // 2])
    compare_with_model(ctx, "enc", cases, outs, lines, driver)
    # stream dec
    cases, outs, lines = [], [], []
    for i, (bs, expected) in enumerate(gen_byte_strings(ctx)):
        out = impl_dec(bs, expected, use_bytearray=(i % 2 == 1))
        check_dec(ctx, bs, expected, out)
        cases.append({"stream": "dec", "bytes": hx(bs), "expected": expected})
        outs.append(out)
        lines.append(f"tlv.dec {exp_str(expected)} {hx(bs)}")
        ctx.dist["dec:" + " ".join(out.split()[:2] if out.startswith("err") else out.split()[:1])] += 1
    ctx.sample(cases[-1])
    compare_with_model(ctx, "dec", cases, outs, lines, driver)
    # stream reasm
    cases, outs, lines = [], [], []
    for resps in gen_reasm(ctx):
        out = impl_reasm(resps)
        ctx.evaluations += 1
        case = {"stream": "reasm", "responses": [hx(r) for r in resps]}
        check_reasm(ctx, resps, out, case)
        cases.append(case)
        outs.append(out)
        lines.append("tlv.reasm " + " ".join(hx(r) for r in resps))
        ctx.dist["reasm:" + out.split()[0]] += 1
        ctx.nontrivial.add(("reasm", out.split()[0], min(len(resps), 52)))
    ctx.sample(cases[0])
    compare_with_model(ctx, "reasm", cases, outs, lines, driver, canon=canon_reasm)
    # stream drive (oracle only: the real driver and PDU layer against the scripted accessory)
    run_drive_stream(ctx)


def run_case(ctx, driver, c, record=False):
    """run one stored case through implementation, oracle and model; returns a description if it fails"""
    before = len(ctx.violations)
    nm = len(ctx.mismatches)
    if c["stream"] == "enc":
        items = [(t, bytes.fromhex(v) if v != "-" else b"") for t, v in c["items"]]
        out = impl_enc(items)
        check_enc(ctx, items, out)
        compare_with_model(ctx, "enc", [c], [out], ["tlv.enc " + " ".join(f"{t} {hx(v)}" for t, v in items)], driver)
    elif c["stream"] == "dec":
        bs = bytes.fromhex(c["bytes"]) if c["bytes"] != "-" else b""
        out = impl_dec(bs, c.get("expected"))
        check_dec(ctx, bs, c.get("expected"), out)
        compare_with_model(ctx, "dec", [c], [out], [f"tlv.dec {exp_str(c.get('expected'))} {hx(bs)}"], driver)
    elif c["stream"] == "drive":
        run_drive(ctx, c)
    else:
        resps = [bytes.fromhex(r) if r != "-" else b"" for r in c["responses"]]
        out = impl_reasm(resps)
        check_reasm(ctx, resps, out, c)
        compare_with_model(ctx, "reasm", [c], [out], ["tlv.reasm " + " ".join(hx(r) for r in resps)], driver, canon=canon_reasm)
    if len(ctx.violations) > before:
        return ctx.violations[-1]["what"]
    if len(ctx.mismatches) > nm:
        return "model/implementation mismatch: " + str(ctx.mismatches[-1])[:300]
    return None


def replay(ctx, driver, case):
    return run_case(ctx, driver, case)


def search(ctx: Ctx, driver: Driver, broken):
    """tie broken and no violation yet: oracle-only search with a 10x budget on the implementation"""
    ctx.tier = "thorough"
    for items in gen_item_lists(ctx):
        check_enc(ctx, items, impl_enc(items))
        if ctx.violations:
            return
    for bs, expected in gen_byte_strings(ctx):
        check_dec(ctx, bs, expected, impl_dec(bs, expected))
        if ctx.violations:
            return
    for resps in gen_reasm(ctx):
        check_reasm(ctx, resps, impl_reasm(resps), {"stream": "reasm", "responses": [hx(r) for r in resps]})
        if ctx.violations:
            return
    run_drive_stream(ctx, stop_at_first=True)
