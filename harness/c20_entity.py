"""C20, second half: the accessory-database round trip and the write-through characteristic cache against the Lean
model `Model/EntityMap.lean` (theorems C20_char_* / C20_accessory_* / C20_cache_* in Props/C20.lean).

Called from harness/c20.py (`run_entity(ctx, driver)`).  Three correspondence streams + implementation-level oracles:

  em-char   one characteristic dictionary -> Accessory.create_from_dict -> attributes; serialise; load again
  em-acc    whole accessory dictionaries (service iids 0 / duplicated / dangling links included)
  em-cache  histories of CharacteristicCacheFile operations with restarts and lost/corrupted files

Oracle (from the property, for dictionaries that satisfy the theorem's hypotheses `Clean` + `BoolPlain`, and for every
repository fixture): load(serialise(load(d))) has the same attributes as load(d) - the reference is the harness's own
attribute-by-attribute comparison, not the model.
"""
from __future__ import annotations

import json
import math
import os
import pathlib
import tempfile
from fractions import Fraction

from harness.common import REPO, Ctx, Driver, compare_with_model

from aiohomekit.characteristic_cache import CharacteristicCacheFile
from aiohomekit.model import Accessories, Accessory
from aiohomekit.model.characteristics.data import characteristics as TABLE
from aiohomekit.uuid import normalize_uuid

ATTRS = ["format", "_value", "ev", "description", "unit", "minValue", "maxValue", "minStep", "maxLen", "valid_values", "handle", "disconnected_events", "broadcast_events"]
DKEYS = ["format", "value", "ev", "description", "unit", "minValue", "maxValue", "minStep", "maxLen", "valid-values", "handle", "disconnected_events", "broadcast_events"]
MKEYS = ["format", "description", "unit", "min_value", "max_value", "min_step"]


def hx(s: str) -> str:
    b = s.encode()
    return b.hex() if b else "-"


def isnum(v):
    return isinstance(v, (int, float)) and not isinstance(v, bool) and (not isinstance(v, float) or math.isfinite(v))


class Others:
    """opaque values are numbered per case so that model and implementation name them alike"""

    def __init__(self):
        self.ids = {}

    def tok(self, v):
        if v == {} and isinstance(v, dict):
            return "o0.0"
        k = repr(v)
        if k not in self.ids:
            self.ids[k] = len(self.ids) + 1
        return f"o{1 if v else 0}.{self.ids[k]}"


def jtok(v, oth: Others) -> str:
    if v is None:
        return "n"
    if isinstance(v, bool):
        return "b1" if v else "b0"
    if isnum(v):
        f = Fraction(v)
        return f"q{f.numerator}/{f.denominator}"
    if isinstance(v, str):
        return "s" + hx(v)
    if isinstance(v, list) and all(isnum(x) for x in v):
        return "l" + ",".join(f"{Fraction(x).numerator}/{Fraction(x).denominator}" for x in v)
    return oth.tok(v)


def perms_tok(p):
    return ",".join(hx(x) for x in p) if p else "."


def meta_tok(ntype, oth):
    row = TABLE.get(ntype)
    if row is None:
        return "-"
    return "|".join(jtok(row[k], oth) if k in row else "-" for k in MKEYS)


def char_tok(cd: dict, oth: Others) -> str:
    nt = normalize_uuid(cd["type"])
    parts = [hx(cd["type"]), hx(nt), meta_tok(nt, oth), str(cd["iid"]), perms_tok(cd["perms"])]
    parts += [jtok(cd[k], oth) if k in cd else "-" for k in DKEYS]
    return ";".join(parts)


def obj_tok(c, oth: Others) -> str:
    return ";".join([hx(c.type), str(c.iid), perms_tok(c.perms)] + [jtok(getattr(c, a), oth) for a in ATTRS])


def dict_tok(d: dict, oth: Others) -> str:
    return ";".join([hx(d["type"]), str(d["iid"]), perms_tok(d["perms"])] + [jtok(d[k], oth) if k in d else "-" for k in DKEYS])


def load_one(cd):
    acc = Accessory.create_from_dict({"aid": 1, "services": [{"iid": 1, "type": "3E", "characteristics": [cd]}]})
    return list(acc.services)[0].characteristics[0] if hasattr(list(acc.services)[0].characteristics, "__getitem__") else next(iter(list(acc.services)[0].characteristics))


def first_char(acc):
    for s in acc.services:
        for c in s.characteristics:
            return c
    raise LookupError


def impl_char(cd, oth):
    try:
        c = first_char(Accessory.create_from_dict({"aid": 1, "services": [{"iid": 1, "type": "3E", "characteristics": [cd]}]}))
    except TypeError:
        return "err:TypeError", None, None
    except KeyError:
        return "err:KeyError", None, None
    d2 = c.to_accessory_and_service_list()
    try:
        c2 = first_char(Accessory.create_from_dict({"aid": 1, "services": [{"iid": 1, "type": "3E", "characteristics": [json.loads(json.dumps(d2))]}]}))
        again = obj_tok(c2, oth)
    except TypeError:
        c2, again = None, "err:TypeError"
    return f"{obj_tok(c, oth)} {dict_tok(d2, oth)} {again}", c, c2


# ---------------------------------------------------------------------------------------------- generators
KNOWN = [t for t in TABLE]
FORMATS = ["bool", "uint8", "uint16", "uint32", "uint64", "int", "float", "string", "tlv8", "data", "array", "dict"]


def gen_type(rng):
    r = rng.random()
    if r < 0.55:
        t = rng.choice(KNOWN)
        m = rng.randrange(4)
        if m == 0:
            return t
        if m == 1:
            return t.lower()
        short = t[:8].lstrip("0") or "0"
        return short if m == 2 else short.lower()
    if r < 0.8:
        return "%08X-0000-1000-8000-0026BB765291" % rng.randrange(0x300, 0x400)  # Apple-style, not in the table
    return "E863F%03X-079E-48FF-8F27-9C2605A29F52" % rng.randrange(0x1000)  # vendor


def gen_num(rng):
    return rng.choice([0, 1, -1, 5, 100, 0.0, 0.5, -40.5, 0.1, 2 ** 32, -2 ** 31, 10, 35, 1e-3])


def gen_value(rng, fmt):
    r = rng.random()
    if r < 0.1:
        return None
    if fmt == "bool" and r < 0.8:
        return rng.choice([True, False, 0, 1])
    if fmt in ("uint8", "uint16", "uint32", "uint64", "int") and r < 0.8:
        return rng.choice([0, 1, 7, 255, 65535, 2 ** 40, -3])
    if fmt == "float" and r < 0.8:
        return rng.choice([0.0, 21.5, -3.25, 1e9, 0.1])
    if fmt in ("string", "tlv8", "data") and r < 0.8:
        return rng.choice(["", "abc", "AQEB", "Kü", "0"])
    return rng.choice([0, "", "x", 3.5, True, False, [], [1, 2], {}, {"a": 1}, [[1]], 12])


def gen_char(rng, iid, clean=False):
    fmt_present = rng.random() < 0.9
    fmt = rng.choice(FORMATS)
    d = {"type": gen_type(rng), "iid": iid, "perms": rng.sample(["pr", "pw", "ev", "tw", "hd", "aa", "wr"], rng.randrange(0, 5))}
    if rng.random() < 0.7 and "pr" not in d["perms"]:
        d["perms"].insert(rng.randrange(len(d["perms"]) + 1), "pr")
    if fmt_present:
        d["format"] = fmt if (clean or rng.random() < 0.95) else None
    if rng.random() < 0.75:
        d["value"] = gen_value(rng, fmt)
    opt = lambda p: rng.random() < p  # noqa: E731
    if opt(0.3):
        d["description"] = rng.choice(["Brightness", "x y", "ü"] if clean else ["Brightness", "", None, "x y", "ü"])
    if opt(0.3):
        d["unit"] = rng.choice(["celsius", "percentage"] if clean else ["celsius", "", None, "percentage"])
    for k in ("minValue", "maxValue", "minStep"):
        if opt(0.4):
            d[k] = gen_num(rng) if (clean or rng.random() < 0.85) else rng.choice([None, True, False])
    if opt(0.15):
        d["maxLen"] = rng.choice([64, 256, 0, None])
    if opt(0.25):
        d["valid-values"] = rng.choice([[0, 1], [1, 2, 3], [3], [0.5, 1]] if clean else [[0, 1], [1, 2, 3], [], None, [3], 5, [0.5, 1]])
    if opt(0.2):
        d["handle"] = rng.choice([None, 0, 17, 4096])
    if opt(0.2):
        d["disconnected_events"] = rng.choice([None, True, False])
    if opt(0.2):
        d["broadcast_events"] = rng.choice([None, True, False])
    if opt(0.1):
        d["ev"] = rng.choice([True, False, None])
    if clean:
        # the hypotheses of C20_char_restart: no value on a characteristic that cannot be read, a bool characteristic has no range
        if "pr" not in d["perms"]:
            d.pop("value", None)
        if d.get("format", TABLE.get(normalize_uuid(d["type"]), {}).get("format")) == "bool":
            for k in ("minValue", "maxValue", "valid-values"):
                d.pop(k, None)
            row = TABLE.get(normalize_uuid(d["type"]), {})
            if row.get("min_value") or row.get("max_value"):
                d["format"] = "uint8"
    return d


def is_clean(d):
    """the decidable content of `Clean d` (Lean) for a characteristic dictionary"""
    for k in ("description", "unit"):
        if k in d and not d[k]:
            return False
    for k in ("minValue", "maxValue", "minStep"):
        if k in d and d[k] is None:
            return False
    if d.get("value") is not None and "pr" not in d["perms"]:
        return False
    return True


def bool_plain(c):
    return c.format != "bool" or not (c.valid_values or c.minValue or c.maxValue)


def same_attrs(a, b):
    return [x for x in ["type", "iid", "perms"] + ATTRS if getattr(a, x) != getattr(b, x) or type(getattr(a, x)) is not type(getattr(b, x)) and isinstance(getattr(a, x), bool) != isinstance(getattr(b, x), bool)]


def gen_accessory(rng, clean=False):
    ns = rng.randrange(1, 5)
    iids = []
    nxt = 1
    svcs = []
    for _ in range(ns):
        if clean or rng.random() < 0.85:
            iid = nxt
        else:
            iid = rng.choice([0, iids[-1] if iids else 0, nxt])
        iids.append(iid)
        nxt += 1
        chars = []
        for _ in range(rng.randrange(0, 4)):
            chars.append(gen_char(rng, nxt, clean=clean))
            nxt += 1
        svcs.append({"iid": iid, "type": rng.choice(["3E", "43", "0000004a-0000-1000-8000-0026bb765291", "E863F007-079E-48FF-8F27-9C2605A29F52"]), "characteristics": chars})
    for s in svcs:
        r = rng.random()
        if r < 0.4:
            continue
        pool = [i for i in iids if i] if clean else iids + [0, 99]
        if r < 0.5 and not clean:
            s["linked"] = []
        elif pool:
            s["linked"] = [rng.choice(pool) for _ in range(rng.randrange(1, 4))]
    return {"aid": rng.choice([1, 2, 7]), "services": svcs}


def acc_tok(ad, oth):
    out = [str(ad["aid"])]
    for s in ad["services"]:
        linked = "-" if "linked" not in s else ("." if not s["linked"] else ",".join(str(x) for x in s["linked"]))
        chars = "+".join(char_tok(c, oth) for c in s["characteristics"]) or "."
        out.append(f"{s['iid']}:{hx(s['type'])}:{hx(normalize_uuid(s['type']))}:{linked}:{chars}")
    return "~".join(out)


def impl_acc(ad, oth):
    try:
        a = Accessory.create_from_dict(ad)
    except KeyError:
        return "err:KeyError", None
    except TypeError:
        return "err:TypeError", None
    out = [str(a.aid)]
    for s in a.services:
        linked = ",".join(str(x.iid) for x in s.linked) or "."
        chars = "+".join(obj_tok(c, oth) for c in s.characteristics) or "."
        out.append(f"{s.iid}:{hx(s.type)}:{linked}:{chars}")
    return "~".join(out), a


def canon_cache(s):
    return " ".join(",".join(sorted(x.split(","))) for x in s.split(" "))


def run_entity(ctx: Ctx, driver: Driver):
    rng = ctx.rng
    # ---- the normaliser is idempotent on everything it is applied to (hypothesis `hn` of C20_char_restart)
    for t in KNOWN + [gen_type(rng) for _ in range(200)]:
        n = normalize_uuid(t)
        if normalize_uuid(n) != n:
            ctx.violation("entity/normalize-not-idempotent", f"normalize_uuid({t!r}) = {n!r} is not a fixed point", {"stream": "em-char", "type": t})
    # ---- one characteristic
    cases, outs, lines = [], [], []
    n_clean = 0
    for i in range(ctx.budget(700, 12000)):
        clean = rng.random() < 0.5
        cd = gen_char(rng, rng.choice([1, 9, 12, 4096]), clean=clean)
        oth = Others()
        tok = char_tok(cd, oth)
        out, c, c2 = impl_char(cd, oth)
        ctx.evaluations += 1
        case = {"stream": "em-char", "dict": cd}
        ctx.nontrivial.add(("em-char", cd.get("format"), "pr" in cd["perms"], tuple(sorted(k for k in DKEYS if k in cd)), out.startswith("err")))
        ctx.dist["em-char:" + ("error" if c is None else "clean" if is_clean(cd) and bool_plain(c) else "outside-hypotheses")] += 1
        if c is not None and is_clean(cd) and bool_plain(c):
            n_clean += 1
            if c2 is None:
                ctx.violation("entity/reload-raised", f"the serialised characteristic does not load again: {cd}", case)
            else:
                diff = same_attrs(c, c2)
                if diff:
                    ctx.violation("entity/char-restart", f"characteristic {cd}: attributes {diff} differ after serialise + load: " + ", ".join(f"{a}: {getattr(c, a)!r} -> {getattr(c2, a)!r}" for a in diff[:3]), case)
        cases.append(case)
        outs.append(out)
        lines.append("em.char " + tok)
    ctx.notes.append(f"em-char: {n_clean} dictionaries inside the hypotheses of C20_char_restart (Clean + BoolPlain), all must round-trip; the rest only feeds the correspondence")
    compare_with_model(ctx, "em-char", cases, outs, lines, driver)
    # the excluded points of the theorem, on the real code (observations, not violations)
    for name, cd, attr in (("empty description on a type the table describes", {"type": "8", "iid": 9, "perms": ["pr"], "format": "int", "value": 4, "description": ""}, "description"),
                           ("value on a characteristic without the read permission", {"type": "8", "iid": 9, "perms": ["pw"], "format": "int", "value": 4}, "_value"),
                           ("explicit null minValue on a type with a table minimum", {"type": "8", "iid": 9, "perms": ["pr"], "format": "int", "value": 4, "minValue": None}, "minValue")):
        _, c, c2 = impl_char(cd, Others())
        ctx.notes.append(f"excluded point ({name}): {attr} {getattr(c, attr)!r} -> {getattr(c2, attr)!r} after serialise + load")
    # ---- whole accessories
    cases, outs, lines = [], [], []
    for i in range(ctx.budget(300, 5000)):
        clean = rng.random() < 0.5
        ad = gen_accessory(rng, clean=clean)
        oth = Others()
        out, a = impl_acc(ad, oth)
        ctx.evaluations += 1
        case = {"stream": "em-acc", "dict": ad}
        ctx.nontrivial.add(("em-acc", len(ad["services"]), tuple(len(s.get("linked", [])) for s in ad["services"]), out.startswith("err")))
        ctx.dist["em-acc:" + ("error" if a is None else "clean" if clean else "any")] += 1
        if a is not None and clean and all(is_clean(c) for s in ad["services"] for c in s["characteristics"]) and all(bool_plain(c) for s in a.services for c in s.characteristics):
            # C20_accessory_roundtrip: services, ids, types, links and every characteristic come back
            try:
                b = Accessory.create_from_dict(json.loads(json.dumps(a.to_accessory_and_service_list())))
                sa, sb = list(a.services), list(b.services)
                if len(sa) != len(sb) or any((x.iid, x.type, [l.iid for l in x.linked]) != (y.iid, y.type, [l.iid for l in y.linked]) for x, y in zip(sa, sb)):
                    ctx.violation("entity/service-restart", f"services/links differ after serialise + load: {[(x.iid, [l.iid for l in x.linked]) for x in sa]} -> {[(y.iid, [l.iid for l in y.linked]) for y in sb]}", case)
                for x, y in zip(sa, sb):
                    for cx, cy in zip(x.characteristics, y.characteristics):
                        diff = same_attrs(cx, cy)
                        if diff:
                            ctx.violation("entity/char-restart", f"accessory: characteristic {cx.iid} attributes {diff} differ after serialise + load", case)
            except Exception as e:  # noqa: BLE001
                ctx.violation("entity/reload-raised", f"the serialised accessory does not load again: {type(e).__name__}: {e}", case)
        cases.append(case)
        outs.append(out)
        lines.append("em.acc " + acc_tok(ad, oth))
    compare_with_model(ctx, "em-acc", cases, outs, lines, driver)
    # ---- the write-through cache
    cases, outs, lines = [], [], []
    with tempfile.TemporaryDirectory() as td:
        for i in range(ctx.budget(120, 2500)):
            path = pathlib.Path(td) / f"cache{i}.json"
            cache = CharacteristicCacheFile(path)
            ops, snaps = [], []
            ids = ["aa:bb", "AA:BB", "Kü:01", "00:00:00:00:00:01"]
            ref = {}
            for _ in range(rng.randrange(1, 9)):
                r = rng.random()
                if r < 0.45:
                    k, n = rng.choice(ids), rng.randrange(1, 50)
                    cache.async_create_or_update_map(k, n, [{"aid": n}], rng.choice([None, "ab" * 32]), rng.choice([None, n + 1]))
                    ops.append(f"p:{hx(k)}:{n}")
                    ref[k] = n
                elif r < 0.6:
                    k = rng.choice(ids)
                    cache.async_delete_map(k)
                    ops.append(f"d:{hx(k)}")
                    ref.pop(k, None)
                elif r < 0.85:
                    cache = CharacteristicCacheFile(path)
                    ops.append("r")
                    if path.exists() and ops.count("x") == 0 and {k: v["config_num"] for k, v in cache.storage_data.items()} != ref:
                        ctx.violation("cache/restart-differs", f"after {ops} a restart sees {sorted(cache.storage_data)} but {sorted(ref)} were stored", {"stream": "em-cache", "ops": ops})
                else:
                    if path.exists():
                        raw = path.read_bytes()
                        m = rng.randrange(3)
                        if m == 0:
                            path.write_bytes(raw[:rng.randrange(0, max(len(raw) - 1, 1))])
                        elif m == 1:
                            path.write_bytes(b"\x00garbage{" + raw[:5])
                        else:
                            os.unlink(path)
                    ops.append("x")
                    # what a restart finds now is a cold cache; the running process keeps its memory
                try:
                    snaps.append(",".join(sorted(f"{hx(k)}={v['config_num']}" for k, v in cache.storage_data.items())) or ".")
                except Exception as e:  # noqa: BLE001
                    snaps.append("exc:" + type(e).__name__)
            ctx.evaluations += 1
            ctx.nontrivial.add(("em-cache", tuple(o[0] for o in ops)))
            ctx.dist["em-cache"] += 1
            cases.append({"stream": "em-cache", "ops": ops})
            outs.append(" ".join(snaps))
            lines.append("em.cache " + " ".join(ops))
    compare_with_model(ctx, "em-cache", cases, outs, lines, driver, canon=canon_cache)
    # ---- every repository fixture through the model (the fixtures are real accessory databases)
    cases, outs, lines = [], [], []
    for fx in sorted(pathlib.Path(REPO, "tests", "fixtures").glob("*.json")):
        try:
            data = json.loads(fx.read_text())
        except ValueError:
            continue
        if not (isinstance(data, list) and data and isinstance(data[0], dict) and "services" in data[0]):
            continue
        for ad in data[:ctx.budget(2, 50)]:
            oth = Others()
            try:
                tok = acc_tok(ad, oth)
            except (KeyError, TypeError):
                continue
            out, a = impl_acc(ad, oth)
            ctx.evaluations += 1
            ctx.dist["em-acc:fixture"] += 1
            cases.append({"stream": "em-acc", "fixture": fx.name, "aid": ad.get("aid")})
            outs.append(out)
            lines.append("em.acc " + tok)
    compare_with_model(ctx, "em-acc", cases, outs, lines, driver)


def replay_entity(ctx: Ctx, driver: Driver, c):
    if c.get("stream") == "em-char":
        oth = Others()
        out, a, b = impl_char(c["dict"], oth)
        compare_with_model(ctx, "em-char", [c], [out], ["em.char " + char_tok(c["dict"], oth)], driver)
        if a is not None and is_clean(c["dict"]) and bool_plain(a):
            if b is None:
                return "the serialised characteristic does not load again"
            d = same_attrs(a, b)
            if d:
                return f"attributes {d} differ after serialise + load"
        return None
    if c.get("stream") == "em-acc" and "dict" in c:
        oth = Others()
        out, a = impl_acc(c["dict"], oth)
        compare_with_model(ctx, "em-acc", [c], [out], ["em.acc " + acc_tok(c["dict"], oth)], driver)
        return None
    return None
