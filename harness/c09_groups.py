"""C09: the payloads of IpPairing._update_subscriptions against the Lean model `Request.groupByAid`
(theorems C09_subscribe_payloads_flatten / C09_subscribe_payload_single_aid).

The real `_update_subscriptions(characteristics, ev)` is called on a pairing whose connection records every
`put_json` document; the concatenation of the recorded payload lists must be the argument (each id once, in the caller's order)
and the grouping must be the model's.
"""
from __future__ import annotations

import asyncio

from harness.common import Ctx, Driver, compare_with_model

from aiohomekit.controller.ip.pairing import IpPairing


class _Conn:
    def __init__(self):
        self.docs = []

    async def put_json(self, target, body):
        self.docs.append((target, body))
        return {}


def run_groups(ctx: Ctx, driver: Driver):
    rng = ctx.rng
    loop = asyncio.new_event_loop()
    cases, outs, lines = [], [], []
    try:
        for n in range(ctx.budget(300, 5000)):
            ids = [(rng.choice([1, 1, 2, 3, 70000]), rng.choice([9, 10, 11, 12, 4096])) for _ in range(rng.randrange(0, 9))]
            if rng.random() < 0.3:
                ids.sort()
            ev = rng.random() < 0.5
            p = IpPairing.__new__(IpPairing)
            p.connection = _Conn()
            arg = (list, tuple)[n % 2](ids)
            case = {"stream": "groups", "ids": ids, "ev": ev}
            try:
                loop.run_until_complete(p._update_subscriptions(arg, ev))
            except Exception as e:  # noqa: BLE001
                ctx.violation("request/subscribe-groups/raised", f"_update_subscriptions({ids}, {ev}) raised {type(e).__name__}: {e}", case)
                continue
            ctx.evaluations += 1
            ctx.nontrivial.add(("groups", tuple(a for a, _ in ids)))
            ctx.dist["subscribe-groups"] += 1
            groups = []
            bad = False
            for target, doc in p.connection.docs:
                rows = doc.get("characteristics", [])
                if target != "/characteristics" or set(doc) != {"characteristics"} or any(set(r) != {"aid", "iid", "ev"} or r["ev"] is not ev for r in rows):
                    bad = True
                groups.append([(r["aid"], r["iid"]) for r in rows])
            flat = [k for g in groups for k in g]
            # oracle from the property: exactly the ids of the call, each once, in the caller's order; one aid per request
            if bad or flat != ids or any(len({a for a, _ in g}) != 1 for g in groups):
                ctx.violation("request/subscribe-ids", f"_update_subscriptions({ids}, ev={ev}) put {groups} on the wire", case)
            cases.append(case)
            outs.append("|".join(",".join(f"{a}.{i}" for a, i in g) for g in groups) or "-")
            lines.append("rq.groups " + " ".join(f"{a}.{i}" for a, i in ids))
    finally:
        loop.close()
    compare_with_model(ctx, "groups", cases, outs, lines, driver)
