"""Entry point: ./check Cxx [--tier quick|thorough] [--replay file]"""
from __future__ import annotations

import argparse
import fnmatch
import importlib
import json
import os
import sys
import time
import traceback

sys.path.insert(0, os.path.dirname(os.path.dirname(os.path.abspath(__file__))))

from harness import common  # noqa: E402

import logging  # noqa: E402

logging.disable(logging.CRITICAL)


def main():
    ap = argparse.ArgumentParser()
    ap.add_argument("pid")
    ap.add_argument("--tier", default=os.environ.get("VERIF_TIER", "quick"))
    ap.add_argument("--replay")
    ap.add_argument("--no-lean", action="store_true", help="debug: skip the Lean build/audit")
    a = ap.parse_args()
    pid = a.pid.upper()
    tier = a.tier if a.tier in ("quick", "thorough") else "quick"
    try:
        seed = int(os.environ.get("VERIF_SEED", "0"))
    except ValueError:
        seed = 0
    mod = importlib.import_module(f"harness.{pid.lower()}")
    ctx = common.Ctx(pid, tier, seed)

    if a.replay:
        with open(a.replay) as f:
            payload = json.load(f)
        driver = common.Driver()
        rc = 0
        for v in payload.get("violations", []):
            if "case" in v and v["case"] is not None:
                r = mod.replay(ctx, driver, v["case"])
                print(json.dumps({"case": v["case"], "result": r}, default=str)[:4000])
                if r:
                    rc = 1
        if payload.get("broken"):
            print("replay: this file names proof obligations / correspondences that no longer check:")
            print(json.dumps(payload["broken"], indent=1)[:4000])
            rc = 1
        return rc

    if a.no_lean:
        lean = common.LeanResult()
        lean.theorems = ["skipped"]
    else:
        lean = common.lean_build_and_audit(pid, tier)
    driver = common.Driver()
    if not lean.driver_ok:
        driver.available = False
    broken = []
    try:
        mod.run(ctx, driver)
    except Exception as exc:
        # a crash of the harness is not a verdict about the property ...
        traceback.print_exc()
        tb = traceback.extract_tb(exc.__traceback__)
        repo = os.path.realpath(os.environ.get("VERIF_REPO", "/repo"))
        # the frame the last harness frame called: library code (which may itself have been deep inside the standard library)?
        last_h = max((i for i, f in enumerate(tb) if os.sep + "harness" + os.sep in f.filename), default=-1)
        inner = next((f for f in tb[last_h + 1:] if os.path.realpath(f.filename).startswith(repo + os.sep)), None) if last_h + 1 < len(tb) else None
        raised_by_library = (inner is not None and last_h + 1 < len(tb) and os.path.realpath(tb[last_h + 1].filename).startswith(repo + os.sep))
        if raised_by_library:
            # ... unless it is the LIBRARY that raised, on an input of one of the harness's streams, an exception the stream was
            # not prepared for: the correspondence could not be completed, i.e. the tie is broken (never on the unchanged tree,
            # where every stream runs to its end) - handled like every broken tie: search for a failing input, report either way
            hframes = [f for f in tb if "/harness/" in f.filename]
            broken.append({"kind": "correspondence-run", "detail": f"the library raised {type(exc).__name__}: {str(exc)[:300]} at {os.path.relpath(inner.filename, repo)}:{inner.lineno} "
                           f"({inner.name}) on an input of the harness stream running at {os.path.basename(hframes[-1].filename) if hframes else '?'}:{hframes[-1].lineno if hframes else '?'} "
                           f"({hframes[-1].name if hframes else '?'}); the stream could not be completed"})
            ctx.notes.append("a stream of the harness was cut short by an exception raised inside the library: recorded as a broken correspondence")
        elif not ctx.violations:
            print(f"HARNESS-ERROR property={pid}")
            return 2
        else:
            # ... but violations it had already established (each with its own replayable input) stand: misbehaving code is
            # exactly what makes harnesses trip
            ctx.notes.append("the harness stopped with an exception after recording the violations reported here")

    if not lean.translator_ok:
        broken.append({"kind": "translator", "detail": lean.translator_msg})
    if not lean.driver_ok:
        broken.append({"kind": "model-build", "detail": lean.build_log[-1500:]})
    for name, why in lean.bad:
        broken.append({"kind": "theorem", "name": name, "detail": why})
    if not lean.build_ok and not lean.bad:
        broken.append({"kind": "proof-build", "detail": lean.build_log[-1500:]})
    for f, tok in lean.forbidden:
        broken.append({"kind": "forbidden-token", "file": f, "token": tok})
    if ctx.mismatches:
        by = {}
        for m in ctx.mismatches:
            by.setdefault(m["stream"], []).append(m)
        for s, ms in by.items():
            broken.append({"kind": "correspondence", "stream": s, "count": len(ms), "first": ms[0]})

    if broken and not ctx.violations and hasattr(mod, "search"):
        # the tie is broken: look harder for a concrete failing input on the implementation
        try:
            mod.search(ctx, driver, broken)
        except Exception:
            traceback.print_exc()
    elif broken and not ctx.violations:
        # no property-specific search: run the harness's own generators and implementation-level oracles again with
        # another seed and four times the sample counts; only violations count, the correspondence is not consulted
        ctx2 = common.Ctx(pid, "search", seed + 7919)
        try:
            mod.run(ctx2, driver)
        except Exception:
            traceback.print_exc()
        ctx.violations.extend(ctx2.violations)
        ctx.evaluations += ctx2.evaluations
        ctx.notes.append(f"tie broken, no violation in the first pass: generic search with seed {seed + 7919} and 4x sample counts ran {ctx2.evaluations} more evaluations and found {len(ctx2.violations)} violation(s)")

    known = common.load_known(pid)
    new = []
    for v in ctx.violations:
        hit = next((k for k in known if fnmatch.fnmatch(v["signature"], k["signature"])), None)
        if hit:
            if hit["signature"] not in [h["signature"] for h in ctx.known_hit]:
                ctx.known_hit.append(hit)
        else:
            new.append(v)
    for k in ctx.known_hit:
        print(f"KNOWN-FINDING: property={pid} {k['signature']} - {k['what_fails']}")

    wall = time.time() - ctx.t0 + lean.wall
    violations = len(new) + (1 if (broken and not new) else 0)
    evidence = {
        "property_id": pid,
        "tier": tier,
        "seed": seed,
        "level": "proof",
        "coverage": {
            "obligations": lean.obligations,
            "discharged": lean.discharged,
            "checker_cmd": f"cd lean && lake build HapVerif.Props.{pid} && lake env lean <#print axioms of every theorem>" + (" && lake env leanchecker HapVerif.Props." + pid if tier == "thorough" else ""),
            "trusted_base": ["Lean 4.33.0 kernel", "axioms ⊆ {propext, Classical.choice, Quot.sound}", "tools/translate.py", "harness correspondence (differential) " + pid] + list(getattr(mod, "TRUSTED", [])),
            "theorems": lean.theorems,
            "axioms": lean.axioms,
            "leanchecker": lean.leanchecker,
            "evaluations": ctx.evaluations,
            "distinct_nontrivial": len(ctx.nontrivial),
            "rule": getattr(mod, "RULE", ""),
            "samples": ctx.samples[:8] or ["(none)"],
            "traces_validated_against_impl": ctx.traces,
            "correspondence_streams": dict(ctx.streams),
            "correspondence_mismatches": len(ctx.mismatches),
            "distribution": dict(ctx.dist),
            "known_findings_reproduced": [k["signature"] for k in ctx.known_hit],
            "violation_signatures": dict(__import__("collections").Counter(v["signature"] for v in ctx.violations)),
            "notes": ctx.notes,
            "explanation": getattr(mod, "EXPLANATION", ""),
        },
        "assumptions": list(getattr(mod, "ASSUMPTIONS", [])),
        "wall_s": round(wall, 2),
        "violations": violations,
    }
    os.makedirs(os.path.join(common.VERIF, "evidence"), exist_ok=True)
    with open(os.path.join(common.VERIF, "evidence", f"{pid}.json"), "w") as f:
        json.dump(evidence, f, indent=1, default=str)

    print(f"{pid} tier={tier} seed={seed} theorems={lean.discharged}/{lean.obligations} evaluations={ctx.evaluations} nontrivial={len(ctx.nontrivial)} "
          f"corr={ctx.traces} mismatches={len(ctx.mismatches)} violations={len(new)} known={len(ctx.known_hit)} wall={wall:.1f}s")
    if new:
        path = common.write_replay(pid, {"property": pid, "seed": seed, "tier": tier, "violations": new[:20], "broken": broken,
                                         "reproduce": f"./check {pid} --replay <this file>"})
        for v in new[:5]:
            print(f"  violation: {v['signature']}: {v['what']}"[:600])
        print(f"VIOLATION property={pid} replay={path}")
        return 1
    if broken:
        path = common.write_replay(pid, {"property": pid, "seed": seed, "tier": tier, "violations": [], "broken": broken,
                                         "note": "the proof obligations / correspondences listed under 'broken' no longer check against the current source; "
                                                 "the search on the implementation found no concrete failing input"})
        for b in broken[:5]:
            print("  broken: " + json.dumps(b, default=str)[:600])
        print(f"VIOLATION property={pid} replay={path} no-failing-input-found")
        return 1
    return 0


if __name__ == "__main__":
    sys.exit(main())
