"""Virtual-time asyncio loop + in-memory network, used to drive the real IP connection code
(HomeKitConnection / SecureHomeKitConnection / IpPairing) without sockets and without wall-clock waits.

* VLoop: a SelectorEventLoop whose clock jumps to the next timer when nothing is ready.
* FakeTransport: follows the asyncio transport contract the code relies on (close() -> connection_lost once,
  via call_soon; an exception escaping data_received closes the transport, as asyncio's selector transport does).
* Net: replaces aiohappyeyeballs.start_connection and loop.create_connection.
"""
from __future__ import annotations

import asyncio
import heapq
from contextlib import contextmanager
from unittest import mock


class VLoop(asyncio.SelectorEventLoop):
    def __init__(self):
        super().__init__()
        self._vt = 0.0

    def time(self):
        return self._vt

    def _run_once(self):
        while self._scheduled and self._scheduled[0]._cancelled:
            h = heapq.heappop(self._scheduled)
            h._scheduled = False
        if not self._ready and self._scheduled:
            when = self._scheduled[0]._when
            if when > self._vt:
                self._vt = when
        super()._run_once()


class FakeSock:
    def __init__(self, host, port=80):
        self.host = host
        self.port = port
        self.closed = False

    def getpeername(self):
        return (self.host, self.port, 0, 0) if ":" in self.host else (self.host, self.port)

    def setsockopt(self, *a):
        pass

    def close(self):
        self.closed = True


class FakeTransport(asyncio.Transport):
    def __init__(self, net, host, proto, loop):
        super().__init__()
        self.net = net
        self.host = host
        self.proto = proto
        self.loop = loop
        self.closing = False
        self.closed = False
        self.calls = []  # every write()/writelines() call, as the list of byte strings passed
        self.index = len(net.transports)
        net.transports.append(self)
        net.open.append(self)

    def set_protocol(self, p):
        self.proto = p

    def get_protocol(self):
        return self.proto

    def is_closing(self):
        return self.closing

    def get_extra_info(self, name, default=None):
        return default

    def write(self, data):
        if self.closing:
            return
        self.calls.append([bytes(data)])
        self.net.on_write(self, bytes(data))

    def writelines(self, lines):
        if self.closing:
            return
        lines = [bytes(x) for x in lines]
        self.calls.append(lines)
        self.net.on_write(self, b"".join(lines))

    def write_eof(self):
        pass

    def can_write_eof(self):
        return True

    def close(self):
        if self.closing:
            return
        self.closing = True
        self.loop.call_soon(self._lost, None)

    def abort(self):
        self.close()

    def _lost(self, exc):
        if self.closed:
            return
        self.closed = True
        self.closing = True
        if self in self.net.open:
            self.net.open.remove(self)
        self.net.log.append(("lost", self.index, self.loop.time()))
        try:
            self.proto.connection_lost(exc)
        except Exception as e:  # noqa: BLE001
            self.net.errors.append(("connection_lost", repr(e)))

    def peer_close(self):
        """the accessory closes the TCP connection"""
        if self.closed or self.closing:
            # already being closed locally: the loss callback is pending
            return
        try:
            self.proto.eof_received()
        except Exception as e:  # noqa: BLE001
            self.net.errors.append(("eof_received", repr(e)))
        self._lost(None)

    def feed(self, data):
        """bytes arrive from the accessory"""
        if self.closed or self.closing:
            return
        try:
            self.proto.data_received(data)
        except Exception as e:  # noqa: BLE001
            # asyncio: "Fatal error: protocol.data_received() call failed." -> transport is force-closed
            self.net.errors.append(("data_received", type(e).__name__))
            self.net.data_received_raised.append(type(e).__name__)
            # ... and connection_lost() is called with that exception (selector transports: _fatal_error -> _force_close(exc))
            if not self.closing:
                self.closing = True
                self.loop.call_soon(self._lost, e)

    def peer_reset(self):
        """the connection is lost abortively (TCP RST / network error): no EOF, connection_lost gets the OS error"""
        if self.closed or self.closing:
            return
        self._lost(ConnectionResetError(104, "Connection reset by peer"))


class Net:
    def __init__(self, loop):
        self.loop = loop
        self.open = []  # transports the accessory side still sees as open
        self.transports = []
        self.attempts = []  # (virtual time, [hosts])
        self.connect_outcomes = []  # scripted: 'ok' | 'refused' | 'timeout' | 'hang'
        self.handler = None  # on_write(transport, data)
        self.on_connect = None  # callback(transport)
        self.log = []
        self.errors = []
        self.data_received_raised = []
        self.in_flight = 0
        self.max_in_flight = 0

    async def start_connection(self, addr_infos, **kw):
        hosts = [a[3] for a in addr_infos]
        self.attempts.append((round(self.loop.time(), 6), hosts))
        self.in_flight += 1
        self.max_in_flight = max(self.max_in_flight, self.in_flight)
        try:
            out = self.connect_outcomes.pop(0) if self.connect_outcomes else "ok"
            if isinstance(out, tuple):
                out, pick = out
            else:
                pick = 0
            if out == "refused":
                raise ConnectionRefusedError("refused")
            if out == "timeout":
                await asyncio.sleep(3600)
            if out == "hang":
                await asyncio.sleep(10 ** 6)
            host = hosts[min(pick, len(hosts) - 1)]
            return FakeSock(host, addr_infos[0][4][1])
        finally:
            self.in_flight -= 1

    async def create_connection(self, factory, sock=None, **kw):
        proto = factory()
        t = FakeTransport(self, sock.host, proto, self.loop)
        proto.connection_made(t)
        if self.on_connect:
            self.on_connect(t)
        return t, proto

    def on_write(self, t, data):
        if self.handler:
            self.handler(t, data)

    @contextmanager
    def patched(self):
        import aiohomekit.controller.ip.connection as C
        with mock.patch.object(C.aiohappyeyeballs, "start_connection", self.start_connection), mock.patch.object(self.loop, "create_connection", self.create_connection):
            yield
