"""C09 - requests are written byte-for-byte in the canonical iOS form."""
from __future__ import annotations

import asyncio
import collections
import itertools
import json
import pathlib
import re
import shutil
import struct
import tempfile
import traceback
from unittest.mock import MagicMock

from cryptography.hazmat.primitives.asymmetric import ed25519
from cryptography.hazmat.primitives.ciphers.aead import ChaCha20Poly1305

from harness import refacc, simnet
from harness.acc import Accessory
from harness.common import Ctx, Driver, compare_with_model, hx, load_corpus

import aiohomekit.controller.ip.connection as ipc
from aiohomekit import hkjson
from aiohomekit.characteristic_cache import CharacteristicCacheFile, CharacteristicCacheMemory
from aiohomekit.controller.ip.discovery import IpDiscovery
from aiohomekit.controller.ip.pairing import IpPairing
from aiohomekit.http import HttpContentTypes
from aiohomekit.model import Accessories, AccessoriesState
from aiohomekit.model.categories import Categories
from aiohomekit.model.characteristics import CharacteristicsTypes
from aiohomekit.model.feature_flags import FeatureFlags
from aiohomekit.model.services import ServicesTypes
from aiohomekit.model.status_flags import StatusFlags
from aiohomekit.zeroconf import HomeKitService

ID = "C09"
RULE = ("raw get/put/post and the pairing API (get/put characteristics, subscribe/unsubscribe, identify, list/add/remove pairings, list accessories) x hosts {IPv4, IPv6, scoped IPv6} x "
        "plain and encrypted sessions x id sets 1..8 x payload shapes; JSON bodies of nested values incl. unicode/escaped strings, 64-bit ints, bools, null. "
        "post_json/put_json/post_tlv with every empty/falsy and random document ({} [] 0 \"\" false null ...): the body is the stdlib-compact / reference-TLV encoding of the document given; "
        "the pairing API driven with every kind of Iterable the type hints admit (list, tuple, deque, dict, dict view, set, frozenset, plain iterable object, generator, iter(), map, zip, "
        "reversed, chain, hand-written iterator): same bytes as for the equivalent list, every id/value exactly once; end to end: the real IpPairing(SecureHomeKitConnection) and "
        "IpDiscovery against a reference accessory - pair-verify, re-subscription after a reconnect, remove_pairing, get_primary_name/populate, unpaired identify, pair-setup M1/M3/M5. "
        "HISTORIES on one pairing object (in-memory transport plain/encrypted, and the real IpPairing end to end with connection drops in between and calls made while the connection is down): sequences of subscribe / unsubscribe / get / put / identify, "
        "some in flight together, over id sets that are disjoint from / overlap / lie inside / repeat earlier ones, ids of several accessories in any order, ids named twice - the request(s) written for a call carry "
        "exactly the ids / values of THAT call (nothing not named, nothing more often than named, everything named, per accessory in the caller's order, byte-for-byte compact), the expectation built from the "
        "harness's copy of the arguments; only the library's own re-subscription after a reconnect may carry the recorded set (harness's record). "
        "OUTDATED DATABASE (stream stale-db): the same calls (get/put characteristics, subscribe, unsubscribe, identify) on a pairing whose accessory database is not what the accessory has now - fetched earlier "
        "(list_accessories_and_characteristics / async_populate_accessories_state) and outdated since, read from the controller's characteristic cache by the constructor (in memory / the JSON file on disk), handed over with "
        "restore_accessories_state, empty, or none at all; the accessory gained / lost an accessory, a service, a characteristic or renumbered its ids, changes again mid-history, the pairing refreshes in between - over id sets "
        "all / partly (unknown id first, inside, last) / not at all in that database, every Iterable kind, first call on a never-connected pairing or on an established session, in-memory transport plain/encrypted and the real "
        "IpPairing end to end against an accessory that answers 207 for ids it does not have: whatever IS written for a call is the canonical request for the payload issued (every item, caller's order, nothing dropped or added); "
        "a call over ids the pairing was never told about may be refused with nothing written. "
        "non-trivial = distinct (entry point, host kind, secure?, body kind)")
TRUSTED = ["orjson (compact output is checked structurally and by re-parsing, not modelled)", "cryptography ChaCha20Poly1305 to read the controller's encrypted frames"]
ASSUMPTIONS = ["'only when there is a body' is read at the API the library exposes: get passes no body and emits neither header; put/post always pass one and emit both. "
               "put(target, b'') (not reachable through the pairing API) emits Content-Length: 0 + Content-Type - run on this tree and reported in notes, outside the theorem's scope",
               "single *call* to the transport is checked; single syscall/packet is asyncio's and the OS's business",
               "a JSON document always has a non-empty encoding, so post_json/put_json must carry the compact encoding of the document they were given even when it is {} / [] / 0 / \"\" / false / null "
               "(reference: the standard library's encoder with compact separators, on a domain where it and orjson agree: no floats beyond short decimals, ints within 64 bits)",
               "subscribe/unsubscribe with a ONE-PASS iterable (generator, iter(), map, zip...) put nothing on the wire on this tree (the argument is walked more than once): recorded in notes and the "
               "distribution, not judged - no request is written, so no written request is out of form; with re-iterable arguments of every kind every id must reach the wire exactly once",
               "histories: 'the requests of a call' are those that reach the accessory between the start of the call and its return, the calls being awaited one after another (a group of calls in flight together is "
               "judged as a group: reads and writes one request each, registrations as the union). A subscribe / unsubscribe request is the compact document {\"characteristics\":[{\"aid\",\"iid\",\"ev\"}...]} in that key order; "
               "the ids of a call are written per accessory in the order the caller named them when the argument has an order (list, tuple, deque, dict...; not for sets) - how the ids are split over requests is not judged; "
               "an id named twice in one call may be written once or twice; only the library's own re-subscription on a new session may name ids of earlier calls, and then only ids registered and not taken back "
               "(harness's record), each once. Calls made while the connection is down: an unsubscribe may write nothing; a subscribe's ids may be written once more (by the re-subscription that the reconnect performs)",
               "stale-db: 'known to the pairing' is the harness's own record of the database it handed over (cache / restore) or that the reference accessory last served on GET /accessories - never the library's state. "
               "A call naming an id outside that record may be refused (on this tree put_characteristics raises KeyError / AttributeError before anything is written) or answered without a request: nothing written, nothing judged "
               "(counted in the distribution); as soon as any request is written for the call it must be the canonical request for the WHOLE payload issued. Calls naming only known ids are judged strictly as everywhere else "
               "(must not raise, must be written). GET /accessories and the pair-verify exchange the library issues by itself before serving a call are checked for their form and set aside"]
EXPLANATION = "Lean theorems C09_* (request bytes = iOS spec form for all targets/hosts/bodies); differential tie through the real HomeKitConnection/IpPairing on an in-memory transport"

HOSTS = ["10.0.0.7", "192.168.1.250", "fe80::1%eth0", "2001:db8::42", "::1"]


def nonce(c):
    return struct.pack("<LQ", 0, c)


class Rig:
    """a real HomeKitConnection connected over simnet; optionally switched to the real SecureHomeKitProtocol"""

    def __init__(self, loop, host, secure, port=80):
        self.loop = loop
        self.net = simnet.Net(loop)
        self.host = host
        self.port = port
        self.secure = secure
        self.requests = []  # (decoded request bytes, number of transport calls used)
        self.responder = None
        self.c2a = bytes(range(32))
        self.a2c = bytes(range(32, 64))
        self.rctr = 0
        self.wctr = 0
        self.ebuf = b""
        self.net.handler = self.on_write
        self.ncalls_seen = 0
        self.pbuf = b""
        self.pcalls = 0

    async def connect(self):
        with self.net.patched():
            self.conn = ipc.HomeKitConnection(None, [self.host], self.port)
            await self.conn._connect_once()
        if self.secure:
            t = self.conn.transport
            p = ipc.SecureHomeKitProtocol(self.conn, self.a2c, self.c2a)
            p.connection_made(t)
            t.set_protocol(p)
            self.conn.protocol = p
            self.conn.is_secure = True
        return self.conn

    def on_write(self, t, data):
        ncalls = len(t.calls) - self.ncalls_seen
        self.ncalls_seen = len(t.calls)
        if self.secure:
            self.ebuf += data
            plain = b""
            while len(self.ebuf) >= 2:
                n = struct.unpack("<H", self.ebuf[:2])[0]
                if len(self.ebuf) < 2 + n + 16:
                    break
                plain += ChaCha20Poly1305(self.c2a).decrypt(nonce(self.rctr), self.ebuf[2:2 + n + 16], self.ebuf[:2])
                self.rctr += 1
                self.ebuf = self.ebuf[2 + n + 16:]
            data = plain
        # a request may (wrongly) arrive in several transport calls: collect until the HTTP message is complete and count the calls
        self.pbuf += data
        self.pcalls += ncalls
        i = self.pbuf.find(b"\r\n\r\n")
        if i < 0:
            return
        cl = 0
        for h in self.pbuf[:i].split(b"\r\n")[1:]:
            if h.lower().startswith(b"content-length:"):
                try:
                    cl = int(h.split(b":", 1)[1])
                except ValueError:
                    cl = 0
        if len(self.pbuf) < i + 4 + cl:
            return
        data, self.pbuf = self.pbuf[:i + 4 + cl], self.pbuf[i + 4 + cl:]
        self.requests.append((data, self.pcalls))
        self.pcalls = 0
        resp = self.responder(data) if self.responder else b"HTTP/1.1 204 No Content\r\n\r\n"
        self.loop.call_soon(self.respond, t, resp)

    def respond(self, t, resp):
        if self.secure:
            out = b""
            for i in range(0, len(resp), 1024):
                blk = resp[i:i + 1024]
                lb = struct.pack("<H", len(blk))
                out += lb + ChaCha20Poly1305(self.a2c).encrypt(nonce(self.wctr), blk, lb)
                self.wctr += 1
            resp = out
        t.feed(resp)


def http(body, ctype=b"application/hap+json", code=b"200 OK"):
    return b"HTTP/1.1 " + code + b"\r\nContent-Type: " + ctype + b"\r\nContent-Length: %d\r\n\r\n" % len(body) + body


PAIRINGS_REPLY = bytes([6, 1, 2, 1, 3]) + b"ctl" + bytes([3, 32]) + bytes(32) + bytes([11, 1, 1])
JSON_CT = "application/hap+json"
TLV_CT = "application/pairing+tlv8"


def responder(req: bytes) -> bytes:
    line = req.split(b"\r\n", 1)[0]
    if line.startswith(b"GET /characteristics"):
        return http(b'{"characteristics":[]}')
    if line.startswith(b"GET /accessories"):
        return http(b'{"accessories":[]}')
    if line.startswith(b"POST /pairings") or (line.startswith(b"POST") and b"\r\nContent-Type: application/pairing+tlv8\r\n" in req.split(b"\r\n\r\n", 1)[0] + b"\r\n"):
        return http(PAIRINGS_REPLY, b"application/pairing+tlv8")
    if line.startswith(b"PUT") or line.startswith(b"POST /identify"):
        return b"HTTP/1.1 204 No Content\r\n\r\n"
    return http(b"{}")


def spec_request(method, target, host, ctype=None, body=None):
    """the iOS form, written out independently"""
    h = f"[{host}]" if ":" in host else host
    s = f"{method} {target} HTTP/1.1\r\nHost: {h}\r\n"
    if body is not None:
        s += f"Content-Length: {len(body)}\r\nContent-Type: {ctype}\r\n"
    return (s + "\r\n").encode() + (body or b"")


PAIR = __import__("collections").namedtuple("PAIR", "a b")


def rand_json(rng, depth=0):
    r = rng.random()
    if depth > 2 or r < 0.35:
        return rng.choice([0, 1, -1, 255, 2 ** 63 - 1, -2 ** 63, 2 ** 64 - 1, True, False, None, "on", "a b", 'q"uote', "tab\there", "nl\nx", "üñí€", " ", "back\\slash", ""])
    if r < 0.65:
        return [rand_json(rng, depth + 1) for _ in range(rng.randint(0, 3))]
    return {rng.choice(["aid", "iid", "value", "ev", "k y", "ü", "characteristics"]) + str(i): rand_json(rng, depth + 1) for i in range(rng.randint(0, 3))}


def ws_outside_strings(b: bytes) -> bool:
    """does the JSON text contain whitespace outside string literals?"""
    ins = False
    esc = False
    for c in b:
        ch = chr(c)
        if ins:
            if esc:
                esc = False
            elif ch == "\\":
                esc = True
            elif ch == '"':
                ins = False
        else:
            if ch == '"':
                ins = True
            elif ch in " \t\r\n":
                return True
    return False


def ref_json(v) -> bytes:
    """the compact rendering of a JSON document, written by the standard library (nothing of hkjson / orjson).
    Domain used: dicts with string keys, lists, strings, ints in [-2^63, 2^64), bools, null, short decimal floats"""
    return json.dumps(v, separators=(",", ":"), ensure_ascii=False).encode("utf-8")


# JSON documents that are empty or falsy in Python - each still has a non-empty encoding - and their smallest truthy neighbours
SMALL_DOCS = [{}, [], 0, "", False, None, 0.0, [{}], [[]], {"": None}, [0], [""], [False], [None], 1, True, "0", " ", {"characteristics": []}]


class Reiter:
    """an Iterable that is neither a Sequence nor a Set: only __iter__, a fresh iterator every time"""

    def __init__(self, items):
        self._items = list(items)

    def __iter__(self):
        return iter(self._items)


class OneShot:
    """a hand-written iterator: exhausted after one pass"""

    def __init__(self, items):
        self._it = iter(list(items))

    def __iter__(self):
        return self

    def __next__(self):
        return next(self._it)


def _generator(items):
    yield from items


# every way a caller may hand "an Iterable of tuples" to the pairing API: (name, constructor from a list of distinct tuples, keeps the order?, one pass only?)
KINDS = [
    ("list", list, True, False),
    ("tuple", tuple, True, False),
    ("deque", collections.deque, True, False),
    ("dict", dict.fromkeys, True, False),
    ("dict-keys", lambda l: dict.fromkeys(l).keys(), True, False),
    ("dict-values", lambda l: dict(enumerate(l)).values(), True, False),
    ("iterable-object", Reiter, True, False),
    ("set", set, False, False),
    ("frozenset", frozenset, False, False),
    ("generator-expression", lambda l: (x for x in l), True, True),
    ("generator-function", _generator, True, True),
    ("iter", iter, True, True),
    ("map", lambda l: map(tuple, l), True, True),
    ("zip", lambda l: zip(*[[x[k] for x in l] for k in range(len(l[0]))]), True, True),
    ("reversed", lambda l: reversed(l[::-1]), True, True),
    ("chain", lambda l: itertools.chain(l[:1], l[1:]), True, True),
    ("iterator-object", OneShot, True, True),
]
WRITE_VALUES = [True, False, 0, 1, 255, -1, 2 ** 31, 21.5, 0.5, "on", "a b", "\u00fc\u00f1", None, "AQID" * 400]  # the last one: a write that needs two encrypted frames


def accessory_list(layout):
    return [{"aid": aid, "services": [{"iid": 1, "type": ServicesTypes.ACCESSORY_INFORMATION, "characteristics": [{"iid": 2, "type": CharacteristicsTypes.IDENTIFY, "perms": ["pw"], "format": "bool"},
                                                                                                                 {"iid": 3, "type": CharacteristicsTypes.NAME, "perms": ["pr"], "format": "string", "value": f"acc {aid}"}]},
                                      {"iid": 1000, "type": ServicesTypes.LIGHTBULB, "characteristics": [{"iid": iid, "type": CharacteristicsTypes.ON, "perms": ["pr", "pw", "ev"], "format": "bool", "value": False} for iid in iids]}]}
            for aid, iids in layout.items()]


def mk_pairing(conn, layout):
    p = IpPairing.__new__(IpPairing)

    async def noop(*a, **k):
        return None
    p._ensure_connected = noop
    p.connection = conn
    lst = accessory_list(layout)
    p._accessories_state = AccessoriesState(Accessories.from_list(lst), 1, None, 0)
    p.listeners = set()
    p.subscriptions = set()
    p.supports_subscribe = True
    p.pairing_data = {"AccessoryPairingID": "AA:BB:CC:DD:EE:FF", "iOSPairingId": "ctl"}
    p.id = "aa:bb:cc:dd:ee:ff"
    p._shutdown = False
    p.controller = MagicMock()
    p.controller._char_cache = CharacteristicCacheMemory()
    p.description = None
    p.config_changed_listeners = set()
    p.availability_listeners = set()
    return p


def make_check(ctx, cases, outs, lines):
    def check(kind, host, secure, req, ncalls, method, target, ctype, body, to_model=True, case=None):
        """req = bytes the accessory decoded; (method, target, ctype, body) = what the caller asked for"""
        ctx.evaluations += 1
        if case is None:
            case = {"stream": "request", "kind": kind, "host": host, "port": check.port, "secure": secure, "method": method, "target": target, "body": hx(body) if body is not None else None}
        want = spec_request(method, target, host, ctype, body)
        ctx.nontrivial.add((kind, ":" in host, "%" in host, secure, body is None, len(body or b"") > 1024))
        if req != want:
            ctx.violation(f"request/{kind}/bytes", f"{kind} on {host}: wrote {req[:160]!r}, the iOS form is {want[:160]!r}", case)
        if ncalls != 1:
            ctx.violation(f"request/{kind}/calls", f"{kind}: the request was handed to the transport in {ncalls} calls", case)
        if to_model:
            cases.append(case)
            outs.append(hx(req))
            if body is None:
                lines.append(f"rq.get {hx(target.encode())} {hx(host.encode())}")
            else:
                lines.append(f"rq.body {hx(method.encode())} {hx(target.encode())} {hx(host.encode())} {hx(ctype.encode())} {hx(body)}")
        ctx.dist[f"request:{kind}"] += 1
    check.port = 80  # the TCP port of the scenario under way (recorded in the cases; it must never show in a request)
    return check


def body_of(req: bytes) -> bytes:
    return req.split(b"\r\n\r\n", 1)[1] if b"\r\n\r\n" in req else b""


def target_of(req: bytes) -> str:
    parts = req.split(b"\r\n", 1)[0].split(b" ")
    return parts[1].decode("utf-8", "replace") if len(parts) > 1 else ""


def safe_untlv(b: bytes):
    try:
        return refacc.untlv(b)
    except Exception:  # noqa: BLE001
        return None


def safe_json(b: bytes):
    try:
        return json.loads(b)
    except ValueError:
        return None


async def json_entry_case(ctx, check, rig, host, secure, name, target, doc):
    """HomeKitConnection.post_json / put_json(target, doc): one request, whose body is the compact encoding of the document
    that was given - whatever the document (an empty or falsy one still has an encoding: `{}` is two bytes)"""
    method = "POST" if name == "post_json" else "PUT"
    case = {"stream": "json-entry", "entry": name, "host": host, "port": rig.port, "secure": secure, "target": target, "doc": json.dumps(doc)}
    n0 = len(rig.requests)
    try:
        await getattr(rig.conn, name)(target, doc)
    except Exception as e:  # noqa: BLE001
        ctx.violation(f"request/{name}/raised", f"{name}({target!r}, {doc!r}) on {host} raised {type(e).__name__}: {e}", case)
    new = rig.requests[n0:]
    ctx.dist["json-entry:" + ("falsy-document" if not doc else "document")] += 1
    if len(new) != 1:
        ctx.evaluations += 1
        ctx.violation(f"request/{name}/count", f"{name}({target!r}, {doc!r}) on {host}: {len(new)} requests reached the accessory", case)
        return
    check(name, host, secure, new[0][0], new[0][1], method, target, JSON_CT, ref_json(doc), case=case)


async def tlv_entry_case(ctx, check, rig, host, secure, target, items):
    """HomeKitConnection.post_tlv(target, items): one request whose body is the TLV8 encoding (reference encoder) of the items"""
    case = {"stream": "tlv-entry", "host": host, "port": rig.port, "secure": secure, "target": target, "items": [[t, v.hex()] for t, v in items]}
    n0 = len(rig.requests)
    try:
        await rig.conn.post_tlv(target, list(items))
    except Exception as e:  # noqa: BLE001
        ctx.violation("request/post_tlv/raised", f"post_tlv({target!r}, {len(items)} items) on {host} raised {type(e).__name__}: {e}", case)
    new = rig.requests[n0:]
    if len(new) != 1:
        ctx.evaluations += 1
        ctx.violation("request/post_tlv/count", f"post_tlv({target!r}, {len(items)} items) on {host}: {len(new)} requests reached the accessory", case)
        return
    check("post_tlv", host, secure, new[0][0], new[0][1], "POST", target, TLV_CT, refacc.tlv(items), case=case)


def sub_payload_ok(body: bytes, ev: bool):
    """a (un)subscribe body: compact JSON {"characteristics":[{"aid","iid","ev"}...]} with the right flag; returns the ids or None"""
    d = safe_json(body)
    if ws_outside_strings(body) or not isinstance(d, dict) or set(d) != {"characteristics"} or not isinstance(d["characteristics"], list):
        return None
    ids = []
    for c in d["characteristics"]:
        if not isinstance(c, dict) or set(c) != {"aid", "iid", "ev"} or c["ev"] is not ev:
            return None
        ids.append((c["aid"], c["iid"]))
    return ids


async def iterable_case(ctx, check, requests, p, host, secure, entry, kname, items, notes=None, port=80):
    """one call of the pairing API with the ids / writes handed over as the given kind of Iterable.  The expectation is
    built from `items`, the harness's own list: the request(s) must be what the equivalent list produces - every id /
    value on the wire exactly once, nothing else, in canonical form.
    `requests` is the accessory-side log: entries (decoded request bytes, transport calls[, encrypted?, peer])."""
    _, mk, ordered, oneshot = next(k for k in KINDS if k[0] == kname)
    items = [tuple(x) for x in items]
    case = {"stream": "iterable", "entry": entry, "kind": kname, "host": host, "port": port, "secure": secure, "items": [list(x) for x in items]}
    shown = repr(items)
    what = f"{entry}(<{kname}> of {shown if len(shown) <= 240 else shown[:240] + '...'})"
    n0 = len(requests)
    try:
        await getattr(p, entry)(mk(list(items)))
    except Exception as e:  # noqa: BLE001
        ctx.violation(f"request/{entry}/raised", f"{what} raised {type(e).__name__}: {e}", case)
    new = list(requests[n0:])
    ctx.evaluations += 1
    ctx.dist[f"iterable:{kname}"] += 1
    ctx.nontrivial.add(("iterable", entry, kname, secure))
    for r in new:
        if len(r) > 2 and r[2] != secure:
            ctx.violation(f"request/{entry}/session", f"{what}: the request went out on the {'encrypted' if r[2] else 'plain'} connection", case)
    if entry == "get_characteristics":
        if len(new) != 1:
            ctx.violation("request/ids", f"{what}: {len(new)} requests reached the accessory", case)
            return
        req, nc = new[0][0], new[0][1]
        line = req.split(b"\r\n", 1)[0].decode("utf-8", "replace")
        m = re.fullmatch(r"GET /characteristics\?id=([0-9]+\.[0-9]+(?:,[0-9]+\.[0-9]+)*) HTTP/1\.1", line)
        got_ids = sorted(tuple(int(x) for x in t.split(".")) for t in m.group(1).split(",")) if m else None
        if got_ids != sorted(set(items)):
            ctx.violation("request/ids", f"{what}: read of {sorted(set(items))} rendered as {line!r}", case)
        check("get_characteristics", host, secure, req, nc, "GET", target_of(req), None, None, to_model=False, case=case)
    elif entry == "put_characteristics":
        if len(new) != 1:
            ctx.violation("request/write-payload", f"{what}: {len(new)} requests reached the accessory", case)
            return
        req, nc = new[0][0], new[0][1]
        body = body_of(req)
        want_entries = [{"aid": a, "iid": i, "value": v} for a, i, v in items]
        want_body = ref_json({"characteristics": want_entries})
        if ordered:
            ok = body == want_body
        else:
            d = safe_json(body)
            ok = (not ws_outside_strings(body) and isinstance(d, dict) and set(d) == {"characteristics"} and isinstance(d["characteristics"], list)
                  and sorted(json.dumps(c, sort_keys=True) for c in d["characteristics"]) == sorted(json.dumps(c, sort_keys=True) for c in want_entries))
        if not ok:
            ctx.violation("request/write-payload", f"{what}: write payload {body[:150]!r} != compact {want_body[:150]!r}" + ("" if ordered else " (in any order)"), case)
        check("put_characteristics", host, secure, req, nc, "PUT", "/characteristics", JSON_CT, want_body if ordered else body, to_model=ordered, case=case)
    else:
        ev = entry == "subscribe"
        seen = []
        for r in new:
            req, nc = r[0], r[1]
            body = body_of(req)
            ids = sub_payload_ok(body, ev)
            if ids is None:
                ctx.violation("request/subscribe-payload", f"{what}: payload {body[:150]!r}", case)
            else:
                seen += ids
            check(entry, host, secure, req, nc, "PUT", "/characteristics", JSON_CT, body, to_model=False, case=case)
        if oneshot:
            # what the unchanged library does with a one-pass iterable here is recorded, not judged (see the note); still,
            # nothing but the ids asked for may be written, and none twice
            if len(seen) != len(set(seen)) or not set(seen) <= set(items):
                ctx.violation("request/subscribe-ids", f"{what} put {seen} on the wire in {len(new)} request(s)", case)
            elif sorted(seen) != sorted(set(items)):
                ctx.dist[f"observed:{entry}:one-pass-iterable:ids-not-written"] += 1
                if notes is not None and entry not in notes:
                    notes.add(entry)
                    ctx.notes.append(f"observed on this tree, not judged: {what} wrote {seen} - {entry}() walks its argument more than once, so a one-pass iterable "
                                     f"(generator, iter(), map, zip ...) registers nothing with the accessory although AbstractPairing.{entry} is typed Iterable; "
                                     "re-iterable arguments are checked strictly")
            else:
                ctx.dist[f"observed:{entry}:one-pass-iterable:ids-written"] += 1
        elif sorted(seen) != sorted(set(items)):
            missing = sorted(set(items) - set(seen))
            ctx.violation("request/subscribe-ids", f"{what} put {seen} on the wire in {len(new)} request(s)" + (f"; never written: {missing}" if missing else ""), case)


class Tap:
    """sits between simnet and the scaffold accessory (harness.acc): records every request the accessory decodes as
    (plaintext request bytes, transport calls it arrived in, encrypted session?, peer address)"""

    def __init__(self, acc, net):
        self.requests = []
        self._seen = {}
        self._pcalls = {}
        inner = acc._take_request

        def take(s):
            before = s.buf
            r = inner(s)
            if r is not None:
                self.requests.append((before[:len(before) - len(s.buf)], self._pcalls.get(s.t, 0), s.secure, s.t.host))
                self._pcalls[s.t] = 0
            return r
        acc._take_request = take

        def on_write(t, data):
            self._pcalls[t] = self._pcalls.get(t, 0) + len(t.calls) - self._seen.get(t, 0)
            self._seen[t] = len(t.calls)
            acc.on_write(t, data)
        net.handler = on_write


class SetupPeer:
    """a conformant accessory for pair-setup M1..M6, written from HAP 5.6 with harness.refacc (nothing from aiohomekit)"""

    def __init__(self, pin, ident, rb):
        self.pin, self.id, self.rb = pin, ident, rb

    def handle(self, d):
        st = d.get(6)
        if st == b"\x01":
            self.salt = self.rb(16)
            self.srv = refacc.SrpServer(self.pin, self.salt, int.from_bytes(self.rb(32), "big"))
            return [(6, b"\x02"), (3, refacc.PAD(self.srv.B)), (2, self.salt)]
        if st == b"\x03":
            self.srv.on_A(d[3])
            if d.get(4) != self.srv.M1:
                return [(6, b"\x04"), (7, b"\x02")]
            return [(6, b"\x04"), (4, self.srv.M2)]
        if st == b"\x05":
            K = self.srv.K
            ekey = refacc.hk(K, b"Pair-Setup-Encrypt-Salt", b"Pair-Setup-Encrypt-Info")
            try:
                sub = refacc.untlv(ChaCha20Poly1305(ekey).decrypt(b"\0\0\0\0PS-Msg05", d[5], b""))
                cx = refacc.hk(K, b"Pair-Setup-Controller-Sign-Salt", b"Pair-Setup-Controller-Sign-Info")
                ed25519.Ed25519PublicKey.from_public_bytes(sub[3]).verify(sub[10], cx + sub[1] + sub[3])
            except Exception:  # noqa: BLE001
                return [(6, b"\x06"), (7, b"\x02")]
            ax = refacc.hk(K, b"Pair-Setup-Accessory-Sign-Salt", b"Pair-Setup-Accessory-Sign-Info")
            sig = self.id.acc_ltsk.sign(ax + self.id.acc_id + self.id.acc_ltpk)
            enc = ChaCha20Poly1305(ekey).encrypt(b"\0\0\0\0PS-Msg06", refacc.tlv([(1, self.id.acc_id), (3, self.id.acc_ltpk), (10, sig)]), b"")
            return [(6, b"\x06"), (5, enc)]
        return [(6, b"\x02"), (7, b"\x01")]


async def endtoend_case(ctx, check, loop, host, seed, notes=None, port=80):
    """the public objects, constructed the public way, against a reference accessory on the simulated network:
    IpPairing(controller, pairing_data) with its SecureHomeKitConnection (pair-verify in the clear, everything else over
    the session, re-subscription after a reconnect) and IpDiscovery(controller, description) (unpaired identify,
    pair-setup).  Every request the accessory decodes must be in the canonical form, on the right connection, in one
    transport call - including the ones the library issues on its own."""
    import random
    rnd = random.Random(seed)

    def rb(n):
        return bytes(rnd.randrange(256) for _ in range(n))
    case = {"stream": "endtoend", "host": host, "port": port, "seed": seed}
    layout = {1: [10, 11, 12], 2: [20, 21], 3: [30]}
    allids = [(a, i) for a, iids in layout.items() for i in iids]
    acclist = accessory_list(layout)
    net = simnet.Net(loop)
    acc = Accessory(loop, net, rb, accessories=acclist)
    tap = Tap(acc, net)
    setup = SetupPeer("031-45-154", acc.ident, rb)

    def reply(s, method, target, body):
        if target == "/pair-setup":
            return http(refacc.tlv(setup.handle(safe_untlv(body) or {})), TLV_CT.encode())
        if target == "/pairings":
            return http(PAIRINGS_REPLY, TLV_CT.encode())
        if target == "/identify" or method == "PUT":
            return b"HTTP/1.1 204 No Content\r\n\r\n"
        if target.startswith("/accessories"):
            return http(json.dumps({"accessories": acclist}).encode())
        if target.startswith("/characteristics"):
            return http(b'{"characteristics":[]}')
        if target == "/resource":
            return http(b"\xff\xd8jpeg", b"image/jpeg")
        return http(b"{}")
    acc.responder = reply
    ctrl = MagicMock()
    ctrl._char_cache = CharacteristicCacheMemory()
    ctrl.pairings = {}
    mark = [0]

    def fresh():
        r = tap.requests[mark[0]:]
        mark[0] = len(tap.requests)
        return r

    def got(step, kind, n):
        r = fresh()
        if len(r) != n:
            ctx.evaluations += 1
            ctx.violation(f"request/{kind}/count", f"{step} on {host}: {len(r)} request(s) reached the accessory, {n} expected: {[x[0][:70] for x in r]}", dict(case, step=step))
        return r

    def canonical(step, kind, r, secure, method, target, ctype, body):
        raw, nc, sec, peer = r
        if sec != secure:
            ctx.violation(f"request/{kind}/session", f"{step}: {raw[:70]!r} went out on the {'encrypted' if sec else 'plain'} connection", dict(case, step=step))
        check(kind, peer, sec, raw, nc, method, target, ctype, body, case=dict(case, step=step))

    def handshake(step, kind, reqs, target):
        """requests of a pairing handshake (random keys: the body is taken from the wire, its TLV state is checked)"""
        for k, r in enumerate(reqs):
            body = body_of(r[0])
            tl = safe_untlv(body)
            if not body or tl is None or tl.get(6) != bytes([2 * k + 1]):
                ctx.violation(f"request/{kind}/body", f"{step}: request {k + 1} of the exchange carries {body[:60]!r} (state {2 * k + 1} expected)", dict(case, step=step))
            canonical(step, kind, r, False, "POST", target, TLV_CT, body)

    async def guard(step, coro):
        try:
            return await coro
        except Exception as e:  # noqa: BLE001
            ctx.violation("request/endtoend/raised", f"{step} on {host} raised {type(e).__name__}: {e}", dict(case, step=step))
            return None

    with net.patched():
        # ---------------- a paired accessory
        p = IpPairing(ctrl, acc.pairing_data([host], port))
        step = "first use: connect, pair-verify, GET /accessories"
        await guard(step, p.list_accessories_and_characteristics())
        r = got(step, "pair-verify", 3)
        if len(r) == 3:
            handshake(step, "pair-verify", r[:2], "/pair-verify")
            canonical(step, "list_accessories", r[2], True, "GET", "/accessories", None, None)
        step = "async_populate_accessories_state(force_update=True)"
        await guard(step, p.async_populate_accessories_state(force_update=True))
        for x in got(step, "populate", 1)[:1]:
            canonical(step, "populate", x, True, "GET", "/accessories", None, None)
        step = "get_primary_name"
        name = await guard(step, p.get_primary_name())
        fresh()
        ctx.dist[f"endtoend:get_primary_name={name!r}"] += 1
        # the four id-taking entry points, each with a few kinds of Iterable (all kinds over the hosts and seeds)
        kinds = [k[0] for k in KINDS]
        for entry in ("get_characteristics", "put_characteristics", "subscribe", "unsubscribe"):
            for kname in rnd.sample(kinds, 3):
                ids = rnd.sample(allids, rnd.randint(1, len(allids)))
                items = [(a, i, rnd.choice(WRITE_VALUES)) for a, i in ids] if entry == "put_characteristics" else ids
                await iterable_case(ctx, check, tap.requests, p, host, True, entry, kname, items, notes, port)
                if entry == "subscribe":
                    await iterable_case(ctx, check, tap.requests, p, host, True, "unsubscribe", "list", ids, notes, port)
                fresh()
        step = "identify"
        await guard(step, p.identify())
        for x in got(step, "identify", 1)[:1]:
            d = safe_json(body_of(x[0]))
            try:
                aid = d["characteristics"][0]["aid"]
            except (TypeError, KeyError, IndexError):
                aid = None
            if aid not in layout:
                ctx.violation("request/identify-payload", f"identify() wrote {body_of(x[0])[:120]!r}", dict(case, step=step))
                aid = 1
            canonical(step, "identify", x, True, "PUT", "/characteristics", JSON_CT, ref_json({"characteristics": [{"aid": aid, "iid": 2, "value": True}]}))
        step = "image"
        w, h = rnd.choice([(640, 480), (1920, 1080), (0, 0), (1, 1)])
        await guard(step, p.image(2, w, h))
        for x in got(step, "image", 1)[:1]:
            body = body_of(x[0])
            if ws_outside_strings(body) or safe_json(body) != {"aid": 2, "resource-type": "image", "image-width": w, "image-height": h}:
                ctx.violation("request/image-payload", f"snapshot payload {body[:150]!r}", dict(case, step=step))
            canonical(step, "image", x, True, "POST", "/resource", JSON_CT, body)
        # pairing management: TLV bodies written out from HAP 5.10-5.12 (State=M1, Method, Identifier, PublicKey, Permissions)
        other_id = rnd.choice(["other", "0A:1B:2C:3D:4E:5F", "c" * 36])
        other_pk = rb(32)
        for step, coro, items in (
                ("list_pairings", lambda: p.list_pairings(), [(6, b"\x01"), (0, b"\x05")]),
                ("add_pairing(User)", lambda: p.add_pairing(other_id, other_pk.hex(), "User"), [(6, b"\x01"), (0, b"\x03"), (1, other_id.encode()), (3, other_pk), (11, b"\x00")]),
                ("add_pairing(Admin)", lambda: p.add_pairing(other_id, other_pk.hex(), "Admin"), [(6, b"\x01"), (0, b"\x03"), (1, other_id.encode()), (3, other_pk), (11, b"\x01")]),
                ("remove_pairing(other)", lambda: p.remove_pairing(other_id), [(6, b"\x01"), (0, b"\x04"), (1, other_id.encode())])):
            await guard(step, coro())
            kind = step.split("(")[0]
            for x in got(step, kind, 1)[:1]:
                canonical(step, kind, x, True, "POST", "/pairings", TLV_CT, refacc.tlv(items))
        # the accessory drops the connection: the library re-connects, verifies again and re-registers the subscriptions on its own
        subs = rnd.sample(allids, rnd.randint(1, 4))
        await guard("subscribe", p.subscribe(list(subs)))
        fresh()
        step = "accessory closed the connection; re-connect and re-subscribe"
        if net.open:
            net.open[-1].peer_close()
        await asyncio.sleep(40)
        await guard(step, p.get_characteristics([allids[0]]))
        r = fresh()
        plain = [x for x in r if x[0].startswith(b"POST /pair-verify ")]
        rest = [x for x in r if not x[0].startswith(b"POST /pair-verify ")]
        if len(plain) != 2 or not rest:
            ctx.notes.append(f"endtoend {host}: after the drop {len(plain)} pair-verify and {len(rest)} other requests were seen")
        handshake(step, "pair-verify", plain[:2], "/pair-verify")
        seen = []
        for x in rest:
            tgt = target_of(x[0])
            if x[0].startswith(b"PUT "):
                body = body_of(x[0])
                ids = sub_payload_ok(body, True)
                if ids is None:
                    ctx.violation("request/subscribe-payload", f"{step}: payload {body[:150]!r}", dict(case, step=step))
                else:
                    seen += ids
                canonical(step, "resubscribe", x, True, "PUT", "/characteristics", JSON_CT, body)
            else:
                canonical(step, "get_characteristics", x, True, "GET", tgt, None, None)
        if len(seen) != len(set(seen)) or not set(seen) <= set(subs):
            ctx.violation("request/subscribe-ids", f"{step}: subscribed to {sorted(subs)}, the new session registered {seen}", dict(case, step=step))
        ctx.dist["endtoend:resubscribed-all" if sorted(seen) == sorted(subs) else "endtoend:resubscribed-some"] += 1
        step = "remove_pairing(own id)"
        await guard(step, p.remove_pairing(acc.ident.ios_id))
        for x in got(step, "remove_pairing", 1)[:1]:
            canonical(step, "remove_pairing", x, True, "POST", "/pairings", TLV_CT, refacc.tlv([(6, b"\x01"), (0, b"\x04"), (1, acc.ident.ios_id.encode())]))
        await guard("close", p.close())
        fresh()
        # ---------------- an unpaired accessory
        desc = HomeKitService(name="acc", id="12:34:56:00:01:0A", model="m", feature_flags=FeatureFlags(0), status_flags=StatusFlags(1), config_num=1, state_num=1,
                              category=Categories.LIGHTBULB, protocol_version="1.1", type="_hap._tcp.local.", address=host, addresses=[host], port=port)
        d = IpDiscovery(ctrl, desc)
        step = "IpDiscovery.async_identify"
        await guard(step, d.async_identify())
        for x in got(step, "async_identify", 1)[:1]:
            canonical(step, "async_identify", x, False, "POST", "/identify", JSON_CT, b"{}")
        step = "IpDiscovery.async_start_pairing"
        finish = await guard(step, d.async_start_pairing("alias"))
        r1 = got(step, "pair-setup", 1)
        r2 = []
        if finish is not None:
            step = "finish_pairing"
            newp = await guard(step, finish(setup.pin))
            r2 = got(step, "pair-setup", 2)
            if newp is not None:
                await guard("close", newp.close())
        if len(r1) == 1 and len(r2) == 2:
            handshake("IpDiscovery pair-setup M1/M3/M5", "pair-setup", r1 + r2, "/pair-setup")
        await guard("close", d.close())
    ctx.nontrivial.add(("endtoend", ":" in host, "%" in host))


# ---------------------------------------------------------------------------------------------------------------------
# histories on ONE pairing object: what a call writes must depend on the arguments of THAT call only
REITERABLE = [k[0] for k in KINDS if not k[3]]
HISTORY_VALUES = [True, False, 0, 1, 255, -1, 2 ** 31, 21.5, "on", "a b", "\u00fc\u00f1", None]
HISTORY_LAYOUT = {1: [9, 10, 11, 12], 2: [20, 21, 22], 3: [30, 31]}
# hand-written histories run first (ops as in gen_history): adding entities one by one, a run of one accessory interrupted by
# another, an id named twice, a call repeated, reads and writes in between, registrations taken back and made again
FIXED_HISTORIES = [
    [{"op": "subscribe", "kind": "list", "items": [[1, 9]]}, {"op": "subscribe", "kind": "list", "items": [[1, 10]]}, {"op": "subscribe", "kind": "list", "items": [[2, 20]]},
     {"op": "get_characteristics", "kind": "list", "items": [[1, 11]]}, {"op": "put_characteristics", "kind": "list", "items": [[1, 12, True]]},
     {"op": "unsubscribe", "kind": "list", "items": [[1, 10]]}, {"op": "subscribe", "kind": "list", "items": [[1, 10], [1, 9]]}, {"op": "unsubscribe", "kind": "list", "items": [[2, 20], [1, 9]]}],
    [{"op": "subscribe", "kind": "list", "items": [[2, 21], [1, 12], [2, 20], [1, 9]]}, {"op": "subscribe", "kind": "tuple", "items": [[1, 12], [1, 12], [3, 30]]},
     {"op": "subscribe", "kind": "list", "items": [[1, 12], [1, 12], [3, 30]]}, {"op": "identify"}, {"op": "unsubscribe", "kind": "deque", "items": [[3, 31]]},
     {"op": "get_characteristics", "kind": "set", "items": [[2, 20], [1, 9]]}, {"op": "unsubscribe", "kind": "list", "items": [[3, 30], [1, 12], [2, 21]]},
     {"op": "put_characteristics", "kind": "list", "items": [[1, 9, 1], [2, 20, False], [1, 9, 0]]}, {"op": "subscribe", "kind": "frozenset", "items": [[3, 31], [2, 22]]}],
    [{"op": "subscribe", "kind": "list", "items": [[1, 11], [1, 10], [1, 9]]}, {"op": "unsubscribe", "kind": "list", "items": [[1, 10]]},
     {"op": "concurrent", "calls": [{"op": "subscribe", "kind": "list", "items": [[2, 20]]}, {"op": "get_characteristics", "kind": "list", "items": [[1, 9], [3, 30]]},
                                    {"op": "unsubscribe", "kind": "list", "items": [[1, 9]]}, {"op": "put_characteristics", "kind": "list", "items": [[2, 21, True]]}]},
     {"op": "subscribe", "kind": "list", "items": [[1, 12]]}, {"op": "unsubscribe", "kind": "list", "items": [[1, 12], [1, 11]]}],
]


def _tuples(items):
    return [tuple(x) for x in items]


def _order_ids(rng, ids):
    """the caller's order: ascending, descending, the accessories interleaved (a run of one aid interrupted by another), or arbitrary"""
    ids = list(ids)
    how = rng.randrange(5)
    if how == 0:
        ids.sort()
    elif how == 1:
        ids.sort(reverse=True)
    elif how == 2:
        by = collections.defaultdict(list)
        for x in sorted(ids):
            by[x[0]].append(x)
        cols = list(by.values())
        rng.shuffle(cols)
        ids = [x for row in itertools.zip_longest(*cols) for x in row if x is not None]
    else:
        rng.shuffle(ids)
    return ids


def gen_history(rng, layout, n, reconnect=False):
    """a sequence of calls on one pairing: subscribe / unsubscribe / get / put / identify, some of them issued concurrently and
    (end to end) connection drops in between.  The id sets are disjoint from, overlap with, lie inside or repeat what earlier
    calls named; ids of several accessories in any order; an id may be named twice in one call."""
    allids = [(a, i) for a, iids in layout.items() for i in iids]
    held = set()  # steers the generator only - the oracle keeps its own record while the history is executed
    last = {}
    ops = []

    def pick(entry):
        free = [x for x in allids if x not in held]
        mine = sorted(held)
        shape = rng.choice(["disjoint", "overlap", "inside", "repeat", "any", "any"])
        if shape == "disjoint" and free:
            ids = rng.sample(free, rng.randint(1, min(5, len(free))))
        elif shape == "overlap" and free and mine:
            ids = rng.sample(free, rng.randint(1, min(3, len(free)))) + rng.sample(mine, rng.randint(1, min(3, len(mine))))
        elif shape == "inside" and mine:
            ids = rng.sample(mine, rng.randint(1, min(4, len(mine))))
        elif shape == "repeat" and last.get(entry):
            return [list(x) for x in last[entry]]
        else:
            ids = rng.sample(allids, rng.randint(1, min(8, len(allids))))
        ids = _order_ids(rng, ids)
        if rng.random() < 0.25:
            for x in rng.sample(ids, rng.randint(1, min(2, len(ids)))):
                ids.insert(rng.randint(0, len(ids)), x)
        last[entry] = ids
        return [list(x) for x in ids]

    def call(entry, simple=False):
        ids = pick(entry)
        if entry in ("subscribe", "unsubscribe"):
            kind = "list" if simple else rng.choice(REITERABLE + ["list", "list", "tuple"])
            (held.update if entry == "subscribe" else held.difference_update)(tuple(x) for x in ids)
            return {"op": entry, "kind": kind, "items": ids}
        kind = "list" if simple else rng.choice([k[0] for k in KINDS] + ["list", "list"])
        if entry == "put_characteristics":
            return {"op": entry, "kind": kind, "items": [[a, i, rng.choice(HISTORY_VALUES)] for a, i in ids]}
        return {"op": entry, "kind": kind, "items": ids}

    while len(ops) < n:
        r = rng.random()
        if reconnect and r < 0.18 and ops:
            if rng.random() < 0.5:
                ops.append({"op": "reconnect", "settle": [list(rng.choice(allids))]})
            else:
                # the accessory drops the connection and the very next call finds the pairing disconnected
                ops.append({"op": "drop"})
                ops.append(call(rng.choice(["subscribe", "subscribe", "unsubscribe", "get_characteristics", "put_characteristics"])) if rng.random() < 0.9 else {"op": "identify"})
        elif r < 0.45:
            ops.append(call("subscribe"))
        elif r < 0.63:
            ops.append(call("unsubscribe"))
        elif r < 0.74:
            ops.append(call("get_characteristics"))
        elif r < 0.85:
            ops.append(call("put_characteristics"))
        elif r < 0.89:
            ops.append({"op": "identify"})
        else:
            # calls in flight together; the ids registered and the ids taken back in one such group are kept apart, so that
            # what is registered afterwards does not depend on which call the library happened to serve first
            calls, used = [], set()
            for _ in range(rng.randint(2, 4)):
                c = call(rng.choice(["subscribe", "subscribe", "unsubscribe", "get_characteristics", "put_characteristics"]), simple=True)
                if c["op"] in ("subscribe", "unsubscribe"):
                    c["items"] = [x for x in c["items"] if tuple(x) not in used] or None
                    if c["items"] is None:
                        continue
                    used.update(tuple(x) for x in c["items"])
                calls.append(c)
            if len(calls) >= 2:
                ops.append({"op": "concurrent", "calls": calls})
    return ops


def _rq(r, host, secure):
    """an entry of the accessory-side log -> (request bytes, transport calls, encrypted?, peer address)"""
    return r[0], r[1], (r[2] if len(r) > 2 else secure), (r[3] if len(r) > 3 else host)


def sub_ids(raw: bytes, ev=None):
    """the (aid, iid) pairs of a well-formed (un)subscribe request, written byte-for-byte as the compact document
    {"characteristics":[{"aid":..,"iid":..,"ev":..},..]}; returns (ev, ids) or None"""
    body = body_of(raw)
    if not raw.startswith(b"PUT /characteristics "):
        return None
    for flag in ((True, False) if ev is None else (ev,)):
        ids = sub_payload_ok(body, flag)
        if ids and all(type(a) is int and type(i) is int for a, i in ids) and body == ref_json({"characteristics": [{"aid": a, "iid": i, "ev": flag} for a, i in ids]}):
            return flag, ids
    return None


def read_ids(raw: bytes):
    m = re.fullmatch(rb"GET /characteristics\?id=([0-9]+\.[0-9]+(?:,[0-9]+\.[0-9]+)*) HTTP/1\.1", raw.split(b"\r\n", 1)[0])
    return [tuple(int(x) for x in t.split(b".")) for t in m.group(1).split(b",")] if m else None


def _uniq(seq, keep_last=False):
    seq = list(seq)
    out = list(dict.fromkeys(reversed(seq) if keep_last else seq))
    return out[::-1] if keep_last else out


def line_of(raw: bytes) -> bytes:
    return raw.split(b"\r\n", 1)[0]


def _short(x, n=260):
    s = repr(x)
    return s if len(s) <= n else s[:n] + "..."


def judge_registration(ctx, what, c, given, ordered, seen, need_all=True):
    """the ids written for one subscribe / unsubscribe call (or a group of them) against the ids the caller named: nothing
    that was not named, nothing more often than named, everything named at least once, and per accessory in the caller's order"""
    want, got = collections.Counter(given), collections.Counter(seen)
    foreign = sorted(set(got) - set(want))
    missing = sorted(set(want) - set(got)) if need_all else []
    extra = sorted(x for x in got if x in want and got[x] > want[x])
    if foreign or missing or extra:
        ctx.violation("request/subscribe-ids", f"{what}: the request(s) written for this call carry {_short(seen)}"
                      + (f"; not named in this call: {foreign}" if foreign else "") + (f"; never written: {missing}" if missing else "")
                      + (f"; written more often than named: {extra}" if extra else ""), c)
        return False
    if ordered:
        for aid in sorted({a for a, _ in given}):
            g = [x for x in given if x[0] == aid and x in got]
            s = [x for x in seen if x[0] == aid]
            if s != g and _uniq(s) != _uniq(g) and _uniq(s, True) != _uniq(g, True):
                ctx.violation("request/subscribe-order", f"{what}: accessory {aid}: written in the order {_short(s)}, named in the order {_short(g)}", c)
                return False
    return True


async def history_case(ctx, check, log, p, host, secure, port, layout, ops, case, net=None, world=None, connected=True):
    """execute `ops` on the ONE pairing object `p`; `log` is the accessory-side request log.  For every call the requests
    that reached the accessory while the call ran are judged against the arguments of that call alone, the expectation
    being built from the harness's own copy of the arguments (and, for the re-subscription the library performs by
    itself after a reconnect, from the harness's own record of what was registered and not taken back since).
    With a `world` (StaleWorld) the accessory database the pairing holds may be older than what the accessory has now:
    ids the pairing was never told about may be refused by the library (nothing is written then), everything that IS
    written is judged exactly as everywhere else - against the payload the caller issued."""
    record = set()
    mode = case["mode"]
    stream = case.get("stream", "history")

    def own_fetches(c, what, new):
        """what the library writes by itself before it serves a call on a fresh pairing: the pair-verify exchange in the clear
        and GET /accessories when it holds no database yet - canonical like any other request, then set aside"""
        rest = []
        for r in new:
            raw = r[0]
            if raw.startswith(b"POST /pair-verify "):
                body = body_of(raw)
                if not body or safe_untlv(body) is None or (len(r) > 2 and r[2]):
                    ctx.violation("request/pair-verify/body", f"{what}: pair-verify request carries {body[:60]!r}" + (" on the encrypted session" if len(r) > 2 and r[2] else ""), c)
                check("pair-verify", r[3] if len(r) > 3 else host, False, raw, r[1], "POST", "/pair-verify", TLV_CT, body, to_model=False, case=c)
            elif line_of(raw).startswith(b"GET /accessories "):
                canonical(c, "list_accessories", r, "GET", "/accessories", None, None)
                ctx.dist[f"{stream}:library-fetched-the-database-by-itself"] += 1
            else:
                rest.append(r)
        return rest

    def mk_arg(op):
        kname = op.get("kind", "list")
        _, mk, ordered, oneshot = next(k for k in KINDS if k[0] == kname)
        items = _tuples(op["items"])
        given = items if oneshot else [tuple(x) for x in mk(list(items))]  # what an iteration over the argument yields (a dict / set names an id once)
        return mk(list(items)), given, ordered

    def canonical(c, kind, r, method, target, ctype, body):
        raw, nc, sec, peer = _rq(r, host, secure)
        if sec != secure:
            ctx.violation(f"request/{kind}/session", f"{raw[:70]!r} went out on the {'encrypted' if sec else 'plain'} connection", c)
        check(kind, peer, sec, raw, nc, method, target, ctype, body, to_model=False, case=c)

    def judge_read(c, what, given, new):
        if len(new) != 1:
            ctx.violation("request/ids", f"{what}: {len(new)} requests reached the accessory: {[x[0][:90] for x in new]}", c)
            return
        ids = read_ids(new[0][0])
        if ids is None or sorted(ids) != sorted(set(given)):
            ctx.violation("request/ids", f"{what}: read of {sorted(set(given))} rendered as {line_of(new[0][0])!r}", c)
        canonical(c, "get_characteristics", new[0], "GET", target_of(new[0][0]), None, None)

    def write_body_ok(body, given, ordered):
        entries = [{"aid": a, "iid": i, "value": v} for a, i, v in given]
        want_body = ref_json({"characteristics": entries})
        if ordered:
            return body == want_body, want_body
        d = safe_json(body)
        return (not ws_outside_strings(body) and isinstance(d, dict) and set(d) == {"characteristics"} and isinstance(d["characteristics"], list)
                and all(isinstance(x, dict) and list(x) == ["aid", "iid", "value"] for x in d["characteristics"])
                and sorted(json.dumps(x, sort_keys=True) for x in d["characteristics"]) == sorted(json.dumps(x, sort_keys=True) for x in entries)), want_body

    def judge_write(c, what, given, ordered, new):
        if len(new) != 1:
            ctx.violation("request/write-payload", f"{what}: {len(new)} requests reached the accessory: {[x[0][:90] for x in new]}", c)
            return
        body = body_of(new[0][0])
        ok, want_body = write_body_ok(body, given, ordered)
        if not ok:
            ctx.violation("request/write-payload", f"{what}: write payload {body[:200]!r} != compact {want_body[:200]!r}" + ("" if ordered else " (in any order)"), c)
        canonical(c, "put_characteristics", new[0], "PUT", "/characteristics", JSON_CT, want_body if ordered else body)

    def registrations(c, what, entry, new):
        """the ids in the (un)subscribe requests among `new`, each request checked for its form"""
        seen = []
        for r in new:
            got = sub_ids(r[0], entry == "subscribe")
            if got is None:
                ctx.violation("request/subscribe-payload", f"{what}: wrote {line_of(r[0])!r} with payload {body_of(r[0])[:200]!r}", c)
            else:
                seen += got[1]
            canonical(c, entry, r, "PUT", "/characteristics", JSON_CT, body_of(r[0]))
        return seen

    def own_traffic(c, what, new):
        """what the library writes by itself once it has lost the connection: pair-verify in the clear, then - on the new
        session - the registration of what is registered at that moment.  Returns (the other requests, the ids re-registered)"""
        rest, seen = [], []
        for r in new:
            raw = r[0]
            if raw.startswith(b"POST /pair-verify "):
                body = body_of(raw)
                if not body or safe_untlv(body) is None or (len(r) > 2 and r[2]):
                    ctx.violation("request/pair-verify/body", f"{what}: pair-verify request carries {body[:60]!r}" + (" on the encrypted session" if len(r) > 2 and r[2] else ""), c)
                check("pair-verify", r[3] if len(r) > 3 else host, False, raw, r[1], "POST", "/pair-verify", TLV_CT, body, to_model=False, case=c)
                continue
            got = sub_ids(raw, True)
            if got is None:
                rest.append(r)
            else:
                seen += got[1]
                canonical(c, "resubscribe", r, "PUT", "/characteristics", JSON_CT, body_of(raw))
        return rest, seen

    def judge_resubscription(c, what, seen, registered):
        if len(seen) != len(set(seen)) or not set(seen) <= registered:
            ctx.violation("request/subscribe-ids", f"{what}: registered and not taken back so far: {sorted(registered)}; the new session registered {seen}", c)
        ctx.dist["history:reconnect:" + ("nothing-registered" if not registered else "resubscribed-all" if set(seen) == registered else "resubscribed-some")] += 1
        ctx.nontrivial.add(("history", mode, "reconnect", len(registered) > 0, len({a for a, _ in registered}) > 1))

    def describe(op):
        if op["op"] in ("identify", "reconnect", "drop"):
            return op["op"] + "()"
        if op["op"] == "upgrade":
            return f"[the accessory's database becomes {op['now']}]"
        if op["op"] == "refresh":
            return {"list": "list_accessories_and_characteristics()", "populate": "async_populate_accessories_state(force_update=True)"}[op["how"]]
        if op["op"] == "restore":
            return f"restore_accessories_state(<{op['db']}>)"
        if op["op"] == "concurrent":
            return "in flight together: [" + "; ".join(describe(o) for o in op["calls"]) + "]"
        return f"{op['op']}(<{op.get('kind', 'list')}> of {_short(_tuples(op['items']), 200)})"

    # the accessory has just dropped the connection and nothing was awaited since (or the pairing was never used yet): the next call is made on a pairing that is not connected
    dropped = not connected
    for k, op in enumerate(ops):
        c = dict(case, ops=ops[:k + 1], at=k)
        name = op["op"]
        what = f"call {k + 1} of a history on one pairing ({mode}, {host}): {describe(op)}" + (f" after {', '.join(describe(o) for o in ops[max(0, k - 3):k])}" if k else "")
        ctx.evaluations += 1
        ctx.dist[f"{stream}:{name}"] += 1
        n0 = len(log)
        if name == "upgrade":
            # a firmware update / a re-configured bridge: from now on the accessory answers from another database; the pairing is not told
            world.now = _layout(op["now"])
            continue
        if name in ("refresh", "restore"):
            try:
                if name == "restore":
                    p.restore_accessories_state(stale_accessory_list(_layout(op["db"])), op.get("config_num", 4), None)
                    world.held = _layout_ids(_layout(op["db"]))  # the harness's record of the database it handed over itself
                elif op["how"] == "list":
                    await p.list_accessories_and_characteristics()
                else:
                    await p.async_populate_accessories_state(force_update=True)
            except Exception as e:  # noqa: BLE001
                ctx.violation(f"request/{name}/raised", f"{what} raised {type(e).__name__}: {e}", c)
            rest = own_fetches(c, what, list(log[n0:]))
            if rest:
                ctx.violation("request/history/unexpected", f"{what}: wrote {[line_of(x[0]) for x in rest]}", c)
            continue
        if name == "drop":
            if net is not None and net.open:
                net.open[-1].peer_close()
                dropped = True
            continue
        if dropped and name not in ("subscribe", "unsubscribe", "get_characteristics", "put_characteristics", "identify"):
            await asyncio.sleep(40)
            rest, seen = own_traffic(c, what, list(log[n0:]))
            judge_resubscription(c, what + " [the reconnect before it]", seen, set(record))
            if rest:
                ctx.violation("request/history/unexpected", f"{what}: while re-connecting the library wrote {[line_of(x[0]) for x in rest]}", c)
            dropped = False
            n0 = len(log)
        if name in ("subscribe", "unsubscribe", "get_characteristics", "put_characteristics"):
            arg, given, ordered = mk_arg(op)
            ids_only = [x[:2] for x in given]
            shape = ("dup" if len(set(ids_only)) < len(ids_only) else "nodup", "held" if record & set(ids_only) else "new", "beyond" if set(ids_only) - record else "inside", len({a for a, _ in ids_only}) > 1)
            ctx.nontrivial.add(("history", mode, name, secure, dropped) + shape)
            if record & set(ids_only) and set(ids_only) - record:
                ctx.dist[f"history:{name}:overlaps-earlier-registrations"] += 1
            elif record and not record & set(ids_only):
                ctx.dist[f"history:{name}:disjoint-from-earlier-registrations"] += 1
            if shape[0] == "dup":
                ctx.dist[f"history:{name}:id-named-twice"] += 1
            if dropped:
                ctx.dist[f"history:{name}:called-while-disconnected"] += 1
            raised = None
            try:
                await getattr(p, name)(arg)
            except Exception as e:  # noqa: BLE001
                raised = e
            if dropped:
                await asyncio.sleep(45)
            new = list(log[n0:])
            unknown = []
            if world is not None:
                # ids the pairing was never told about (harness's record of the databases it / the accessory handed to the pairing)
                new = own_fetches(c, what, new)
                unknown = world.unknown(ids_only)
                sshape = stale_shape(ids_only, unknown)
                ctx.dist[f"{stream}:{name}:{sshape}"] += 1
                ctx.nontrivial.add((stream, mode, secure, name, sshape, case.get("relation"), case.get("load")))
                what += f" [database the pairing was given: {world.held_text()}; the accessory has now: {world.now}]"
            if raised is not None and not unknown:
                ctx.violation(f"request/{name}/raised", f"{what}" + (" (called right after the accessory dropped the connection)" if dropped else "") + f" raised {type(raised).__name__}: {raised}", c)
            before = set(record)
            if unknown and not new:
                # the call names ids the pairing's database does not contain and nothing was put on the wire for it (the library
                # refused the call, or answered it by itself): no request, so none out of form - recorded, not judged
                ctx.dist[f"{stream}:{name}:{sshape}:" + (f"refused({type(raised).__name__})-nothing-written" if raised is not None else "returned-nothing-written")] += 1
                if name == "subscribe":
                    record.update(given)
            elif dropped and name == "subscribe":
                # the call's own registration and the library's re-registration on the new session are the same kind of
                # request: together they name nothing but this call's ids and what was registered, the former at least once
                # and at most once more than named, the latter at most once
                rest, seen = own_traffic(c, what, new)
                if rest:
                    ctx.violation("request/subscribe-payload", f"{what} (called while disconnected): wrote {[(line_of(x[0]), body_of(x[0])[:120]) for x in rest]}", c)
                want, got = collections.Counter(given), collections.Counter(seen)
                bad = sorted(x for x in got if (x in want and got[x] > want[x] + 1) or (x not in want and (x not in before or got[x] > 1)))
                missing = sorted(set(want) - set(got))
                if bad or missing:
                    ctx.violation("request/subscribe-ids", f"{what} (called while disconnected; registered before: {sorted(before)}): the new session registered {_short(seen)}"
                                  + (f"; not named / too often: {bad}" if bad else "") + (f"; never written: {missing}" if missing else ""), c)
                record.update(given)
            else:
                if dropped:
                    new, seen = own_traffic(c, what, new)
                    judge_resubscription(c, what + " [the reconnect it ran into]", seen, before)
                if name == "get_characteristics":
                    judge_read(c, what, given, new)
                elif name == "put_characteristics":
                    judge_write(c, what, given, ordered, new)
                else:
                    # (an unsubscribe on a pairing that is not connected has no session to take anything back from: it may write nothing)
                    # (... and a call over ids unknown to the pairing's database that the library refused half way need not have written everything)
                    judge_registration(ctx, what, c, given, ordered, registrations(c, what, name, new),
                                       need_all=not (dropped and name == "unsubscribe") and not (unknown and raised is not None))
                    (record.update if name == "subscribe" else record.difference_update)(given)
                if unknown:
                    ctx.dist[f"{stream}:{name}:{sshape}:" + ("written-then-raised" if raised is not None else "written-in-full")] += 1
            # (an unsubscribe on a pairing that was never used does not even connect: the accessory has still not seen a session, the next call finds the pairing as unconnected as this one)
            dropped = dropped and world is not None and net is not None and not any(r[0].startswith(b"POST /pair-verify ") for r in log)
        elif name == "identify":
            try:
                await p.identify()
            except Exception as e:  # noqa: BLE001
                ctx.violation("request/identify/raised", f"{what} raised {type(e).__name__}: {e}", c)
            if dropped:
                await asyncio.sleep(45)
            new = list(log[n0:])
            if dropped:
                new, seen = own_traffic(c, what, new)
                judge_resubscription(c, what + " [the reconnect it ran into]", seen, set(record))
                dropped = False
            if world is not None:
                new = own_fetches(c, what, new)
                layout = world.held_aids()  # the accessories of the database the pairing was given
                what += f" [database the pairing was given: {world.held_text()}]"
            d = safe_json(body_of(new[0][0])) if len(new) == 1 else None
            try:
                aid = d["characteristics"][0]["aid"]
            except (TypeError, KeyError, IndexError):
                aid = None
            if len(new) != 1 or aid not in layout:
                ctx.violation("request/identify-payload", f"{what}: {len(new)} request(s): {[x[0][-120:] for x in new]}", c)
            else:
                canonical(c, "identify", new[0], "PUT", "/characteristics", JSON_CT, ref_json({"characteristics": [{"aid": aid, "iid": 2, "value": True}]}))
        elif name == "concurrent":
            calls = [(o, *mk_arg(o)) for o in op["calls"]]
            ctx.nontrivial.add(("history", mode, "concurrent", secure, tuple(sorted(o["op"] for o in op["calls"]))))
            res = await asyncio.gather(*[getattr(p, o["op"])(arg) for o, arg, _, _ in calls], return_exceptions=True)
            for (o, _, _, _), e in zip(calls, res):
                if isinstance(e, Exception):
                    ctx.violation(f"request/{o['op']}/raised", f"{what}: {describe(o)} (in flight together with {len(calls) - 1} other calls) raised {type(e).__name__}: {e}", c)
            new = list(log[n0:])
            reads, writes, regs = [], [], {True: [], False: []}
            for r in new:
                raw = r[0]
                if raw.startswith(b"GET "):
                    ids = read_ids(raw)
                    if ids is None or len(ids) != len(set(ids)):
                        ctx.violation("request/ids", f"{what}: a read was rendered as {line_of(raw)!r}", c)
                    else:
                        reads.append(frozenset(ids))
                    canonical(c, "get_characteristics", r, "GET", target_of(raw), None, None)
                    continue
                got = sub_ids(raw)
                if got is not None:
                    regs[got[0]] += got[1]
                    canonical(c, "subscribe" if got[0] else "unsubscribe", r, "PUT", "/characteristics", JSON_CT, body_of(raw))
                else:
                    writes.append(body_of(raw))
                    canonical(c, "put_characteristics", r, "PUT", "/characteristics", JSON_CT, body_of(raw))
            want_reads = collections.Counter(frozenset(g) for o, _, g, _ in calls if o["op"] == "get_characteristics")
            if collections.Counter(reads) != want_reads:
                ctx.violation("request/ids", f"{what}: the reads in flight together named {[sorted(x) for x in want_reads.elements()]}, the requests carry {[sorted(x) for x in reads]}", c)
            want_writes = collections.Counter(write_body_ok(b"", g, True)[1] for o, _, g, _ in calls if o["op"] == "put_characteristics")
            if collections.Counter(writes) != want_writes:
                ctx.violation("request/write-payload", f"{what}: the writes in flight together are {[x[:120] for x in want_writes.elements()]}, the requests carry {[x[:120] for x in writes]}", c)
            for ev, entry in ((True, "subscribe"), (False, "unsubscribe")):
                given = [x for o, _, g, _ in calls if o["op"] == entry for x in g]
                judge_registration(ctx, f"{what} [{entry} calls of the group]", c, given, False, regs[ev])
                (record.update if ev else record.difference_update)(given)
        elif name == "reconnect":
            # the accessory drops the connection; the library connects and verifies again and re-registers, by itself, what is
            # registered at that moment - the one place where more than a call's own ids is legitimately written
            settle = _tuples(op["settle"])
            if net is not None and net.open and not dropped:
                net.open[-1].peer_close()
            dropped = False
            await asyncio.sleep(40)
            try:
                await p.get_characteristics(list(settle))
            except Exception as e:  # noqa: BLE001
                ctx.violation("request/get_characteristics/raised", f"{what}: get_characteristics({settle}) after the reconnect raised {type(e).__name__}: {e}", c)
            await asyncio.sleep(5)
            reads, seen = own_traffic(c, what, list(log[n0:]))
            judge_resubscription(c, what, seen, set(record))
            judge_read(c, what + f" [get_characteristics({settle}) on the new session]", settle, reads)
        else:
            raise ValueError(f"unknown op {name!r}")


async def history_rig(ctx, check, loop, host, secure, port, ops):
    """a history on a pairing whose connection is the real HomeKitConnection (plain or encrypted) over the in-memory transport"""
    layout = HISTORY_LAYOUT
    case = {"stream": "history", "mode": "transport", "host": host, "port": port, "secure": secure, "layout": {str(a): i for a, i in layout.items()}}
    rig = Rig(loop, host, secure, port)
    rig.responder = responder
    conn = await rig.connect()
    try:
        await history_case(ctx, check, rig.requests, mk_pairing(conn, layout), host, secure, port, layout, ops, case)
    finally:
        await conn.close()


async def history_endtoend(ctx, check, loop, host, port, seed, ops):
    """a history on the real IpPairing(controller, pairing_data) with its SecureHomeKitConnection against the reference
    accessory: connection drops (and the library's own re-subscription) in between the calls"""
    import random
    rnd = random.Random(seed)

    def rb(n):
        return bytes(rnd.randrange(256) for _ in range(n))
    layout = HISTORY_LAYOUT
    case = {"stream": "history", "mode": "endtoend", "host": host, "port": port, "secure": True, "seed": seed, "layout": {str(a): i for a, i in layout.items()}}
    acclist = accessory_list(layout)
    net = simnet.Net(loop)
    acc = Accessory(loop, net, rb, accessories=acclist)
    tap = Tap(acc, net)

    def reply(s, method, target, body):
        if method == "PUT":
            return b"HTTP/1.1 204 No Content\r\n\r\n"
        if target.startswith("/accessories"):
            return http(json.dumps({"accessories": acclist}).encode())
        if target.startswith("/characteristics"):
            return http(b'{"characteristics":[]}')
        return http(b"{}")
    acc.responder = reply
    ctrl = MagicMock()
    ctrl._char_cache = CharacteristicCacheMemory()
    ctrl.pairings = {}
    with net.patched():
        p = IpPairing(ctrl, acc.pairing_data([host], port))
        try:
            try:
                await p.list_accessories_and_characteristics()
            except Exception as e:  # noqa: BLE001
                ctx.violation("request/endtoend/raised", f"first use (connect, pair-verify, GET /accessories) on {host} raised {type(e).__name__}: {e}", dict(case, ops=[]))
                return
            await history_case(ctx, check, tap.requests, p, host, True, port, layout, ops, case, net=net)
        finally:
            try:
                await p.close()
            except Exception:  # noqa: BLE001
                pass


# ---------------------------------------------------------------------------------------------------------------------
# the accessory database the pairing holds is not the one the accessory has NOW: fetched earlier and outdated since (a bridge
# gained / lost an accessory, a firmware update added a service or a characteristic, instance ids renumbered), a stale cache
# read back from disk, an empty one, none at all.  The caller may know better than the pairing's database (it has seen the
# new advertisement, another controller's view, a newer cache): it issues reads / writes / registrations over ids that the
# database knows all, partly, or not at all.  Whatever the library then WRITES is judged as everywhere else: the canonical
# request for the payload that was issued - every item, in the caller's order, nothing dropped, nothing added.
STALE_BASE = {1: [9, 10, 11, 12], 2: [20, 21, 22], 3: [30, 31]}
STALE_NOWHERE = [(1, 99), (1, 1000), (7, 70), (9, 2)]  # in no database of any world: unknown iid, a SERVICE's iid, unknown accessories
STALE_LOADS = ["cache-memory", "cache-file", "restore", "fetched", "populate"]


def _layout(d):
    return None if d is None else {int(a): [int(i) for i in iids] for a, iids in d.items()}


def _jlayout(d):
    return None if d is None else {str(a): list(iids) for a, iids in d.items()}


def _layout_ids(layout):
    """every characteristic id of the database stale_accessory_list(layout) describes (iid 2 = Identify, iid 3 = Name in each accessory)"""
    return {(a, i) for a, iids in layout.items() for i in list(iids) + [2, 3]}


def stale_accessory_list(layout):
    """an accessory database: per accessory the information service (iid 1: Identify 2, Name 3) and one service per decade of
    the iids given (service iid 1000 + decade) - a new decade is a new service, a new iid in a decade a new characteristic of an
    existing service; every third characteristic is write-only"""
    out = []
    for aid, iids in sorted(layout.items()):
        services = [{"iid": 1, "type": ServicesTypes.ACCESSORY_INFORMATION, "characteristics": [{"iid": 2, "type": CharacteristicsTypes.IDENTIFY, "perms": ["pw"], "format": "bool"},
                                                                                               {"iid": 3, "type": CharacteristicsTypes.NAME, "perms": ["pr"], "format": "string", "value": f"acc {aid}"}]}]
        by = collections.defaultdict(list)
        for iid in iids:
            by[iid // 10].append(iid)
        for dec, group in sorted(by.items()):
            services.append({"iid": 1000 + dec, "type": ServicesTypes.LIGHTBULB,
                             "characteristics": [dict({"iid": iid, "type": CharacteristicsTypes.ON, "format": "bool"}, **({"perms": ["pw"]} if iid % 3 == 0 else {"perms": ["pr", "pw", "ev"], "value": False}))
                                                 for iid in group]})
        out.append({"aid": aid, "services": services})
    return out


def stale_shape(ids, unknown):
    """how the ids of a call relate to the database the pairing was given"""
    if not unknown:
        return "all-known"
    if set(unknown) == set(ids):
        return "all-unknown"
    flags = [x in unknown for x in ids]
    return "partly-known:unknown-first" if flags[0] else "partly-known:unknown-last" if flags[-1] else "partly-known:unknown-inside"


class StaleWorld:
    """the accessory side of the stale-database histories, HAP 6.7: answers from the database it has NOW (a request naming an id
    it does not have is answered 207 Multi-Status with -70409 for that id) - and the harness's own record of the database
    the pairing was last GIVEN (by the harness through cache / restore, or by this accessory answering GET /accessories)"""

    def __init__(self, now, held=None):
        self.now = _layout(now)
        self.held = None if held is None else _layout_ids(_layout(held))

    def unknown(self, ids):
        return [tuple(x) for x in ids if self.held is None or tuple(x) not in self.held]

    def held_aids(self):
        return {a for a, _ in self.held} if self.held else set()

    def held_text(self):
        if self.held is None:
            return "none"
        by = collections.defaultdict(list)
        for a, i in sorted(self.held):
            by[a].append(i)
        return str(dict(by))

    def reply(self, method, target, body):
        have = _layout_ids(self.now)
        if method == "GET" and target == "/accessories":
            self.held = set(have)
            return http(json.dumps({"accessories": stale_accessory_list(self.now)}).encode())
        if method == "GET" and target.startswith("/characteristics"):
            ids = read_ids(f"GET {target} HTTP/1.1".encode()) or []
            if all(x in have for x in ids):
                return http(ref_json({"characteristics": [{"aid": a, "iid": i, "value": False} for a, i in ids]}))
            return http(ref_json({"characteristics": [dict({"aid": a, "iid": i}, **({"status": 0, "value": False} if (a, i) in have else {"status": -70409})) for a, i in ids]}), code=b"207 Multi-Status")
        if method == "PUT" and target == "/characteristics":
            d = safe_json(body)
            rows = d.get("characteristics") if isinstance(d, dict) else None
            if not isinstance(rows, list) or not all(isinstance(r, dict) and type(r.get("aid")) is int and type(r.get("iid")) is int for r in rows):
                return b"HTTP/1.1 204 No Content\r\n\r\n"  # (the harness judges the bytes itself)
            if all((r["aid"], r["iid"]) in have for r in rows):
                return b"HTTP/1.1 204 No Content\r\n\r\n"
            return http(ref_json({"characteristics": [{"aid": r["aid"], "iid": r["iid"], "status": 0 if (r["aid"], r["iid"]) in have else -70409} for r in rows]}), code=b"207 Multi-Status")
        if target == "/pairings":
            return http(PAIRINGS_REPLY, TLV_CT.encode())
        return http(b"{}")

    def reply_raw(self, req: bytes) -> bytes:
        parts = line_of(req).split(b" ")
        return self.reply(parts[0].decode("utf-8", "replace"), target_of(req), body_of(req))


def gen_stale_world(rng):
    """(relation, database the pairing holds, database the accessory has now)"""
    rel = rng.choice(["same", "gained-accessory", "gained-service", "gained-characteristic", "lost-accessory", "lost-characteristic", "renumbered", "several", "several", "none", "empty"])
    cached = {a: list(i) for a, i in STALE_BASE.items()}
    now = {a: list(i) for a, i in STALE_BASE.items()}

    def change(kind):
        if kind == "gained-accessory":
            aid = rng.choice([4, 5, 17])
            now[aid] = [rng.choice([9, 40, 41]), rng.choice([42, 50])]
        elif kind == "gained-service":
            aid = rng.choice(sorted(now))
            now[aid] = now[aid] + [60 + rng.randrange(3), 64]
        elif kind == "gained-characteristic":
            aid = rng.choice(sorted(now))
            now[aid] = now[aid] + [max(now[aid]) + 1]
        elif kind == "lost-accessory":
            now.pop(rng.choice([a for a in sorted(now) if a != 1] or [None]), None)
        elif kind == "lost-characteristic":
            aid = rng.choice(sorted(now))
            now[aid] = now[aid][:-1] or now[aid]
        elif kind == "renumbered":
            aid = rng.choice(sorted(now))
            now[aid] = [i + 100 for i in now[aid]]
    if rel == "several":
        for kind in rng.sample(["gained-accessory", "gained-service", "gained-characteristic", "lost-accessory", "lost-characteristic", "renumbered"], rng.randint(2, 3)):
            change(kind)
    elif rel in ("none", "empty"):
        if rng.random() < 0.5:
            change(rng.choice(["gained-accessory", "gained-service", "lost-accessory"]))
        cached = None if rel == "none" else {}
    else:
        change(rel)
    return rel, cached, now


def _stale_ids(rng, held, everything, shape):
    """the ids of one call: all known to the pairing's database, none, or some - the unknown ones first, last, inside, anywhere"""
    known = sorted(x for x in held if x[1] != 3)
    unknown = sorted(x for x in everything if x not in held and x[1] != 3)
    ks = rng.sample(known, rng.randint(1, min(4, len(known)))) if known else []
    us = rng.sample(unknown, rng.randint(1, min(3, len(unknown)))) if unknown else []
    if shape == "all-known" and ks:
        return _order_ids(rng, ks)
    if shape == "all-unknown" or not ks:
        return _order_ids(rng, us or ks)
    if not us:
        return _order_ids(rng, ks)
    rest = ks + us[1:]
    rng.shuffle(rest)
    if shape == "unknown-first":
        return us[:1] + rest
    if shape == "unknown-last":
        return rest + us[:1]
    if shape == "unknown-inside" and len(ks) >= 2:
        inner = ks[2:] + us
        rng.shuffle(inner)
        return ks[:1] + inner + ks[1:2]
    rest = ks + us
    rng.shuffle(rest)
    return rest


def gen_stale_history(rng, cached, now, n):
    """calls on a pairing whose database is `cached` while the accessory has `now`: reads / writes / registrations over ids
    that are all, partly or not in the database, identify, and - in between - the accessory changing once more, the pairing
    refreshing its database (after which the ids it has just learned are ordinary ones) or being handed another one"""
    cur = {a: list(i) for a, i in now.items()}
    held = set(_layout_ids(cached)) if cached is not None else set()  # steers the generator only - the oracle keeps its own record (StaleWorld.held)
    everything = set(STALE_NOWHERE) | _layout_ids(now) | (_layout_ids(cached) if cached else set())
    ops = []
    while len(ops) < n:
        r = rng.random()
        if r < 0.07 and ops:
            cur = {a: list(i) for a, i in cur.items()}
            aid = rng.choice([6, 8] + sorted(cur))
            cur[aid] = cur.get(aid, []) + [rng.choice([70, 71, 80])]
            everything |= _layout_ids(cur)
            ops.append({"op": "upgrade", "now": _jlayout(cur)})
        elif r < 0.15 and ops:
            ops.append({"op": "refresh", "how": rng.choice(["list", "populate"])})
            held = set(_layout_ids(cur))
        elif r < 0.19 and ops:
            db = {a: list(i) for a, i in rng.choice([STALE_BASE, cur, {1: [9, 10]}]).items()}
            ops.append({"op": "restore", "db": _jlayout(db)})
            held = set(_layout_ids(db))
        elif r < 0.24:
            if 1 in cur and (cached is None or 1 in {a for a, _ in held}):
                ops.append({"op": "identify"})
                if cached is None and not held:
                    held = set(_layout_ids(cur))
        else:
            entry = rng.choice(["put_characteristics"] * 3 + ["get_characteristics", "subscribe", "unsubscribe"])
            shape = rng.choice(["all-known", "all-unknown", "unknown-first", "unknown-last", "unknown-inside", "anywhere", "anywhere"])
            ids = _stale_ids(rng, held, everything, shape)
            if not ids:
                continue
            if entry in ("subscribe", "unsubscribe"):
                ops.append({"op": entry, "kind": rng.choice(REITERABLE + ["list", "list"]), "items": [list(x) for x in ids]})
            elif entry == "put_characteristics":
                ops.append({"op": entry, "kind": rng.choice([k[0] for k in KINDS] + ["list", "list", "list"]), "items": [[a, i, rng.choice(HISTORY_VALUES)] for a, i in ids]})
            else:
                ops.append({"op": entry, "kind": rng.choice([k[0] for k in KINDS] + ["list", "list"]), "items": [list(x) for x in ids]})
            if cached is None and not held and entry in ("put_characteristics", "get_characteristics"):
                held = set(_layout_ids(cur))  # a pairing without any database fetches it before it serves a read / write
    return ops


def stale_grid():
    """hand-written part: one outdated database, every id-taking entry point over every relation of the ids to it; then the
    pairing refreshes its database and the same calls are ordinary ones"""
    cached = {1: [9, 10], 2: [20]}
    now = {1: [9, 10, 11, 50], 2: [20], 4: [40]}  # a characteristic, a service and a bridged accessory more than the pairing knows
    sets = [[(1, 9), (2, 20)], [(1, 11)], [(4, 40)], [(1, 11), (1, 9)], [(1, 9), (4, 40), (2, 20)], [(1, 9), (1, 10), (1, 50)], [(1, 1000), (7, 70)], [(1, 11), (4, 40), (1, 10), (1, 50)]]
    ops = []
    for entry in ("put_characteristics", "get_characteristics", "subscribe", "unsubscribe"):
        for k, ids in enumerate(sets):
            items = [[a, i, HISTORY_VALUES[(k + j) % len(HISTORY_VALUES)]] for j, (a, i) in enumerate(ids)] if entry == "put_characteristics" else [list(x) for x in ids]
            ops.append({"op": entry, "kind": ("list", "tuple", "deque")[k % 3], "items": items})
    again = [dict(o) for o in ops if o["op"] == "put_characteristics"]
    return [(cached, now, ops + [{"op": "identify"}, {"op": "refresh", "how": "list"}] + again),
            (None, now, ops[3:6] + ops[:3]),
            ({}, now, ops[:8])]


async def stale_rig(ctx, check, loop, case):
    """a stale-database history on a pairing whose connection is the real HomeKitConnection (plain or encrypted) over the
    in-memory transport; the database is put in place directly (load 'direct') or there is none"""
    host, secure, port = case["host"], case["secure"], case["port"]
    cached = _layout(case["cached"])
    world = StaleWorld(case["now"], cached)
    rig = Rig(loop, host, secure, port)
    rig.responder = world.reply_raw
    conn = await rig.connect()
    try:
        p = mk_pairing(conn, {})
        p._accessories_state = None if cached is None else AccessoriesState(Accessories.from_list(stale_accessory_list(cached)), 3, None, 0)
        await history_case(ctx, check, rig.requests, p, host, secure, port, {}, case["ops"], case, world=world)
    finally:
        await conn.close()


async def stale_endtoend(ctx, check, loop, case):
    """a stale-database history on the real IpPairing(controller, pairing_data) against the reference accessory; the database
    reaches the pairing the public way: read from the controller's characteristic cache by the constructor (in memory, or
    the JSON file a previous run left on disk), handed over with restore_accessories_state, or fetched from the accessory
    (list_accessories_and_characteristics / async_populate_accessories_state) BEFORE the accessory changed"""
    import random
    rnd = random.Random(case["seed"])

    def rb(n):
        return bytes(rnd.randrange(256) for _ in range(n))
    host, port, load = case["host"], case["port"], case["load"]
    cached, now = _layout(case["cached"]), _layout(case["now"])
    net = simnet.Net(loop)
    world = StaleWorld(now)
    acc = Accessory(loop, net, rb, accessories=[])
    tap = Tap(acc, net)
    acc.responder = lambda s, method, target, body: world.reply(method, target, body)
    pd = acc.pairing_data([host], port)
    ctrl = MagicMock()
    ctrl.pairings = {}
    ctrl._char_cache = CharacteristicCacheMemory()
    tmp = None
    try:
        if cached is not None and load == "cache-memory":
            ctrl._char_cache.async_create_or_update_map(pd["AccessoryPairingID"], 3, stale_accessory_list(cached))
            world.held = _layout_ids(cached)
        elif cached is not None and load == "cache-file":
            tmp = tempfile.mkdtemp(prefix="c09-cache-")
            path = pathlib.Path(tmp) / "characteristic-cache.json"
            path.write_text(json.dumps({"pairings": {pd["AccessoryPairingID"]: {"config_num": 3, "accessories": stale_accessory_list(cached), "broadcast_key": None, "state_num": None}}}), encoding="utf-8")
            ctrl._char_cache = CharacteristicCacheFile(path)
            world.held = _layout_ids(cached)
        with net.patched():
            p = IpPairing(ctrl, pd)
            try:
                if cached is not None and load == "restore":
                    p.restore_accessories_state(stale_accessory_list(cached), 3, None)
                    world.held = _layout_ids(cached)
                elif cached is not None and load in ("fetched", "populate"):
                    world.now = cached
                    try:
                        await (p.list_accessories_and_characteristics() if load == "fetched" else p.async_populate_accessories_state())
                    except Exception as e:  # noqa: BLE001
                        ctx.violation("request/endtoend/raised", f"first use (connect, pair-verify, GET /accessories) on {host} raised {type(e).__name__}: {e}", dict(case, ops=[]))
                        return
                    world.now = now  # ... and only then the accessory changes
                connected = load in ("fetched", "populate") and cached is not None
                if not connected and case.get("connect_first"):
                    # the session is set up by a call that has nothing to do with the database
                    try:
                        await p.list_pairings()
                    except Exception as e:  # noqa: BLE001
                        ctx.violation("request/endtoend/raised", f"first use (connect, pair-verify, list_pairings) on {host} raised {type(e).__name__}: {e}", dict(case, ops=[]))
                        return
                    connected = True
                await history_case(ctx, check, tap.requests, p, host, True, port, {}, case["ops"], case, net=net, world=world, connected=connected)
            finally:
                try:
                    await p.close()
                except Exception:  # noqa: BLE001
                    pass
    finally:
        if tmp is not None:
            shutil.rmtree(tmp, ignore_errors=True)


async def stale_case(ctx, check, loop, case):
    if case["mode"] == "endtoend":
        await stale_endtoend(ctx, check, loop, case)
    else:
        await stale_rig(ctx, check, loop, case)


def run(ctx: Ctx, driver: Driver):
    rng = ctx.rng
    loop = simnet.VLoop()
    asyncio.set_event_loop(loop)
    for c in load_corpus(ID):
        pass
    cases, outs, lines = [], [], []

    check = make_check(ctx, cases, outs, lines)
    noted = set()

    async def scenario(host, secure, port=80):
        rig = Rig(loop, host, secure, port)
        rig.responder = responder
        conn = await rig.connect()
        check.port = port

        def last():
            return rig.requests[-1]
        # ---- raw entry points
        for target in ("/accessories", "/characteristics?id=1.2", "/x y"):
            await conn.get(target)
            check("get", host, secure, *last(), "GET", target, None, None)
        for _ in range(ctx.budget(6, 60)):
            v = rand_json(rng) if rng.random() < 0.8 else {"characteristics": [{"aid": 1, "iid": 10, "value": rng.choice([2 ** 64, -2 ** 64, PAIR(3, 4), 2 ** 64 - 1])}]}
            try:
                body = hkjson.dump_bytes(v)
            except Exception as e:  # noqa: BLE001
                # the encoder refuses the value: nothing is written, which the property allows
                ctx.dist["json:encoder-refuses:" + type(e).__name__] += 1
                continue
            if ws_outside_strings(body) or json.loads(body) != json.loads(json.dumps(v)):
                ctx.violation("json/compact", f"JSON body {body[:120]!r} is not compact or does not parse back", {"stream": "json", "value": repr(v)[:300]})
            await conn.put("/characteristics", body)
            check("put", host, secure, *last(), "PUT", "/characteristics", "application/hap+json", body)
        for n in (1, 255, 1023, 1024, 1025, 3000):
            body = bytes(rng.randrange(256) for _ in range(n))
            await conn.post("/pair-setup", body)
            check("post", host, secure, *last(), "POST", "/pair-setup", "application/pairing+tlv8", body)
            await conn.put("/resource", body, content_type=HttpContentTypes.TLV)
            check("put-tlv", host, secure, *last(), "PUT", "/resource", "application/pairing+tlv8", body)
        # ---- request() itself, the way get/put/post call it
        for target in ("/accessories", "/characteristics?id=1.10,2.20"):
            await conn.request("GET", target)
            check("request-get", host, secure, *last(), "GET", target, None, None)
        for method, target, ct in (("PUT", "/characteristics", JSON_CT), ("POST", "/resource", JSON_CT), ("POST", "/pairings", TLV_CT)):
            body = ref_json(rand_json(rng)) if ct == JSON_CT else refacc.tlv([(6, b"\x01"), (0, b"\x05")])
            await conn.request(method, target, headers=[("Content-Length", len(body)), ("Content-Type", ct)], body=body)
            check("request-body", host, secure, *last(), method, target, ct, body)
        # ---- the JSON / TLV entry points of the connection, the document itself being the input: empty and falsy documents first
        docs = list(SMALL_DOCS) + [rand_json(rng) for _ in range(ctx.budget(6, 60))]
        for k, doc in enumerate(docs):
            await json_entry_case(ctx, check, rig, host, secure, "post_json", ("/identify", "/resource", "/characteristics")[k % 3], doc)
            await json_entry_case(ctx, check, rig, host, secure, "put_json", ("/characteristics", "/resource")[k % 2], doc)
        for k in range(ctx.budget(4, 30)):
            items = [(6, b"\x01"), (0, bytes([rng.randrange(6)]))] + [(rng.choice([1, 3, 5, 10, 11]), bytes(rng.randrange(256) for _ in range(rng.choice([1, 32, 64, 255, 256, 510, 700]))))
                                                                      for _ in range(rng.randint(0, 3))]
            await tlv_entry_case(ctx, check, rig, host, secure, ("/pairings", "/pair-setup", "/pair-verify")[k % 3], items)
        # ---- pairing API
        layout = {1: [10, 11, 12, 13], 2: [20, 21, 22, 23]}
        p = mk_pairing(conn, layout)
        allids = [(a, i) for a, iids in layout.items() for i in iids]
        # every kind of Iterable the signatures admit, on every id-taking entry point
        for kname, _, _, _ in KINDS:
            for _ in range(ctx.budget(1, 4)):
                ids = rng.sample(allids, rng.randint(1, 8))
                if rng.random() < 0.3:
                    ids += rng.sample(ids, rng.randint(1, len(ids)))  # an id asked for twice is still read once
                await iterable_case(ctx, check, rig.requests, p, host, secure, "get_characteristics", kname, ids, noted, port)
                ids = rng.sample(allids, rng.randint(1, 6))
                await iterable_case(ctx, check, rig.requests, p, host, secure, "put_characteristics", kname, [(a, i, rng.choice(WRITE_VALUES)) for a, i in ids], noted, port)
                ids = rng.sample(allids, rng.randint(1, 8))
                await iterable_case(ctx, check, rig.requests, p, host, secure, "subscribe", kname, ids, noted, port)
                await iterable_case(ctx, check, rig.requests, p, host, secure, "unsubscribe", kname, ids, noted, port)
                # leave nothing registered, whatever the call above did with its argument
                await p.unsubscribe(list(ids))
        for _ in range(ctx.budget(6, 40)):
            ids = rng.sample(allids, rng.randint(1, 8))
            await p.get_characteristics(ids)
            req, nc = last()
            line = req.split(b"\r\n", 1)[0].decode()
            m = re.fullmatch(r"GET /characteristics\?id=([0-9.,]+) HTTP/1.1", line)
            got_ids = sorted(tuple(int(x) for x in t.split(".")) for t in m.group(1).split(",")) if m else None
            if got_ids != sorted(set(ids)):
                ctx.violation("request/ids", f"read of {sorted(set(ids))} rendered as {line!r}", {"stream": "ids", "ids": ids})
            check("get_characteristics", host, secure, req, nc, "GET", line.split(" ")[1], None, None, to_model=False)
            ctx.evaluations += 1
        for _ in range(ctx.budget(5, 40)):
            ids = rng.sample(allids, rng.randint(1, 5))
            vals = [(a, i, rng.choice([True, False, 1, 0])) for a, i in ids]
            await p.put_characteristics(vals)
            req, nc = last()
            body = req.split(b"\r\n\r\n", 1)[1]
            want_body = json.dumps({"characteristics": [{"aid": a, "iid": i, "value": v} for a, i, v in vals]}, separators=(",", ":")).encode()
            if body != want_body:
                ctx.violation("request/write-payload", f"write payload {body[:150]!r} != compact {want_body[:150]!r}", {"stream": "payload", "vals": vals})
            check("put_characteristics", host, secure, req, nc, "PUT", "/characteristics", "application/hap+json", body)
        for ev, fn in ((True, p.subscribe), (False, p.unsubscribe)):
            ids = [(1, 10), (1, 11)]
            n0 = len(rig.requests)
            await fn(ids)
            for req, nc in rig.requests[n0:]:
                body = req.split(b"\r\n\r\n", 1)[1]
                d = json.loads(body)
                ok = ws_outside_strings(body) is False and all(set(c) == {"aid", "iid", "ev"} and c["ev"] is ev for c in d["characteristics"])
                if not ok:
                    ctx.violation("request/subscribe-payload", f"subscribe payload {body!r}", {"stream": "payload", "ev": ev})
                check("subscribe" if ev else "unsubscribe", host, secure, req, nc, "PUT", "/characteristics", "application/hap+json", body)
        n0 = len(rig.requests)
        await p.identify()
        if len(rig.requests) == n0 + 1:
            req, nc = last()
            check("identify", host, secure, req, nc, "PUT", "/characteristics", "application/hap+json", req.split(b"\r\n\r\n", 1)[1])
        else:
            ctx.notes.append("identify issued no single request")
        # camera snapshot: a JSON POST (the only one of the API)
        n0 = len(rig.requests)
        try:
            await p.image(1, 640, 480)
        except Exception as e:  # noqa: BLE001
            ctx.notes.append(f"image() raised {type(e).__name__} after the request was written")
        if len(rig.requests) == n0 + 1:
            req, nc = last()
            body = req.split(b"\r\n\r\n", 1)[1]
            try:
                d = json.loads(body)
            except ValueError:
                d = None
            if ws_outside_strings(body) or d != {"aid": 1, "resource-type": "image", "image-width": 640, "image-height": 480}:
                ctx.violation("request/image-payload", f"snapshot payload {body!r}", {"stream": "payload", "kind": "image"})
            check("image", host, secure, req, nc, "POST", "/resource", "application/hap+json", body)
        else:
            ctx.violation("request/image/calls", f"image() issued {len(rig.requests) - n0} requests", {"stream": "request", "kind": "image"})
        await p.list_accessories_and_characteristics()
        check("list_accessories", host, secure, *last(), "GET", "/accessories", None, None)
        await p.list_pairings()
        req, nc = last()
        check("list_pairings", host, secure, req, nc, "POST", "/pairings", "application/pairing+tlv8", req.split(b"\r\n\r\n", 1)[1])
        await p.add_pairing("other", "00" * 32, "User")
        req, nc = last()
        check("add_pairing", host, secure, req, nc, "POST", "/pairings", "application/pairing+tlv8", req.split(b"\r\n\r\n", 1)[1])
        # ---- the excluded point, run and reported
        await conn.put("/characteristics", b"")
        ctx.notes.append(f"put(target, b'') on {host}: {last()[0]!r} (outside the theorem: not reachable through the pairing API)") if host == HOSTS[0] and not secure else None
        # ... judged all the same, by what BOTH readings of "only when there is a body" demand of an empty body: either neither
        # header, or Content-Length: 0 followed by Content-Type - never one without the other, never in the other order
        for name, fn in (("put", conn.put), ("post", conn.post)):
            await fn("/characteristics", b"")
            req = last()[0]
            head = req.split(b"\r\n\r\n", 1)[0].split(b"\r\n")[2:]
            names = [h.split(b":", 1)[0] for h in head]
            ctx.evaluations += 1
            ctx.dist["request:empty-body"] += 1
            if not (names == [] or (names == [b"Content-Length", b"Content-Type"] and head[0] == b"Content-Length: 0")) or not req.endswith(b"\r\n\r\n"):
                ctx.violation(f"request/{name}/empty-body-headers", f"{name}(target, b'') on {host} wrote {req!r}: for an empty body the request must carry either neither Content-Length nor "
                              "Content-Type, or `Content-Length: 0` followed by Content-Type", {"stream": "request", "kind": name + "-empty", "host": host})
        await conn.close()

    async def scenario_subscriptions(host):
        """subscribe / unsubscribe with id lists in any order over several accessories: every id asked for is put on the
        wire exactly once, in well-formed requests, and nothing else is"""
        rig = Rig(loop, host, False)
        rig.responder = responder
        conn = await rig.connect()
        layout = {1: [10, 11, 12, 13], 2: [20, 21, 22, 23], 3: [30, 31]}
        allids = [(a, i) for a, iids in layout.items() for i in iids]
        trials = [[(1, 10), (2, 20), (1, 11)], [(2, 20), (1, 10), (2, 21), (1, 11), (3, 30)], [(3, 31), (1, 13), (3, 30)]]
        trials += [rng.sample(allids, rng.randint(1, 8)) for _ in range(ctx.budget(10, 80))]
        for ids in trials:
            p = mk_pairing(conn, layout)
            for ev, fn in ((True, p.subscribe), (False, p.unsubscribe)):
                n0 = len(rig.requests)
                await fn(list(ids))
                seen = []
                for req, nc in rig.requests[n0:]:
                    body = req.split(b"\r\n\r\n", 1)[1]
                    d = json.loads(body)
                    ok = ws_outside_strings(body) is False and all(set(c) == {"aid", "iid", "ev"} and c["ev"] is ev for c in d["characteristics"])
                    if not ok:
                        ctx.violation("request/subscribe-payload", f"subscribe payload {body!r}", {"stream": "payload", "ev": ev})
                    seen += [(c["aid"], c["iid"]) for c in d["characteristics"]]
                    check("subscribe" if ev else "unsubscribe", host, False, req, nc, "PUT", "/characteristics", "application/hap+json", body, to_model=False)
                ctx.evaluations += 1
                ctx.nontrivial.add(("sub-ids", tuple(a for a, _ in ids), ev))
                if sorted(seen) != sorted(set(ids)):
                    missing = sorted(set(ids) - set(seen))
                    ctx.violation("request/subscribe-ids", f"{'subscribe' if ev else 'unsubscribe'}({ids}) put {seen} on the wire in {len(rig.requests) - n0} request(s)" + (f"; never written: {missing}" if missing else ""),
                                  {"stream": "payload", "ids": ids, "ev": ev})
        await conn.close()

    async def scenario_reconnect(host_a, host_b, secure):
        """one connection object, two addresses: after it re-connects to the other address every request names THAT host"""
        rig = Rig(loop, host_a, secure)
        rig.responder = responder
        with rig.net.patched():
            rig.conn = conn = ipc.HomeKitConnection(None, [host_a, host_b], 80)
            for idx, host in ((0, host_a), (1, host_b), (0, host_a)):
                rig.net.connect_outcomes.append(("ok", idx))
                rig.rctr = rig.wctr = 0
                rig.ebuf = rig.pbuf = b""
                rig.ncalls_seen = 0
                await conn._connect_once()
                if secure:
                    t = conn.transport
                    pr = ipc.SecureHomeKitProtocol(conn, rig.a2c, rig.c2a)
                    pr.connection_made(t)
                    t.set_protocol(pr)
                    conn.protocol = pr
                    conn.is_secure = True
                peer = conn.transport.host  # the address the simulated network really connected
                if peer != host:
                    ctx.notes.append(f"reconnect scenario: expected peer {host}, simnet connected {peer}")
                for target, body in (("/accessories", None), ("/characteristics", b'{"characteristics":[]}')):
                    if body is None:
                        await conn.get(target)
                        check("get-after-reconnect", peer, secure, *rig.requests[-1], "GET", target, None, None)
                    else:
                        await conn.put(target, body)
                        check("put-after-reconnect", peer, secure, *rig.requests[-1], "PUT", target, "application/hap+json", body)
                # drop this connection without waking the background connector (this scenario connects by hand)
                conn.closing = True
                conn.transport.close()
                await asyncio.sleep(0)
                conn.transport = None
                conn.protocol = None
                conn.is_secure = False
                conn.closing = False
                conn.closed = False
        await conn.close()

    def drive(coro, what, case):
        """an exception escaping a scenario is the library misbehaving on a valid input: reported with the input, not a harness crash"""
        try:
            loop.run_until_complete(coro)
        except Exception as e:  # noqa: BLE001
            tb = traceback.extract_tb(e.__traceback__)
            where = next((f"{f.filename}:{f.lineno}" for f in reversed(tb) if "/aiohomekit/" in f.filename), f"{tb[-1].filename}:{tb[-1].lineno}")
            ctx.violation("request/scenario/raised", f"{what}: {type(e).__name__}: {e} (at {where})", case)

    ports = [80, 51827, 8080, 80, 443, 80, 49152, 80, 80, 5001]  # the port never shows in the Host header, whatever it is
    for hi, host in enumerate(HOSTS):
        for secure in (False, True):
            port = ports[(2 * hi + secure) % len(ports)]
            ctx.dist[f"port:{'80' if port == 80 else 'other'}"] += 1
            drive(scenario(host, secure, port), f"entry points on {host} port {port} ({'encrypted' if secure else 'plain'})", {"stream": "scenario", "host": host, "port": port, "secure": secure})
    check.port = 80
    drive(scenario_subscriptions(HOSTS[0]), "subscription id lists", {"stream": "scenario", "name": "subscriptions", "host": HOSTS[0]})
    for host_a in HOSTS:
        for host_b in HOSTS:
            if host_a != host_b:
                secure = (HOSTS.index(host_a) + HOSTS.index(host_b)) % 2 == 1
                drive(scenario_reconnect(host_a, host_b, secure=secure), f"reconnect {host_a} -> {host_b}", {"stream": "scenario", "name": "reconnect", "hosts": [host_a, host_b], "secure": secure})
    for host in HOSTS:
        for _ in range(ctx.budget(1, 6)):
            seed = rng.randrange(2 ** 32)
            port = rng.choice([80, 80, 51827, 8080, 32768])
            drive(endtoend_case(ctx, check, loop, host, seed, noted, port), f"end to end on {host} port {port} (seed {seed})", {"stream": "endtoend", "host": host, "port": port, "seed": seed})
    # histories on one pairing object: hand-written ones and generated ones, on every host, plain and encrypted, and end to end
    check.port = 80
    hk = 0
    for ops in FIXED_HISTORIES:
        for secure in (False, True):
            host = HOSTS[hk % len(HOSTS)]
            hk += 1
            drive(history_rig(ctx, check, loop, host, secure, 80, ops), f"history on one pairing on {host}", {"stream": "history", "mode": "transport", "host": host, "port": 80, "secure": secure,
                                                                                                              "layout": {str(a): i for a, i in HISTORY_LAYOUT.items()}, "ops": ops})
    for _ in range(ctx.budget(8, 60)):
        for host in HOSTS:
            secure = rng.random() < 0.5
            port = rng.choice([80, 80, 51827, 8080])
            ops = gen_history(rng, HISTORY_LAYOUT, rng.randint(4, 14))
            drive(history_rig(ctx, check, loop, host, secure, port, ops), f"history on one pairing on {host}", {"stream": "history", "mode": "transport", "host": host, "port": port, "secure": secure,
                                                                                                                "layout": {str(a): i for a, i in HISTORY_LAYOUT.items()}, "ops": ops})
    for k in range(ctx.budget(10, 80)):
        host = HOSTS[k % len(HOSTS)]
        seed = rng.randrange(2 ** 32)
        port = rng.choice([80, 80, 51827, 32768])
        ops = (FIXED_HISTORIES[0][:3] + [{"op": "reconnect", "settle": [[1, 11]]}] + FIXED_HISTORIES[0][3:]) if k == 0 else gen_history(rng, HISTORY_LAYOUT, rng.randint(5, 14), reconnect=True)
        drive(history_endtoend(ctx, check, loop, host, port, seed, ops), f"history end to end on {host} port {port} (seed {seed})",
              {"stream": "history", "mode": "endtoend", "host": host, "port": port, "secure": True, "seed": seed, "layout": {str(a): i for a, i in HISTORY_LAYOUT.items()}, "ops": ops})
    # the pairing's accessory database is older than / different from what the accessory has now, or missing: hand-written grid, then generated worlds
    def stale(mode, host, port, secure, load, relation, cached, now, ops, seed=0):
        case = {"stream": "stale-db", "mode": mode, "host": host, "port": port, "secure": secure, "seed": seed, "load": load, "relation": relation,
                "connect_first": seed % 2 == 0, "cached": _jlayout(cached), "now": _jlayout(now), "ops": ops}
        check.port = port
        ctx.dist[f"stale-db:world:{relation}"] += 1
        ctx.dist[f"stale-db:load:{load}"] += 1
        drive(stale_case(ctx, check, loop, case), f"history on a pairing with an outdated accessory database ({mode}, {load}) on {host}", case)
    sk = 0
    for cached, now, ops in stale_grid():
        for mode, secure, load in (("transport", False, "direct"), ("transport", True, "direct"), ("endtoend", True, "cache-memory"), ("endtoend", True, "fetched")):
            host = HOSTS[sk % len(HOSTS)]
            sk += 1
            rel = "none" if cached is None else "empty" if not cached else "grid"
            stale(mode, host, 80, secure, "none" if cached is None else load, rel, cached, now, ops, seed=sk)
    lk = 0
    for k in range(ctx.budget(40, 300)):
        rel, cached, now = gen_stale_world(rng)
        host = HOSTS[k % len(HOSTS)]
        ops = gen_stale_history(rng, cached, now, rng.randint(4, 10))
        if k % 4 == 3:
            stale("transport", host, rng.choice([80, 80, 8080]), rng.random() < 0.5, "none" if cached is None else "direct", rel, cached, now, ops)
        else:
            lk += 1
            stale("endtoend", host, rng.choice([80, 80, 51827, 32768]), True, "none" if cached is None else STALE_LOADS[lk % len(STALE_LOADS)], rel, cached, now, ops, seed=rng.randrange(2 ** 32))
    check.port = 80
    ctx.sample(cases[1])
    ctx.sample(cases[-1])
    compare_with_model(ctx, "request", cases, outs, lines, driver)
    # url rendering vs model
    ucases, uouts, ulines = [], [], []
    for _ in range(ctx.budget(100, 2000)):
        ids = [(rng.randint(1, 3), rng.randint(1, 70000)) for _ in range(rng.randint(1, 8))]
        ucases.append({"stream": "url", "ids": ids})
        uouts.append("/characteristics?id=" + ",".join(f"{a}.{i}" for a, i in ids))
        ulines.append("rq.url " + " ".join(f"{a}.{i}" for a, i in ids))
    compare_with_model(ctx, "url", ucases, uouts, ulines, driver)
    loop.close()
    # the payload grouping of _update_subscriptions against the Lean model (Request.groupByAid, theorems C09_subscribe_payload*)
    from harness.c09_groups import run_groups
    run_groups(ctx, driver)


def replay(ctx, driver, c):
    """re-run one recorded case on the current tree; returns what it reproduces (None: nothing / not a replayable stream)"""
    stream = c.get("stream")
    host, secure, port = c.get("host", HOSTS[0]), bool(c.get("secure")), c.get("port", 80)
    loop = simnet.VLoop()
    asyncio.set_event_loop(loop)
    rctx = Ctx(ID, "quick", 0)
    check = make_check(rctx, [], [], [])

    async def on_rig(fn):
        rig = Rig(loop, host, secure, port)
        rig.responder = responder
        await rig.connect()
        try:
            await fn(rig)
        finally:
            await rig.conn.close()

    def pairing_for(rig, items):
        layout = {}
        for it in items:
            layout.setdefault(it[0], []).append(it[1])
        return mk_pairing(rig.conn, {a: sorted(set(i)) for a, i in layout.items()})

    async def empty_body(rig):
        name = c["kind"].split("-")[0]
        n0 = len(rig.requests)
        await getattr(rig.conn, name)("/characteristics", b"")
        req = rig.requests[-1][0] if len(rig.requests) > n0 else b""
        head = req.split(b"\r\n\r\n", 1)[0].split(b"\r\n")[2:]
        names = [h.split(b":", 1)[0] for h in head]
        if not (names == [] or (names == [b"Content-Length", b"Content-Type"] and head[0] == b"Content-Length: 0")):
            rctx.violation(f"request/{name}/empty-body-headers", f"{name}(target, b'') wrote {req!r}", c)

    async def go():
        if stream == "request" and str(c.get("kind", "")).endswith("-empty"):
            await on_rig(empty_body)
        elif stream == "json-entry":
            await on_rig(lambda rig: json_entry_case(rctx, check, rig, host, secure, c["entry"], c["target"], json.loads(c["doc"])))
        elif stream == "tlv-entry":
            await on_rig(lambda rig: tlv_entry_case(rctx, check, rig, host, secure, c["target"], [(t, bytes.fromhex(v)) for t, v in c["items"]]))
        elif stream == "iterable":
            await on_rig(lambda rig: iterable_case(rctx, check, rig.requests, pairing_for(rig, c["items"]), host, secure, c["entry"], c["kind"], c["items"], None, port))
        elif stream == "ids":
            await on_rig(lambda rig: iterable_case(rctx, check, rig.requests, pairing_for(rig, c["ids"]), host, secure, "get_characteristics", "list", c["ids"]))
        elif stream == "payload" and "vals" in c:
            await on_rig(lambda rig: iterable_case(rctx, check, rig.requests, pairing_for(rig, c["vals"]), host, secure, "put_characteristics", "list", c["vals"]))
        elif stream == "payload" and "ids" in c:
            await on_rig(lambda rig: iterable_case(rctx, check, rig.requests, pairing_for(rig, c["ids"]), host, secure, "subscribe" if c.get("ev") else "unsubscribe", "list", c["ids"]))
        elif stream == "history":
            if c.get("mode") == "endtoend":
                await history_endtoend(rctx, check, loop, host, port, c["seed"], c["ops"])
            else:
                await history_rig(rctx, check, loop, host, secure, port, c["ops"])
        elif stream == "stale-db":
            await stale_case(rctx, check, loop, c)
        elif stream == "endtoend" and "seed" in c:
            await endtoend_case(rctx, check, loop, host, c["seed"], None, port)
        elif stream == "request" and c.get("kind") in ("get", "put", "post", "put-tlv", "request-get", "request-body"):
            async def raw(rig):
                body = None if c.get("body") is None else (b"" if c["body"] == "-" else bytes.fromhex(c["body"]))
                if body is None:
                    await rig.conn.get(c["target"])
                    check(c["kind"], host, secure, *rig.requests[-1], "GET", c["target"], None, None, to_model=False)
                else:
                    tlv_ct = c["kind"] in ("post", "put-tlv")
                    await (rig.conn.post if c["method"] == "POST" else rig.conn.put)(c["target"], body, content_type=HttpContentTypes.TLV if tlv_ct else HttpContentTypes.JSON)
                    check(c["kind"], host, secure, *rig.requests[-1], c["method"], c["target"], TLV_CT if tlv_ct else JSON_CT, body, to_model=False)
            if c.get("kind") != "request-body":
                await on_rig(raw)
    try:
        loop.run_until_complete(go())
    except Exception as e:  # noqa: BLE001
        rctx.violation("request/replay/raised", f"{type(e).__name__}: {e}", c)
    finally:
        loop.close()
    return [{"signature": v["signature"], "what": v["what"][:400]} for v in rctx.violations] or None
