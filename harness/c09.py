"""C09 - requests are written byte-for-byte in the canonical iOS form."""
from __future__ import annotations

import asyncio
import json
import re
import struct

from cryptography.hazmat.primitives.ciphers.aead import ChaCha20Poly1305

from harness import simnet
from harness.common import Ctx, Driver, compare_with_model, hx, load_corpus

import aiohomekit.controller.ip.connection as ipc
from aiohomekit import hkjson
from aiohomekit.controller.ip.pairing import IpPairing
from aiohomekit.http import HttpContentTypes
from aiohomekit.model import Accessories, AccessoriesState
from aiohomekit.model.characteristics import CharacteristicsTypes
from aiohomekit.model.services import ServicesTypes

ID = "C09"
RULE = ("raw get/put/post and the pairing API (get/put characteristics, subscribe/unsubscribe, identify, list/add/remove pairings, list accessories) x hosts {IPv4, IPv6, scoped IPv6} x "
        "plain and encrypted sessions x id sets 1..8 x payload shapes; JSON bodies of nested values incl. unicode/escaped strings, 64-bit ints, bools, null. "
        "non-trivial = distinct (entry point, host kind, secure?, body kind)")
TRUSTED = ["orjson (compact output is checked structurally and by re-parsing, not modelled)", "cryptography ChaCha20Poly1305 to read the controller's encrypted frames"]
ASSUMPTIONS = ["'only when there is a body' is read at the API the library exposes: get passes no body and emits neither header; put/post always pass one and emit both. "
               "put(target, b'') (not reachable through the pairing API) emits Content-Length: 0 + Content-Type - run on this tree and reported in notes, outside the theorem's scope",
               "single *call* to the transport is checked; single syscall/packet is asyncio's and the OS's business"]
EXPLANATION = "Lean theorems C09_* (request bytes = iOS spec form for all targets/hosts/bodies); differential tie through the real HomeKitConnection/IpPairing on an in-memory transport"

HOSTS = ["10.0.0.7", "192.168.1.250", "fe80::1%eth0", "2001:db8::42", "::1"]


def nonce(c):
    return struct.pack("<LQ", 0, c)


class Rig:
    """a real HomeKitConnection connected over simnet; optionally switched to the real SecureHomeKitProtocol"""

    def __init__(self, loop, host, secure):
        self.loop = loop
        self.net = simnet.Net(loop)
        self.host = host
        self.secure = secure
        self.requests = []  # (decoded request bytes, number of transport calls used)
        self.responder = None
        self.c2a = bytes(range(32))
        self.a2c = bytes(range(32, 64))
        self.rctr = 0
        self.wctr = 0
        self.ebuf = b""
        self.net.handler = self.on_write
        self.ncalls_seen = 0
        self.pbuf = b""
        self.pcalls = 0

    async def connect(self):
        with self.net.patched():
            self.conn = ipc.HomeKitConnection(None, [self.host], 80)
            await self.conn._connect_once()
        if self.secure:
            t = self.conn.transport
            p = ipc.SecureHomeKitProtocol(self.conn, self.a2c, self.c2a)
            p.connection_made(t)
            t.set_protocol(p)
            self.conn.protocol = p
            self.conn.is_secure = True
        return self.conn

    def on_write(self, t, data):
        ncalls = len(t.calls) - self.ncalls_seen
        self.ncalls_seen = len(t.calls)
        if self.secure:
            self.ebuf += data
            plain = b""
            while len(self.ebuf) >= 2:
                n = struct.unpack("<H", self.ebuf[:2])[0]
                if len(self.ebuf) < 2 + n + 16:
                    break
                plain += ChaCha20Poly1305(self.c2a).decrypt(nonce(self.rctr), self.ebuf[2:2 + n + 16], self.ebuf[:2])
                self.rctr += 1
                self.ebuf = self.ebuf[2 + n + 16:]
            data = plain
        # a request may (wrongly) arrive in several transport calls: collect until the HTTP message is complete and count the calls
        self.pbuf += data
        self.pcalls += ncalls
        i = self.pbuf.find(b"\r\n\r\n")
        if i < 0:
            return
        cl = 0
        for h in self.pbuf[:i].split(b"\r\n")[1:]:
            if h.lower().startswith(b"content-length:"):
                try:
                    cl = int(h.split(b":", 1)[1])
                except ValueError:
                    cl = 0
        if len(self.pbuf) < i + 4 + cl:
            return
        data, self.pbuf = self.pbuf[:i + 4 + cl], self.pbuf[i + 4 + cl:]
        self.requests.append((data, self.pcalls))
        self.pcalls = 0
        resp = self.responder(data) if self.responder else b"HTTP/1.1 204 No Content\r\n\r\n"
        self.loop.call_soon(self.respond, t, resp)

    def respond(self, t, resp):
        if self.secure:
            out = b""
            for i in range(0, len(resp), 1024):
                blk = resp[i:i + 1024]
                lb = struct.pack("<H", len(blk))
                out += lb + ChaCha20Poly1305(self.a2c).encrypt(nonce(self.wctr), blk, lb)
                self.wctr += 1
            resp = out
        t.feed(resp)


def http(body, ctype=b"application/hap+json", code=b"200 OK"):
    return b"HTTP/1.1 " + code + b"\r\nContent-Type: " + ctype + b"\r\nContent-Length: %d\r\n\r\n" % len(body) + body


def responder(req: bytes) -> bytes:
    line = req.split(b"\r\n", 1)[0]
    if line.startswith(b"GET /characteristics"):
        return http(b'{"characteristics":[]}')
    if line.startswith(b"GET /accessories"):
        return http(b'{"accessories":[]}')
    if line.startswith(b"POST /pairings"):
        return http(bytes([6, 1, 2, 1, 3]) + b"ctl" + bytes([3, 32]) + bytes(32) + bytes([11, 1, 1]), b"application/pairing+tlv8")
    if line.startswith(b"PUT"):
        return b"HTTP/1.1 204 No Content\r\n\r\n"
    return http(b"{}")


def spec_request(method, target, host, ctype=None, body=None):
    """the iOS form, written out independently"""
    h = f"[{host}]" if ":" in host else host
    s = f"{method} {target} HTTP/1.1\r\nHost: {h}\r\n"
    if body is not None:
        s += f"Content-Length: {len(body)}\r\nContent-Type: {ctype}\r\n"
    return (s + "\r\n").encode() + (body or b"")


PAIR = __import__("collections").namedtuple("PAIR", "a b")


def rand_json(rng, depth=0):
    r = rng.random()
    if depth > 2 or r < 0.35:
        return rng.choice([0, 1, -1, 255, 2 ** 63 - 1, -2 ** 63, 2 ** 64 - 1, True, False, None, "on", "a b", 'q"uote', "tab\there", "nl\nx", "üñí€", " ", "back\\slash", ""])
    if r < 0.65:
        return [rand_json(rng, depth + 1) for _ in range(rng.randint(0, 3))]
    return {rng.choice(["aid", "iid", "value", "ev", "k y", "ü", "characteristics"]) + str(i): rand_json(rng, depth + 1) for i in range(rng.randint(0, 3))}


def ws_outside_strings(b: bytes) -> bool:
    """does the JSON text contain whitespace outside string literals?"""
    ins = False
    esc = False
    for c in b:
        ch = chr(c)
        if ins:
            if esc:
                esc = False
            elif ch == "\\":
                esc = True
            elif ch == '"':
                ins = False
        else:
            if ch == '"':
                ins = True
            elif ch in " \t\r\n":
                return True
    return False


def mk_pairing(conn, layout):
    p = IpPairing.__new__(IpPairing)

    async def noop(*a, **k):
        return None
    p._ensure_connected = noop
    p.connection = conn
    lst = [{"aid": aid, "services": [{"iid": 1, "type": ServicesTypes.ACCESSORY_INFORMATION, "characteristics": [{"iid": 2, "type": CharacteristicsTypes.IDENTIFY, "perms": ["pw"], "format": "bool"}]},
                                     {"iid": 1000, "type": ServicesTypes.LIGHTBULB, "characteristics": [{"iid": iid, "type": CharacteristicsTypes.ON, "perms": ["pr", "pw", "ev"], "format": "bool", "value": False} for iid in iids]}]}
           for aid, iids in layout.items()]
    p._accessories_state = AccessoriesState(Accessories.from_list(lst), 1, None, 0)
    p.listeners = set()
    p.subscriptions = set()
    p.supports_subscribe = True
    p.pairing_data = {"AccessoryPairingID": "AA:BB:CC:DD:EE:FF", "iOSPairingId": "ctl"}
    p.id = "aa:bb:cc:dd:ee:ff"
    p._shutdown = False
    from unittest.mock import MagicMock
    from aiohomekit.characteristic_cache import CharacteristicCacheMemory
    p.controller = MagicMock()
    p.controller._char_cache = CharacteristicCacheMemory()
    p.description = None
    p.config_changed_listeners = set()
    p.availability_listeners = set()
    return p


def run(ctx: Ctx, driver: Driver):
    rng = ctx.rng
    loop = simnet.VLoop()
    asyncio.set_event_loop(loop)
    for c in load_corpus(ID):
        pass
    cases, outs, lines = [], [], []

    def check(kind, host, secure, req, ncalls, method, target, ctype, body, to_model=True):
        """req = bytes the accessory decoded; (method, target, ctype, body) = what the caller asked for"""
        ctx.evaluations += 1
        case = {"stream": "request", "kind": kind, "host": host, "secure": secure, "method": method, "target": target, "body": hx(body) if body is not None else None}
        want = spec_request(method, target, host, ctype, body)
        ctx.nontrivial.add((kind, ":" in host, "%" in host, secure, body is None, len(body or b"") > 1024))
        if req != want:
            ctx.violation(f"request/{kind}/bytes", f"{kind} on {host}: wrote {req[:160]!r}, the iOS form is {want[:160]!r}", case)
        if ncalls != 1:
            ctx.violation(f"request/{kind}/calls", f"{kind}: the request was handed to the transport in {ncalls} calls", case)
        if to_model:
            cases.append(case)
            outs.append(hx(req))
            if body is None:
                lines.append(f"rq.get {hx(target.encode())} {hx(host.encode())}")
            else:
                lines.append(f"rq.body {hx(method.encode())} {hx(target.encode())} {hx(host.encode())} {hx(ctype.encode())} {hx(body)}")
        ctx.dist[f"request:{kind}"] += 1

    async def scenario(host, secure):
        rig = Rig(loop, host, secure)
        rig.responder = responder
        conn = await rig.connect()

        def last():
            return rig.requests[-1]
        # ---- raw entry points
        for target in ("/accessories", "/characteristics?id=1.2", "/x y"):
            await conn.get(target)
            check("get", host, secure, *last(), "GET", target, None, None)
        for _ in range(ctx.budget(6, 60)):
            v = rand_json(rng) if rng.random() < 0.8 else {"characteristics": [{"aid": 1, "iid": 10, "value": rng.choice([2 ** 64, -2 ** 64, PAIR(3, 4), 2 ** 64 - 1])}]}
            try:
                body = hkjson.dump_bytes(v)
            except Exception as e:  # noqa: BLE001
                # the encoder refuses the value: nothing is written, which the property allows
                ctx.dist["json:encoder-refuses:" + type(e).__name__] += 1
                continue
            if ws_outside_strings(body) or json.loads(body) != json.loads(json.dumps(v)):
                ctx.violation("json/compact", f"JSON body {body[:120]!r} is not compact or does not parse back", {"stream": "json", "value": repr(v)[:300]})
            await conn.put("/characteristics", body)
            check("put", host, secure, *last(), "PUT", "/characteristics", "application/hap+json", body)
        for n in (1, 255, 1023, 1024, 1025, 3000):
            body = bytes(rng.randrange(256) for _ in range(n))
            await conn.post("/pair-setup", body)
            check("post", host, secure, *last(), "POST", "/pair-setup", "application/pairing+tlv8", body)
            await conn.put("/resource", body, content_type=HttpContentTypes.TLV)
            check("put-tlv", host, secure, *last(), "PUT", "/resource", "application/pairing+tlv8", body)
        # ---- pairing API
        layout = {1: [10, 11, 12, 13], 2: [20, 21, 22, 23]}
        p = mk_pairing(conn, layout)
        allids = [(a, i) for a, iids in layout.items() for i in iids]
        for _ in range(ctx.budget(6, 40)):
            ids = rng.sample(allids, rng.randint(1, 8))
            await p.get_characteristics(ids)
            req, nc = last()
            line = req.split(b"\r\n", 1)[0].decode()
            m = re.fullmatch(r"GET /characteristics\?id=([0-9.,]+) HTTP/1.1", line)
            got_ids = sorted(tuple(int(x) for x in t.split(".")) for t in m.group(1).split(",")) if m else None
            if got_ids != sorted(set(ids)):
                ctx.violation("request/ids", f"read of {sorted(set(ids))} rendered as {line!r}", {"stream": "ids", "ids": ids})
            check("get_characteristics", host, secure, req, nc, "GET", line.split(" ")[1], None, None, to_model=False)
            ctx.evaluations += 1
        for _ in range(ctx.budget(5, 40)):
            ids = rng.sample(allids, rng.randint(1, 5))
            vals = [(a, i, rng.choice([True, False, 1, 0])) for a, i in ids]
            await p.put_characteristics(vals)
            req, nc = last()
            body = req.split(b"\r\n\r\n", 1)[1]
            want_body = json.dumps({"characteristics": [{"aid": a, "iid": i, "value": v} for a, i, v in vals]}, separators=(",", ":")).encode()
            if body != want_body:
                ctx.violation("request/write-payload", f"write payload {body[:150]!r} != compact {want_body[:150]!r}", {"stream": "payload", "vals": vals})
            check("put_characteristics", host, secure, req, nc, "PUT", "/characteristics", "application/hap+json", body)
        for ev, fn in ((True, p.subscribe), (False, p.unsubscribe)):
            ids = [(1, 10), (1, 11)]
            n0 = len(rig.requests)
            await fn(ids)
            for req, nc in rig.requests[n0:]:
                body = req.split(b"\r\n\r\n", 1)[1]
                d = json.loads(body)
                ok = ws_outside_strings(body) is False and all(set(c) == {"aid", "iid", "ev"} and c["ev"] is ev for c in d["characteristics"])
                if not ok:
                    ctx.violation("request/subscribe-payload", f"subscribe payload {body!r}", {"stream": "payload", "ev": ev})
                check("subscribe" if ev else "unsubscribe", host, secure, req, nc, "PUT", "/characteristics", "application/hap+json", body)
        n0 = len(rig.requests)
        await p.identify()
        if len(rig.requests) == n0 + 1:
            req, nc = last()
            check("identify", host, secure, req, nc, "PUT", "/characteristics", "application/hap+json", req.split(b"\r\n\r\n", 1)[1])
        else:
            ctx.notes.append("identify issued no single request")
        # camera snapshot: a JSON POST (the only one of the API)
        n0 = len(rig.requests)
        try:
            await p.image(1, 640, 480)
        except Exception as e:  # noqa: BLE001
            ctx.notes.append(f"image() raised {type(e).__name__} after the request was written")
        if len(rig.requests) == n0 + 1:
            req, nc = last()
            body = req.split(b"\r\n\r\n", 1)[1]
            try:
                d = json.loads(body)
            except ValueError:
                d = None
            if ws_outside_strings(body) or d != {"aid": 1, "resource-type": "image", "image-width": 640, "image-height": 480}:
                ctx.violation("request/image-payload", f"snapshot payload {body!r}", {"stream": "payload", "kind": "image"})
            check("image", host, secure, req, nc, "POST", "/resource", "application/hap+json", body)
        else:
            ctx.violation("request/image/calls", f"image() issued {len(rig.requests) - n0} requests", {"stream": "request", "kind": "image"})
        await p.list_accessories_and_characteristics()
        check("list_accessories", host, secure, *last(), "GET", "/accessories", None, None)
        await p.list_pairings()
        req, nc = last()
        check("list_pairings", host, secure, req, nc, "POST", "/pairings", "application/pairing+tlv8", req.split(b"\r\n\r\n", 1)[1])
        await p.add_pairing("other", "00" * 32, "User")
        req, nc = last()
        check("add_pairing", host, secure, req, nc, "POST", "/pairings", "application/pairing+tlv8", req.split(b"\r\n\r\n", 1)[1])
        # ---- the excluded point, run and reported
        await conn.put("/characteristics", b"")
        ctx.notes.append(f"put(target, b'') on {host}: {last()[0]!r} (outside the theorem: not reachable through the pairing API)") if host == HOSTS[0] and not secure else None
        await conn.close()

    async def scenario_subscriptions(host):
        """subscribe / unsubscribe with id lists in any order over several accessories: every id asked for is put on the
        wire exactly once, in well-formed requests, and nothing else is"""
        rig = Rig(loop, host, False)
        rig.responder = responder
        conn = await rig.connect()
        layout = {1: [10, 11, 12, 13], 2: [20, 21, 22, 23], 3: [30, 31]}
        allids = [(a, i) for a, iids in layout.items() for i in iids]
        trials = [[(1, 10), (2, 20), (1, 11)], [(2, 20), (1, 10), (2, 21), (1, 11), (3, 30)], [(3, 31), (1, 13), (3, 30)]]
        trials += [rng.sample(allids, rng.randint(1, 8)) for _ in range(ctx.budget(10, 80))]
        for ids in trials:
            p = mk_pairing(conn, layout)
            for ev, fn in ((True, p.subscribe), (False, p.unsubscribe)):
                n0 = len(rig.requests)
                await fn(list(ids))
                seen = []
                for req, nc in rig.requests[n0:]:
                    body = req.split(b"\r\n\r\n", 1)[1]
                    d = json.loads(body)
                    ok = ws_outside_strings(body) is False and all(set(c) == {"aid", "iid", "ev"} and c["ev"] is ev for c in d["characteristics"])
                    if not ok:
                        ctx.violation("request/subscribe-payload", f"subscribe payload {body!r}", {"stream": "payload", "ev": ev})
                    seen += [(c["aid"], c["iid"]) for c in d["characteristics"]]
                    check("subscribe" if ev else "unsubscribe", host, False, req, nc, "PUT", "/characteristics", "application/hap+json", body, to_model=False)
                ctx.evaluations += 1
                ctx.nontrivial.add(("sub-ids", tuple(a for a, _ in ids), ev))
                if sorted(seen) != sorted(set(ids)):
                    missing = sorted(set(ids) - set(seen))
                    ctx.violation("request/subscribe-ids", f"{'subscribe' if ev else 'unsubscribe'}({ids}) put {seen} on the wire in {len(rig.requests) - n0} request(s)" + (f"; never written: {missing}" if missing else ""),
                                  {"stream": "payload", "ids": ids, "ev": ev})
        await conn.close()

    async def scenario_reconnect(host_a, host_b, secure):
        """one connection object, two addresses: after it re-connects to the other address every request names THAT host"""
        rig = Rig(loop, host_a, secure)
        rig.responder = responder
        with rig.net.patched():
            rig.conn = conn = ipc.HomeKitConnection(None, [host_a, host_b], 80)
            for idx, host in ((0, host_a), (1, host_b), (0, host_a)):
                rig.net.connect_outcomes.append(("ok", idx))
                rig.rctr = rig.wctr = 0
                rig.ebuf = rig.pbuf = b""
                rig.ncalls_seen = 0
                await conn._connect_once()
                if secure:
                    t = conn.transport
                    pr = ipc.SecureHomeKitProtocol(conn, rig.a2c, rig.c2a)
                    pr.connection_made(t)
                    t.set_protocol(pr)
                    conn.protocol = pr
                    conn.is_secure = True
                peer = conn.transport.host  # the address the simulated network really connected
                if peer != host:
                    ctx.notes.append(f"reconnect scenario: expected peer {host}, simnet connected {peer}")
                for target, body in (("/accessories", None), ("/characteristics", b'{"characteristics":[]}')):
                    if body is None:
                        await conn.get(target)
                        check("get-after-reconnect", peer, secure, *rig.requests[-1], "GET", target, None, None)
                    else:
                        await conn.put(target, body)
                        check("put-after-reconnect", peer, secure, *rig.requests[-1], "PUT", target, "application/hap+json", body)
                # drop this connection without waking the background connector (this scenario connects by hand)
                conn.closing = True
                conn.transport.close()
                await asyncio.sleep(0)
                conn.transport = None
                conn.protocol = None
                conn.is_secure = False
                conn.closing = False
                conn.closed = False
        await conn.close()

    for host in HOSTS:
        for secure in (False, True):
            loop.run_until_complete(scenario(host, secure))
    loop.run_until_complete(scenario_subscriptions(HOSTS[0]))
    for host_a in HOSTS:
        for host_b in HOSTS:
            if host_a != host_b:
                loop.run_until_complete(scenario_reconnect(host_a, host_b, secure=(HOSTS.index(host_a) + HOSTS.index(host_b)) % 2 == 1))
    ctx.sample(cases[1])
    ctx.sample(cases[-1])
    compare_with_model(ctx, "request", cases, outs, lines, driver)
    # url rendering vs model
    ucases, uouts, ulines = [], [], []
    for _ in range(ctx.budget(100, 2000)):
        ids = [(rng.randint(1, 3), rng.randint(1, 70000)) for _ in range(rng.randint(1, 8))]
        ucases.append({"stream": "url", "ids": ids})
        uouts.append("/characteristics?id=" + ",".join(f"{a}.{i}" for a, i in ids))
        ulines.append("rq.url " + " ".join(f"{a}.{i}" for a, i in ids))
    compare_with_model(ctx, "url", ucases, uouts, ulines, driver)
    loop.close()


def replay(ctx, driver, c):
    return None
