"""C02 - SRP-6a client values equal those of a spec-conformant accessory."""
from __future__ import annotations

from unittest import mock

from harness import cryptoval, refacc
from harness.common import Ctx, Driver, compare_with_model, hx, load_corpus

import aiohomekit.crypto.srp as srpmod
from aiohomekit.crypto.srp import SrpClient

ID = "C02"
RULE = ("random setup codes / salts (random, all-zero, leading-zero) / ephemeral secrets, plus a DIRECTED search (drawing secrets until the value starts with 0x00) for leading-zero "
        "bytes in A, B, S, M1, M2 and the salt; wrong-code exchanges; every single-bit flip of a sample of server proofs; a proof with a zero byte prepended/stripped. "
        "non-trivial = distinct (which values had a leading zero, code right/wrong, proof mutation class)")
TRUSTED = ["hashlib.sha512 and Python big-int pow in the reference server (harness/refacc.py, RFC 5054 formulas written out)", "Lean Real SHA-512 (validated differentially each run)"]
ASSUMPTIONS = ["SRP hardness: a wrong setup code gives a different shared secret (not proved; exercised by the wrong-code stream)",
               "the client's ephemeral secret is pinned by patching os.urandom in aiohomekit.crypto.srp for the duration of the constructor"]
EXPLANATION = "Lean theorems C02_* (group constants, k = H(PAD N|PAD g) evaluated in the kernel, padding for all n, shared-secret agreement and value equality for any hash function); differential tie on the public SrpClient API"


def mk_client(pin: str, a_bytes: bytes, salt: bytes, Bb: bytes) -> SrpClient:
    with mock.patch.object(srpmod.os, "urandom", lambda n: a_bytes):
        c = SrpClient("Pair-Setup", pin)
    c.set_salt(bytearray(salt))
    c.set_server_public_key(bytes(Bb))
    return c


def exchange(ctx, pin_acc, pin_ctl, salt, b, a_bytes, want_lead=None):
    srv = refacc.SrpServer(pin_acc, salt, b)
    Bb = refacc.PAD(srv.B)
    c = mk_client(pin_ctl, a_bytes, salt, Bb)
    A_b = bytes(c.get_public_key_bytes())
    M1 = bytes(c.get_proof_bytes())
    K = bytes(c.get_session_key_bytes())
    srv.on_A(A_b)
    lead = {"A": A_b[0] == 0, "B": Bb[0] == 0, "S": refacc.PAD(srv.S)[0] == 0, "M1": srv.M1[0] == 0, "M2": srv.M2[0] == 0, "salt": salt[0] == 0}
    return srv, c, A_b, M1, K, Bb, lead


def through_generators(ctx, pin, salt, b, a_bytes, kind):
    """the same exchange as the library itself runs it: perform_pair_setup_part1 takes salt and B from the accessory's M2,
    part2 sends A and the proof, checks the accessory's proof and then USES the session key (M5 is sealed under a key
    derived from it).  A conformant accessory - the reference server plus HKDF/ChaCha20-Poly1305 over the full 64-byte K -
    must accept every step."""
    from cryptography.hazmat.primitives.ciphers.aead import ChaCha20Poly1305

    import aiohomekit.protocol as P

    from harness.c01 import L
    srv = refacc.SrpServer(pin, salt, b)
    Bb = refacc.PAD(srv.B)
    case = {"stream": "generators", "kind": kind, "pin": pin, "salt": hx(salt), "b": str(b), "a": hx(a_bytes)}
    ctx.evaluations += 1
    ctx.nontrivial.add(("generators", kind, salt == bytes(16), salt[0] == 0))
    ctx.dist["generators:" + kind] += 1
    g1 = P.perform_pair_setup_part1(False)
    g1.send(None)
    try:
        g1.send(L([(6, b"\x02"), (3, Bb), (2, salt)]))
        return ctx.violation("generators/part1", "part 1 did not finish on a well-formed M2", case)
    except StopIteration as st:
        got_salt, got_B = bytes(st.value[0]), bytes(st.value[1])
    except Exception as e:  # noqa: BLE001
        return ctx.violation("generators/part1", f"part 1 refuses the accessory's M2 (salt {hx(salt)}): {type(e).__name__}: {e}", case)
    if got_salt != salt or got_B != Bb:
        return ctx.violation("generators/part1", "part 1 hands on a salt or public value other than the accessory's", case)
    with mock.patch.object(srpmod.os, "urandom", lambda n: a_bytes):
        g2 = P.perform_pair_setup_part2(pin, "ctl-uuid", bytearray(got_salt), bytearray(got_B))
        m3 = dict((k, bytes(v)) for k, v in g2.send(None)[0])
    srv.on_A(m3[3])
    if m3[3] != refacc.PAD(srv.A) or m3[4] != srv.M1:
        return ctx.violation("generators/M3", "the accessory does not accept the controller's public value / proof as sent in M3", case)
    try:
        m5 = dict((k, bytes(v)) for k, v in g2.send(L([(6, b"\x04"), (4, srv.M2)]))[0])
    except Exception as e:  # noqa: BLE001
        return ctx.violation("generators/M4", f"the accessory's correct proof is refused: {type(e).__name__}", case)
    ekey = refacc.hk(srv.K, b"Pair-Setup-Encrypt-Salt", b"Pair-Setup-Encrypt-Info")
    try:
        ChaCha20Poly1305(ekey).decrypt(b"\0\0\0\0PS-Msg05", m5[5], b"")
    except Exception:  # noqa: BLE001
        return ctx.violation("generators/K", f"the accessory cannot open M5: the controller's session key is not the accessory's 64-byte K (K starts with {hx(srv.K[:2])})", case)
    return None


def run(ctx: Ctx, driver: Driver):
    rng = ctx.rng
    rb = lambda n: bytes(rng.randrange(256) for _ in range(n))  # noqa: E731
    cryptoval.validate(ctx, driver, 4)
    cases, outs, lines = [], [], []
    vcases, vouts, vlines = [], [], []
    pins = ["031-45-154", "111-22-333", "000-00-000", "987-65-432"]

    def one(pin_acc, pin_ctl, salt, b, a_bytes, kind):
        srv, c, A_b, M1, K, Bb, lead = exchange(ctx, pin_acc, pin_ctl, salt, b, a_bytes)
        ctx.evaluations += 1
        a = int.from_bytes(a_bytes, "big")
        case = {"stream": "client", "kind": kind, "pin_acc": pin_acc, "pin_ctl": pin_ctl, "salt": hx(salt), "b": str(b), "a": hx(a_bytes)}
        ctx.nontrivial.add((kind, tuple(sorted(k for k, v in lead.items() if v)), pin_acc == pin_ctl))
        for k, v in lead.items():
            if v:
                ctx.dist["leading-zero:" + k] += 1
        right = pin_acc == pin_ctl
        if A_b != refacc.PAD(pow(refacc.G, a, refacc.N3072)):
            ctx.violation("client/A", "client public value is not PAD(g^a mod N)", case)
        if right:
            if M1 != srv.M1:
                ctx.violation("client/M1", f"accessory rejects the client proof (leading zeros: {lead})", case)
            if K != srv.K:
                ctx.violation("client/K", f"session keys differ (leading zeros: {lead})", case)
            if not c.verify_servers_proof_bytes(srv.M2):
                ctx.violation("client/M2-rejected", f"client rejects the accessory's correct proof (leading zeros: {lead})", case)
        else:
            if M1 == srv.M1:
                ctx.violation("client/wrong-code-accepted", "a wrong setup code produced a proof the accessory accepts", case)
            if c.verify_servers_proof_bytes(srv.M2):
                ctx.violation("client/wrong-code-M2", "client with a wrong code accepts the accessory's proof", case)
        cases.append(case)
        outs.append(f"{hx(A_b)} {hx(K)} {hx(M1)}")
        lines.append(f"srp.client {hx(b'Pair-Setup')} {hx(pin_ctl.encode())} {hx(salt)} {hx(Bb)} {a}")
        ctx.dist["exchange:" + kind] += 1
        return srv, c, Bb, a

    def verify_case(srv, c, pin_ctl, salt, Bb, a, M, want, kind):
        got = c.verify_servers_proof_bytes(M)
        ctx.evaluations += 1
        case = {"stream": "verify", "kind": kind, "M": hx(M)}
        if want is not None and got != want:
            ctx.violation("verify/" + kind, f"verify_servers_proof_bytes({kind}) = {got}, expected {want}", case)
        ctx.nontrivial.add(("verify", kind, got))
        vcases.append(case)
        vouts.append(str(got).lower())
        vlines.append(f"srp.verify {hx(b'Pair-Setup')} {hx(pin_ctl.encode())} {hx(salt)} {hx(Bb)} {a} {hx(M)}")

    # ---- corpus first: exchanges found once by tools/mk_c02_corpus.py whose A, B, S, K, M1 or M2 start with one or two
    # zero bytes (a 1-in-256 / 1-in-65536 event each); every claimed leading zero is re-derived from the reference
    # server before the case is used, so the corpus is an index into the input space, not a trusted table
    for c in load_corpus(ID):
        salt, b, ab = bytes.fromhex(c["salt"]), int(c["b"]), bytes.fromhex(c["a"])
        srv0 = refacc.SrpServer(c["pin"], salt, b)
        A0 = refacc.PAD(pow(refacc.G, int.from_bytes(ab, "big"), refacc.N3072))
        srv0.on_A(A0)
        lead0 = {"A": A0, "B": refacc.PAD(srv0.B), "S": refacc.PAD(srv0.S), "K": srv0.K, "M1": srv0.M1, "M2": srv0.M2}
        for kd in c["kinds"]:
            nz = 2 if kd.endswith("2") and kd not in ("M2",) else 1
            name = kd[:-1] if nz == 2 else kd
            if lead0[name][:nz] != bytes(nz):
                raise RuntimeError(f"corpus/C02 entry does not have the leading zero it claims ({kd}): {c}")
        tag = "corpus-" + "+".join(c["kinds"])
        s2, c2, Bb2, a2 = one(c["pin"], c["pin"], salt, b, ab, tag)
        verify_case(s2, c2, c["pin"], salt, Bb2, a2, s2.M2, True, "correct-leading-zero")
        if s2.M2[0] == 0:
            verify_case(s2, c2, c["pin"], salt, Bb2, a2, s2.M2.lstrip(b"\0"), True, "leading-zero-stripped")
        m = bytearray(s2.M2)
        m[-1] ^= 1
        verify_case(s2, c2, c["pin"], salt, Bb2, a2, bytes(m), False, "bitflip")
        through_generators(ctx, c["pin"], salt, b, ab, tag)
        ctx.dist["corpus"] += 1
    n = ctx.budget(60, 1200)
    for i in range(n):
        pin = rng.choice(pins)
        salt = rng.choice([rb(16), bytes(16), b"\0" + rb(15), b"\0\0\0" + rb(13)])
        srv, c, Bb, a = one(pin, pin, salt, int.from_bytes(rb(32), "big"), rb(16), "honest")
        if i % 6 == 0:
            verify_case(srv, c, pin, salt, Bb, a, srv.M2, True, "correct")
            verify_case(srv, c, pin, salt, Bb, a, b"\0" + srv.M2, True, "zero-prepended")
            for bit in rng.sample(range(512), ctx.budget(6, 64)):
                m = bytearray(srv.M2)
                m[bit // 8] ^= 1 << (bit % 8)
                verify_case(srv, c, pin, salt, Bb, a, bytes(m), False, "bitflip")
            verify_case(srv, c, pin, salt, Bb, a, srv.M2[:-1], False, "truncated")
            verify_case(srv, c, pin, salt, Bb, a, srv.M1, False, "client-proof-echoed")
    for i in range(ctx.budget(15, 400)):
        p1, p2 = rng.sample(pins, 2)
        one(p1, p2, rb(16), int.from_bytes(rb(32), "big"), rb(16), "wrong-code")
    # ---- directed search for the 1-in-256 leading-zero cases
    g, N = refacc.G, refacc.N3072
    found = {"A": None, "B": None}
    tries = 0
    while found["A"] is None and tries < 4000:
        ab = rb(16)
        tries += 1
        if refacc.PAD(pow(g, int.from_bytes(ab, "big"), N))[0] == 0:
            found["A"] = ab
    salt0 = bytes(16)
    tries = 0
    while found["B"] is None and tries < 4000:
        b = int.from_bytes(rb(32), "big")
        tries += 1
        if refacc.PAD(refacc.SrpServer("031-45-154", salt0, b).B)[0] == 0:
            found["B"] = b
    if found["A"]:
        one("031-45-154", "031-45-154", rb(16), int.from_bytes(rb(32), "big"), found["A"], "directed-A0")
    if found["B"]:
        one("031-45-154", "031-45-154", salt0, found["B"], rb(16), "directed-B0")
    # the library's own use of the client, over the salts that matter
    for salt in (bytes(16), b"\x00" + rb(15), b"\x00\x00" + rb(14), rb(16), rb(15) + b"\x00"):
        through_generators(ctx, rng.choice(pins), salt, int.from_bytes(rb(32), "big"), rb(16), "salts")
    # S, M1, M2, K leading zero: draw exchanges until hit (each costs a few modexps)
    need = {"S", "M1", "M2", "K"}
    tries = 0
    while need and tries < ctx.budget(700, 4000):
        tries += 1
        salt = rb(16)
        b = int.from_bytes(rb(32), "big")
        ab = rb(16)
        srv = refacc.SrpServer("031-45-154", salt, b)
        A_b = refacc.PAD(pow(g, int.from_bytes(ab, "big"), N))
        srv.on_A(A_b)
        hit = {k for k, v in {"S": refacc.PAD(srv.S)[0] == 0, "M1": srv.M1[0] == 0, "M2": srv.M2[0] == 0, "K": srv.K[0] == 0}.items() if v} & need
        if hit:
            through_generators(ctx, "031-45-154", salt, b, ab, "directed-" + "".join(sorted(hit)) + "0")
        if hit - {"K"}:
            s2, c2, Bb2, a2 = one("031-45-154", "031-45-154", salt, b, ab, "directed-" + "".join(sorted(hit)) + "0")
            verify_case(s2, c2, "031-45-154", salt, Bb2, a2, s2.M2, True, "correct-leading-zero")
            if "M2" in hit:
                verify_case(s2, c2, "031-45-154", salt, Bb2, a2, s2.M2[1:], True, "leading-zero-stripped")
        need -= hit
    if need:
        ctx.notes.append(f"directed search did not hit a leading zero in {sorted(need)} within {tries} exchanges this run")
    ctx.sample({k: v for k, v in cases[0].items()})
    compare_with_model(ctx, "client", cases, outs, lines, driver, canon=lambda s: " ".join(s.split(" ")[:3]))
    compare_with_model(ctx, "verify", vcases, vouts, vlines, driver)


def replay(ctx, driver, c):
    return None
