"""C02 - SRP-6a client values equal those of a spec-conformant accessory."""
from __future__ import annotations

import json
from unittest import mock

from harness import cryptoval, refacc
from harness.common import Ctx, Driver, compare_with_model, hx, load_corpus, unhx

import aiohomekit.crypto.srp as srpmod
from aiohomekit.crypto.srp import SrpClient

ID = "C02"
RULE = ("random setup codes / salts (random, all-zero, leading-zero) / ephemeral secrets, plus a DIRECTED search (drawing secrets until the value starts with 0x00) for leading-zero "
        "bytes in A, B, S, M1, M2 and the salt; wrong-code exchanges; every single-bit flip of a sample of server proofs; a proof with a zero byte prepended/stripped. "
        "TRANSPORT level: BleDiscovery / IpDiscovery / CoAPDiscovery async_start_pairing -> finish_pairing against a conformant accessory that starts a new exchange (new salt, b, B) "
        "at every M1, over histories with several M1/M2 before the code is used (wrong code then right code on the same discovery, link drop while M2/M3/M4/M5 is in flight followed by "
        "the library's own retry or a restart, start twice, two discoveries, pair - reset - pair; fixed list plus random compositions; MTUs, TLV fragmentation, TCP segmentation drawn): "
        "A / M1 / K judged against the exchange the accessory is running NOW. "
        "non-trivial = distinct (which values had a leading zero, code right/wrong, proof mutation class; transport, history, outcomes)")
TRUSTED = ["hashlib.sha512 and Python big-int pow in the reference server (harness/refacc.py, RFC 5054 formulas written out)", "Lean Real SHA-512 (validated differentially each run)"]
ASSUMPTIONS = ["SRP hardness: a wrong setup code gives a different shared secret (not proved; exercised by the wrong-code stream)",
               "the client's ephemeral secret is pinned by patching os.urandom in aiohomekit.crypto.srp for the duration of the constructor",
               "transport stream: only the radio / network / clock are replaced - bleak's connection by a GATT server speaking HAP-BLE PDUs (establish_connection patched), TCP by harness.simnet, "
               "aiocoap's client context by a datagram stub, time by the virtual loop; os.urandom is a seeded stream so the controller's secret a is known to the oracle"]
EXPLANATION = "Lean theorems C02_* (group constants, k = H(PAD N|PAD g) evaluated in the kernel, padding for all n, shared-secret agreement and value equality for any hash function); differential tie on the public SrpClient API"


def mk_client(pin: str, a_bytes: bytes, salt: bytes, Bb: bytes) -> SrpClient:
    with mock.patch.object(srpmod.os, "urandom", lambda n: a_bytes):
        c = SrpClient("Pair-Setup", pin)
    c.set_salt(bytearray(salt))
    c.set_server_public_key(bytes(Bb))
    return c


def exchange(ctx, pin_acc, pin_ctl, salt, b, a_bytes, want_lead=None):
    srv = refacc.SrpServer(pin_acc, salt, b)
    Bb = refacc.PAD(srv.B)
    c = mk_client(pin_ctl, a_bytes, salt, Bb)
    A_b = bytes(c.get_public_key_bytes())
    M1 = bytes(c.get_proof_bytes())
    K = bytes(c.get_session_key_bytes())
    srv.on_A(A_b)
    lead = {"A": A_b[0] == 0, "B": Bb[0] == 0, "S": refacc.PAD(srv.S)[0] == 0, "M1": srv.M1[0] == 0, "M2": srv.M2[0] == 0, "salt": salt[0] == 0}
    return srv, c, A_b, M1, K, Bb, lead


def through_generators(ctx, pin, salt, b, a_bytes, kind):
    """the same exchange as the library itself runs it: perform_pair_setup_part1 takes salt and B from the accessory's M2,
    part2 sends A and the proof, checks the accessory's proof and then USES the session key (M5 is sealed under a key
    derived from it).  A conformant accessory - the reference server plus HKDF/ChaCha20-Poly1305 over the full 64-byte K -
    must accept every step."""
    from cryptography.hazmat.primitives.ciphers.aead import ChaCha20Poly1305

    import aiohomekit.protocol as P

    from harness.c01 import L
    srv = refacc.SrpServer(pin, salt, b)
    Bb = refacc.PAD(srv.B)
    case = {"stream": "generators", "kind": kind, "pin": pin, "salt": hx(salt), "b": str(b), "a": hx(a_bytes)}
    ctx.evaluations += 1
    ctx.nontrivial.add(("generators", kind, salt == bytes(16), salt[0] == 0))
    ctx.dist["generators:" + kind] += 1
    g1 = P.perform_pair_setup_part1(False)
    g1.send(None)
    try:
        g1.send(L([(6, b"\x02"), (3, Bb), (2, salt)]))
        return ctx.violation("generators/part1", "part 1 did not finish on a well-formed M2", case)
    except StopIteration as st:
        got_salt, got_B = bytes(st.value[0]), bytes(st.value[1])
    except Exception as e:  # noqa: BLE001
        return ctx.violation("generators/part1", f"part 1 refuses the accessory's M2 (salt {hx(salt)}): {type(e).__name__}: {e}", case)
    if got_salt != salt or got_B != Bb:
        return ctx.violation("generators/part1", "part 1 hands on a salt or public value other than the accessory's", case)
    with mock.patch.object(srpmod.os, "urandom", lambda n: a_bytes):
        g2 = P.perform_pair_setup_part2(pin, "ctl-uuid", bytearray(got_salt), bytearray(got_B))
        m3 = dict((k, bytes(v)) for k, v in g2.send(None)[0])
    srv.on_A(m3[3])
    if m3[3] != refacc.PAD(srv.A) or m3[4] != srv.M1:
        return ctx.violation("generators/M3", "the accessory does not accept the controller's public value / proof as sent in M3", case)
    try:
        m5 = dict((k, bytes(v)) for k, v in g2.send(L([(6, b"\x04"), (4, srv.M2)]))[0])
    except Exception as e:  # noqa: BLE001
        return ctx.violation("generators/M4", f"the accessory's correct proof is refused: {type(e).__name__}", case)
    ekey = refacc.hk(srv.K, b"Pair-Setup-Encrypt-Salt", b"Pair-Setup-Encrypt-Info")
    try:
        ChaCha20Poly1305(ekey).decrypt(b"\0\0\0\0PS-Msg05", m5[5], b"")
    except Exception:  # noqa: BLE001
        return ctx.violation("generators/K", f"the accessory cannot open M5: the controller's session key is not the accessory's 64-byte K (K starts with {hx(srv.K[:2])})", case)
    return None


# ---------------------------------------------------------------------------------------------------------------------
# transport level: the exchange as the TRANSPORTS run it (BleDiscovery / IpDiscovery / CoAPDiscovery .async_start_pairing
# -> finish_pairing), over histories in which more than one M1/M2 exchange happens before the setup code is used
# ---------------------------------------------------------------------------------------------------------------------
class SetupAccessory:
    """A conformant pair-setup accessory (HAP 5.6, M1..M6) written with harness.refacc only.  The exchange in progress
    is bound to the LINK it was started on: every M1 starts a NEW exchange (fresh salt, fresh b, hence fresh B), a lost
    link or a failed M3 abandons it.  Everything the oracle needs is recorded per exchange; `call` is the harness's own
    count of the controller-side call in progress."""

    def __init__(self, pin, rnd):
        self.pin, self.rnd = pin, rnd
        self.exchanges = []  # one record per M1/M2
        self.stray = []  # M3/M5 that arrived on a link with no exchange in progress
        self.cur = None
        self.call = 0
        self.drop = None  # armed link drop [state, phase]
        self.dropped = []
        self.reset()

    def rb(self, n):
        return bytes(self.rnd.randrange(256) for _ in range(n))

    def reset(self):
        """factory reset: pairings removed, new long-term key"""
        from cryptography.hazmat.primitives.asymmetric import ed25519
        self.ltsk = ed25519.Ed25519PrivateKey.from_private_bytes(self.rb(32))
        self.ltpk = self.ltsk.public_key().public_bytes(**refacc.RAW)
        self.acc_id = b"12:34:56:00:01:0A"
        self.paired = False
        self.cur = None

    def link_lost(self, link):
        if self.cur is not None and self.cur["link"] == link:
            self.cur = None

    def take_drop(self, body):
        """is a link drop armed for this pairing message?  -> 'req' (the message never arrives) | 'resp' (it is processed,
        the reply is lost) | 'resp-mid' (the reply is cut) | None"""
        if self.drop is None:
            return None
        try:
            st = refacc.untlv(body).get(6)
        except Exception:  # noqa: BLE001
            return None
        if st != bytes([self.drop[0]]):
            return None
        phase = self.drop[1]
        self.dropped.append((self.call, self.drop[0], phase))
        self.drop = None
        if self.cur is not None:
            self.cur["lost"] = True  # whatever the controller does next, it never saw the end of this exchange
        return phase

    def handle(self, link, body):
        from cryptography.hazmat.primitives.asymmetric import ed25519
        from cryptography.hazmat.primitives.ciphers.aead import ChaCha20Poly1305
        d = refacc.untlv(body)
        st = d.get(6)
        if st == b"\x01":
            if self.paired:
                return refacc.tlv([(6, b"\x02"), (7, b"\x06")])
            salt = self.rnd.choice([self.rb(16), self.rb(16), bytes(16), b"\0" + self.rb(15)])
            srv = refacc.SrpServer(self.pin, salt, int.from_bytes(self.rb(32), "big"))
            self.cur = {"n": len(self.exchanges) + 1, "link": link, "srv": srv, "m3": None, "m4": False, "m5": None, "lost": False, "call": self.call}
            self.exchanges.append(self.cur)
            return refacc.tlv([(6, b"\x02"), (3, refacc.PAD(srv.B)), (2, salt)])
        if st == b"\x03":
            rec = self.cur
            if rec is None or rec["link"] != link or rec["m3"] is not None:
                self.stray.append({"call": self.call, "state": 3, "A": d.get(3, b""), "proof": d.get(4, b"")})
                return refacc.tlv([(6, b"\x04"), (7, b"\x01")])
            srv = rec["srv"]
            srv.on_A(d.get(3, b""))
            rec["m3"] = {"call": self.call, "A": d.get(3, b""), "proof": d.get(4, b"")}
            if srv.A % refacc.N3072 == 0 or d.get(4) != srv.M1:
                self.cur = None
                return refacc.tlv([(6, b"\x04"), (7, b"\x02")])
            rec["m4"] = True
            return refacc.tlv([(6, b"\x04"), (4, srv.M2)])
        if st == b"\x05":
            rec = self.cur
            if rec is None or rec["link"] != link or not rec["m4"] or rec["m5"] is not None:
                self.stray.append({"call": self.call, "state": 5})
                return refacc.tlv([(6, b"\x06"), (7, b"\x01")])
            K = rec["srv"].K
            ekey = refacc.hk(K, b"Pair-Setup-Encrypt-Salt", b"Pair-Setup-Encrypt-Info")
            try:
                sub = refacc.untlv(ChaCha20Poly1305(ekey).decrypt(b"\0\0\0\0PS-Msg05", d[5], b""))
                cx = refacc.hk(K, b"Pair-Setup-Controller-Sign-Salt", b"Pair-Setup-Controller-Sign-Info")
                ed25519.Ed25519PublicKey.from_public_bytes(sub[3]).verify(sub[10], cx + sub[1] + sub[3])
            except Exception:  # noqa: BLE001
                rec["m5"] = "bad"
                self.cur = None
                return refacc.tlv([(6, b"\x06"), (7, b"\x02")])
            rec["m5"] = "ok"
            ax = refacc.hk(K, b"Pair-Setup-Accessory-Sign-Salt", b"Pair-Setup-Accessory-Sign-Info")
            sig = self.ltsk.sign(ax + self.acc_id + self.ltpk)
            enc = ChaCha20Poly1305(ekey).encrypt(b"\0\0\0\0PS-Msg06", refacc.tlv([(1, self.acc_id), (3, self.ltpk), (10, sig)]), b"")
            self.cur = None
            self.paired = True
            return refacc.tlv([(6, b"\x06"), (5, enc)])
        return refacc.tlv([(6, b"\x02"), (7, b"\x01")])


class _GattChar:
    max_write_without_response_size = None

    def __init__(self, uuid, iid):
        self.uuid, self.iid, self.handle, self.properties = uuid, iid, iid, ["read", "write"]


class GattLink:
    """The radio: one BLE connection to a HAP-BLE GATT server.  Stands in for AIOHomeKitBleakClient; everything above
    GATT reads/writes is the library's own code.  The server side speaks HAP-BLE PDUs (R2 7.3): request reassembly over
    continuation fragments, CHAR_READ / CHAR_WRITE with the HAP-Param TLVs, responses fragmented to the accessory's
    own MTU, optionally the pairing reply split over FragmentData / FragmentLast items."""

    def __init__(self, acc, link, cfg):
        from aiohomekit.model import CharacteristicsTypes
        self.acc, self.link, self.cfg = acc, link, cfg
        self.is_connected = True
        self.address = "AA:BB:CC:DD:EE:FF"
        self.features = _GattChar(CharacteristicsTypes.PAIRING_FEATURES, cfg["iids"][0])
        self.setup = _GattChar(CharacteristicsTypes.PAIR_SETUP, cfg["iids"][1])
        self.rx, self.tx, self.more = {}, {}, []
        self.die_at_read = None

    def _alive(self):
        from bleak.exc import BleakError
        if not self.is_connected:
            raise BleakError("Not connected")

    def _die(self):
        from bleak.exc import BleakError
        self.is_connected = False
        self.acc.link_lost(self.link)
        raise BleakError("disconnected")

    async def get_characteristic(self, service, characteristic, iid=None):
        from aiohomekit.controller.ble.bleak import BleakCharacteristicMissing
        for ch in (self.features, self.setup):
            if ch.uuid.lower() == characteristic.lower():
                return ch
        raise BleakCharacteristicMissing(f"{characteristic} not found")

    async def get_characteristic_iid(self, ch):
        return ch.iid

    def determine_fragment_size(self, overhead, handle):
        return self.cfg["mtu"] - 3 - overhead

    async def clear_cache(self):
        return True

    async def disconnect(self):
        self.is_connected = False
        self.acc.link_lost(self.link)

    async def write_gatt_char(self, handle, data, response):
        self._alive()
        data = bytes(data)
        if data[0] & 0x80:
            st = self.rx.get(handle.uuid)
            if st is None or st["tid"] != data[1]:
                return
            st["body"] += data[2:]
        else:
            st = {"op": data[1], "tid": data[2], "iid": int.from_bytes(data[3:5], "little"), "len": int.from_bytes(data[5:7], "little") if len(data) >= 7 else 0, "body": data[7:]}
            self.rx[handle.uuid] = st
            self.tx[handle.uuid] = []  # a new request voids an unread response
        if len(st["body"]) >= st["len"]:
            del self.rx[handle.uuid]
            self._request(handle, st)

    def _request(self, ch, st):
        status, value = 0, b""
        self.die_at_read = None
        if st["iid"] != ch.iid:
            status = 4
        elif st["op"] == 3 and ch is self.features:
            value = bytes([self.cfg["ff"]])
        elif st["op"] == 2 and ch is self.setup:
            msg = refacc.untlv(st["body"][:st["len"]]).get(1, b"")
            if msg == b"\x0c\x00" and self.more:
                value = self.more.pop(0)  # the controller acknowledged a fragment of the pairing reply
            else:
                phase = self.acc.take_drop(msg)
                if phase == "req":
                    self._die()
                reply = self.acc.handle(self.link, msg)
                n = self.cfg["tlvfrag"]
                self.more = []
                if n and len(reply) > n:
                    chunks = [reply[i:i + n] for i in range(0, len(reply), n)]
                    self.more = [refacc.tlv([(12, c)]) for c in chunks[1:-1]] + [refacc.tlv([(13, chunks[-1])])]
                    value = refacc.tlv([(12, chunks[0])])
                else:
                    value = reply
                self.die_at_read = {"resp": 0, "resp-mid": 1}.get(phase)
        else:
            status = 6
        body = refacc.tlv([(1, value)]) if status == 0 else b""
        n = self.cfg["rmtu"] - 3
        frags = [bytes([0x02, st["tid"], status]) + len(body).to_bytes(2, "little") + body[:n - 5]]
        rest = body[n - 5:]
        frags += [bytes([0x82, st["tid"]]) + rest[i:i + n - 2] for i in range(0, len(rest), n - 2)]
        if self.die_at_read == 1 and len(frags) == 1:
            self.die_at_read = 0
        self.tx[ch.uuid] = frags

    async def read_gatt_char(self, handle):
        self._alive()
        if self.die_at_read is not None:
            if self.die_at_read == 0:
                self.die_at_read = None
                self._die()
            self.die_at_read -= 1
        q = self.tx.get(handle.uuid)
        return bytearray(q.pop(0)) if q else bytearray()


class _Ble:
    def __init__(self, acc, cfg, controller, loop):
        self.acc, self.cfg, self.controller, self.links = acc, cfg, controller, 0

    def patches(self):
        import aiohomekit.controller.ble.discovery as ble_discovery
        return [mock.patch.object(ble_discovery, "establish_connection", self.establish)]

    async def establish(self, device, name, disconnected_callback=None, **kw):
        self.links += 1
        return GattLink(self.acc, "ble%d" % self.links, self.cfg)

    def discovery(self):
        from types import SimpleNamespace

        from aiohomekit.controller.ble.discovery import BleDiscovery
        from aiohomekit.controller.ble.manufacturer_data import HomeKitAdvertisement
        adv = HomeKitAdvertisement.from_cache(address="AA:BB:CC:DD:EE:FF", id=self.acc.acc_id.decode(), config_num=1, state_num=1)
        return BleDiscovery(self.controller, SimpleNamespace(address="AA:BB:CC:DD:EE:FF", name="acc"), adv, None)

    async def close(self, d):
        await d._close()


class _Ip:
    """the real HomeKitConnection over harness.simnet; the accessory answers POST /pair-setup, one exchange per TCP connection"""

    def __init__(self, acc, cfg, controller, loop):
        from harness import simnet
        self.acc, self.cfg, self.controller, self.loop = acc, cfg, controller, loop
        self.net = simnet.Net(loop)
        self.net.handler = self.on_write
        self.bufs = {}

    def patches(self):
        return [self.net.patched()]

    def discovery(self):
        from aiohomekit.controller.ip.discovery import IpDiscovery

        from harness import rcsim
        return IpDiscovery(self.controller, rcsim.description([1]))

    async def close(self, d):
        await d.close()

    def on_write(self, t, data):
        b = self.bufs.get(t.index, b"") + data
        while True:
            i = b.find(b"\r\n\r\n")
            if i < 0:
                break
            cl = 0
            for h in b[:i].split(b"\r\n")[1:]:
                if h.lower().startswith(b"content-length:"):
                    cl = int(h.split(b":")[1])
            if len(b) < i + 4 + cl:
                break
            self.loop.call_soon(self.serve, t, b[:i].split(b" ", 2)[1], b[i + 4:i + 4 + cl])
            b = b[i + 4 + cl:]
        self.bufs[t.index] = b

    def serve(self, t, target, body):
        if t.closing or t.closed:
            return
        link = "ip%d" % t.index
        if target != b"/pair-setup":
            return t.feed(b"HTTP/1.1 404 Not Found\r\nContent-Length: 0\r\n\r\n")
        phase = self.acc.take_drop(body)
        if phase == "req":
            self.acc.link_lost(link)
            return t.peer_reset()
        reply = self.acc.handle(link, body)
        reply = b"HTTP/1.1 200 OK\r\nContent-Type: application/pairing+tlv8\r\nContent-Length: %d\r\n\r\n" % len(reply) + reply
        if phase == "resp":
            self.acc.link_lost(link)
            return t.peer_reset()
        if phase == "resp-mid":
            t.feed(reply[:len(reply) // 2])
            self.acc.link_lost(link)
            return t.peer_close()
        n = self.cfg["rmtu"]
        for i in range(0, len(reply), n):  # the reply arrives in TCP segments of the accessory's choosing
            t.feed(reply[i:i + n])


class _Coap:
    """aiocoap's client context replaced; every client context is one link (its own source endpoint)"""

    def __init__(self, acc, cfg, controller, loop):
        self.acc, self.cfg, self.controller, self.links = acc, cfg, controller, 0

    def patches(self):
        import aiohomekit.controller.coap.connection as coap_conn
        tr = self

        class Context:
            @staticmethod
            async def create_client_context():
                tr.links += 1
                return _CoapCtx(tr, "coap%d" % tr.links)
        return [mock.patch.object(coap_conn, "Context", Context)]

    def discovery(self):
        from aiohomekit.controller.coap.discovery import CoAPDiscovery
        from aiohomekit.model.categories import Categories
        from aiohomekit.model.feature_flags import FeatureFlags
        from aiohomekit.model.status_flags import StatusFlags
        from aiohomekit.zeroconf import HomeKitService
        # HAP over CoAP runs on Thread: the advertised address is IPv6 (the library writes it as [addr]:port)
        return CoAPDiscovery(self.controller, HomeKitService(
            name="acc", id=self.acc.acc_id.decode(), model="m", feature_flags=FeatureFlags(self.cfg["ff"]), status_flags=StatusFlags(0), config_num=1, state_num=1,
            category=Categories.LIGHTBULB, protocol_version="1.1", type="_hap._udp.local.", address="fd00::12:1", addresses=["fd00::12:1"], port=5683))

    async def close(self, d):
        await d.close()


class _CoapCtx:
    def __init__(self, tr, link):
        self.tr, self.link, self.down = tr, link, False

    def request(self, msg):
        from types import SimpleNamespace
        return SimpleNamespace(response=self._serve(bytes(msg.payload)))

    async def _serve(self, body):
        import asyncio
        acc = self.tr.acc
        phase = None if self.down else acc.take_drop(body)
        if self.down or phase == "req":
            acc.link_lost(self.link)
            await asyncio.sleep(10 ** 6)  # the datagram is lost: the library's own timeout ends the wait
        reply = acc.handle(self.link, body)
        if phase is not None:
            acc.link_lost(self.link)
            await asyncio.sleep(10 ** 6)
        from types import SimpleNamespace
        return SimpleNamespace(payload=reply, code=None)

    async def shutdown(self):
        self.down = True
        self.tr.acc.link_lost(self.link)


TRANSPORTS = {"ble": _Ble, "ip": _Ip, "coap": _Coap}

# histories: ["new"] a new discovery object | ["start"] async_start_pairing | ["finish", "right" | "wrong"] the callable
# it returned, with the accessory's setup code or another one | ["drop", state, phase] arm a link drop for the next
# pairing message with that state number | ["reset"] factory reset of the accessory (it was paired)
HISTORIES = {
    "ble": {
        "plain": [["new"], ["start"], ["finish", "right"]],
        "wrong-then-right": [["new"], ["start"], ["finish", "wrong"], ["finish", "right"]],
        "wrong-wrong-right": [["new"], ["start"], ["finish", "wrong"], ["finish", "wrong"], ["finish", "right"]],
        "drop-M3-written": [["new"], ["start"], ["drop", 3, "req"], ["finish", "right"]],
        "drop-M4-read": [["new"], ["start"], ["drop", 3, "resp-mid"], ["finish", "right"]],
        "drop-M4-lost": [["new"], ["start"], ["drop", 3, "resp"], ["finish", "right"]],
        "drop-M5-written": [["new"], ["start"], ["drop", 5, "req"], ["finish", "right"]],
        "drop-M2-read": [["new"], ["drop", 1, "resp-mid"], ["start"], ["finish", "right"]],
        "wrong-then-drop-M3": [["new"], ["start"], ["finish", "wrong"], ["drop", 3, "req"], ["finish", "right"]],
        "start-twice": [["new"], ["start"], ["start"], ["finish", "right"]],
        "two-discoveries": [["new"], ["start"], ["finish", "wrong"], ["new"], ["start"], ["finish", "right"]],
        "pair-reset-pair": [["new"], ["start"], ["finish", "right"], ["reset"], ["new"], ["start"], ["finish", "wrong"], ["finish", "right"]],
    },
    "ip": {
        "plain": [["new"], ["start"], ["finish", "right"]],
        "wrong-restart-right": [["new"], ["start"], ["finish", "wrong"], ["start"], ["finish", "right"]],
        "drop-M3-restart": [["new"], ["start"], ["drop", 3, "req"], ["finish", "right"], ["start"], ["finish", "right"]],
        "drop-M4-restart": [["new"], ["start"], ["drop", 3, "resp-mid"], ["finish", "right"], ["start"], ["finish", "right"]],
        "start-twice": [["new"], ["start"], ["start"], ["finish", "right"]],
        "two-discoveries": [["new"], ["start"], ["finish", "wrong"], ["new"], ["start"], ["finish", "right"]],
        "pair-reset-pair": [["new"], ["start"], ["finish", "right"], ["reset"], ["new"], ["start"], ["finish", "right"]],
    },
    "coap": {
        "plain": [["new"], ["start"], ["finish", "right"]],
        "wrong-restart-right": [["new"], ["start"], ["finish", "wrong"], ["start"], ["finish", "right"]],
        "drop-M4-restart": [["new"], ["start"], ["drop", 3, "resp"], ["finish", "right"], ["start"], ["finish", "right"]],
        "two-discoveries": [["new"], ["start"], ["finish", "wrong"], ["new"], ["start"], ["finish", "right"]],
    },
}


def random_history(rng, transport):
    """rounds of (maybe a new discovery) (maybe a fresh start) (maybe a link drop) finish; the last finish has the right code"""
    h = [["new"], ["start"]]
    rounds = rng.choice([1, 2, 2, 3, 4])
    for r in range(rounds):
        last = r == rounds - 1
        if r and (transport != "ble" or rng.random() < 0.3):
            # IP / CoAP have no restart inside finish_pairing: the caller starts over (HAP: a failed attempt ends the exchange)
            h += rng.choice([[["start"]], [["new"], ["start"]]])
        elif rng.random() < 0.15:
            h += [["start"]]
        dropped = False
        if rng.random() < 0.4:
            st, ph = rng.choice([(3, "req"), (3, "resp"), (3, "resp-mid"), (5, "req")] if transport != "coap" else [(3, "req"), (3, "resp")])
            h.append(["drop", st, ph])
            dropped = True
        code = "right" if last or dropped else rng.choice(["wrong", "wrong", "right"])
        h.append(["finish", code])
        paired = code == "right" and (not dropped or transport == "ble")  # BLE retries a dropped link itself
        if paired and not last:
            h += [["reset"], ["new"], ["start"]]
        if last and not paired:
            h += [["start"], ["finish", "right"]]
    return h


def run_history(case):
    """play one history against the real transport code; -> (problems [(signature, what)], summary for the evidence)"""
    import asyncio
    import random as _random
    from collections import defaultdict
    from contextlib import ExitStack
    from unittest.mock import MagicMock

    from aiohomekit.characteristic_cache import CharacteristicCacheMemory

    from harness import simnet
    t = case["transport"]
    acc = SetupAccessory(case["pin"], _random.Random(case["seed"]))
    crnd = _random.Random(case["seed"] + 1)
    ulog = defaultdict(list)

    def urandom(n):
        v = bytes(crnd.randrange(256) for _ in range(n))
        ulog[acc.call].append(v)
        return v

    loop = simnet.VLoop()
    controller = MagicMock()
    controller._char_cache = CharacteristicCacheMemory()
    controller.pairings = {}
    tr = TRANSPORTS[t](acc, case, controller, loop)
    problems, outcomes = [], []

    def judge(call, right, outcome):
        """the oracle, from the accessory's records alone"""
        g, N = refacc.G, refacc.N3072
        for r in [r for r in acc.exchanges if r["m3"] and r["m3"]["call"] == call]:
            srv, A_b, proof = r["srv"], r["m3"]["A"], r["m3"]["proof"]
            which = f"exchange #{r['n']} of {len(acc.exchanges)} (salt {hx(srv.salt)}, B {hx(refacc.PAD(srv.B)[:6])}..)"
            if not right:
                if proof == srv.M1:
                    problems.append((f"transport/{t}/wrong-code-accepted", f"{which}: a wrong setup code ({case['wrong']} for {acc.pin}) gave a proof the accessory accepts"))
                continue
            if A_b not in {refacc.PAD(pow(g, int.from_bytes(v, "big"), N)) for v in ulog[call] if len(v) == 16}:
                problems.append((f"transport/{t}/A", f"{which}: the public value in M3 ({len(A_b)} bytes, {hx(A_b[:6])}..) is not PAD(g^a mod N) for the secret the controller drew in this call"))
            if proof != srv.M1:
                stale = None
                for e in acc.exchanges:
                    if e is not r:
                        twin = refacc.SrpServer(acc.pin, e["srv"].salt, e["srv"].b)
                        twin.on_A(A_b)
                        if twin.M1 == proof:
                            stale = e
                why = f"; it is the proof for the abandoned exchange #{stale['n']} (salt {hx(stale['srv'].salt)})" if stale else ""
                problems.append((f"transport/{t}/M1", f"{which}, correct setup code {acc.pin}: the accessory rejects the controller's proof {hx(proof[:8])}.. (it computes {hx(srv.M1[:8])}..){why}; outcome {outcome}"))
            elif r["m4"] and not r["lost"] and r["m5"] is None:
                problems.append((f"transport/{t}/M2-rejected", f"{which}: the accessory's correct proof was delivered but the controller did not go on to M5; outcome {outcome}"))
            elif r["m5"] == "bad":
                problems.append((f"transport/{t}/K", f"{which}: the accessory cannot open M5 - the controller's session key is not the accessory's K; outcome {outcome}"))
        for s in [s for s in acc.stray if s["call"] == call and s["state"] == 3 and right]:
            for e in acc.exchanges:
                twin = refacc.SrpServer(acc.pin, e["srv"].salt, e["srv"].b)
                twin.on_A(s["A"])
                if twin.M1 == s["proof"]:
                    problems.append((f"transport/{t}/stale-exchange", f"the controller sent an M3 whose proof belongs to the abandoned exchange #{e['n']} (salt {hx(e['srv'].salt)}) on a link where no exchange is in progress; outcome {outcome}"))

    async def main():
        d = finish = None
        made = []
        for op in case["history"]:
            acc.call += 1
            if op[0] == "new":
                d = tr.discovery()
                made.append(d)
                finish = None
            elif op[0] == "reset":
                acc.reset()
            elif op[0] == "drop":
                acc.drop = [op[1], op[2]]
            elif op[0] == "start":
                n0, armed = len(acc.exchanges), acc.drop is not None
                try:
                    finish = await asyncio.wait_for(d.async_start_pairing("alias"), 900)
                    outcomes.append("started")
                except Exception as e:  # noqa: BLE001
                    finish = None
                    outcomes.append("start:" + type(e).__name__)
                    if not armed and not acc.dropped and len(acc.exchanges) > n0:
                        problems.append((f"transport/{t}/M2-refused", f"async_start_pairing refuses the accessory's M2 (salt {hx(acc.exchanges[-1]['srv'].salt)}): {type(e).__name__}: {e}"))
                acc.drop = None
            elif op[0] == "finish":
                if finish is None:
                    outcomes.append("no-finish")
                    continue
                right = op[1] == "right"
                try:
                    await asyncio.wait_for(finish(acc.pin if right else case["wrong"]), 900)
                    out = "paired"
                except Exception as e:  # noqa: BLE001
                    out = type(e).__name__
                outcomes.append(out)
                judge(acc.call, right, out)
                acc.drop = None
        for x in made:
            try:
                await asyncio.wait_for(tr.close(x), 900)
            except Exception:  # noqa: BLE001
                pass
        rest = [x for x in asyncio.all_tasks() if x is not asyncio.current_task()]
        for x in rest:
            x.cancel()
        if rest:
            await asyncio.wait(rest, timeout=900)

    with ExitStack() as stack:
        for p in tr.patches():
            stack.enter_context(p)
        stack.enter_context(mock.patch.object(srpmod.os, "urandom", urandom))
        try:
            loop.run_until_complete(main())
        finally:
            loop.close()
    judged = [r for r in acc.exchanges if r["m3"]]
    return problems, {"outcomes": outcomes, "exchanges": len(acc.exchanges), "judged": len(judged), "drops": len(acc.dropped), "stray": len(acc.stray),
                      "completed": sum(1 for r in acc.exchanges if r["m5"] == "ok")}


def transports(ctx):
    """every transport's own pairing entry points against the conformant accessory, over the fixed histories and a
    sample of random ones; link parameters (MTUs, TLV fragmentation, feature flags, TCP segmentation) drawn per history"""
    rng = ctx.rng
    plan = [(t, name, h) for t, hs in HISTORIES.items() for name, h in hs.items()]
    for _ in range(ctx.budget(8, 240)):
        t = rng.choice(["ble", "ble", "ip", "coap"])
        plan.append((t, "random", random_history(rng, t)))
    for t, name, h in plan:
        pin = rng.choice(["031-45-154", "111-22-333", "000-00-000", "987-65-432"])
        wrong = rng.choice([p for p in ["031-45-155", "111-22-333", "000-00-000", "987-65-432"] if p != pin])
        case = {"stream": "transport", "transport": t, "name": name, "history": h, "seed": rng.randrange(1 << 48), "pin": pin, "wrong": wrong,
                "mtu": rng.choice([100, 104, 158, 185, 247, 512]), "rmtu": rng.choice([100, 131, 185, 247, 512]), "tlvfrag": rng.choice([0, 0, 64, 200]),
                "ff": rng.choice([0, 2]), "iids": rng.sample(range(1, 60000), 2)}
        try:
            problems, info = run_history(case)
        except Exception as e:  # noqa: BLE001
            problems, info = [(f"transport/{t}/crash", f"history {name} could not be played: {type(e).__name__}: {e}")], {"outcomes": ["crash"], "exchanges": 0, "judged": 0, "drops": 0, "stray": 0, "completed": 0}
        ctx.evaluations += max(info["judged"], 1)
        ctx.dist[f"transport:{t}:{name}"] += 1
        ctx.dist[f"transport:{t}:exchanges"] += info["exchanges"]
        ctx.dist[f"transport:{t}:exchanges-judged"] += info["judged"]
        ctx.dist[f"transport:{t}:link-drops"] += info["drops"]
        ctx.nontrivial.add(("transport", t, name if name != "random" else tuple(map(tuple, h)), tuple(info["outcomes"])))
        if name != "random" and h[-1] == ["finish", "right"] and info["outcomes"][-1] != "paired" and not problems:
            ctx.notes.append(f"transport {t}/{name}: the last finish_pairing with the right code ended with {info['outcomes'][-1]} although every SRP value was accepted (outcomes {info['outcomes']})")
        seen = set()
        for sig, what in problems:
            if sig not in seen:
                seen.add(sig)
                ctx.violation(sig, f"{t} history '{name}' {json.dumps(h)}: {what}", case)
        if t == "ble" and name == "wrong-then-right":
            ctx.sample(dict(case, outcomes=info["outcomes"]), limit=8)


def run(ctx: Ctx, driver: Driver):
    rng = ctx.rng
    rb = lambda n: bytes(rng.randrange(256) for _ in range(n))  # noqa: E731
    cryptoval.validate(ctx, driver, 4)
    cases, outs, lines = [], [], []
    vcases, vouts, vlines = [], [], []
    pins = ["031-45-154", "111-22-333", "000-00-000", "987-65-432"]

    def one(pin_acc, pin_ctl, salt, b, a_bytes, kind):
        srv, c, A_b, M1, K, Bb, lead = exchange(ctx, pin_acc, pin_ctl, salt, b, a_bytes)
        ctx.evaluations += 1
        a = int.from_bytes(a_bytes, "big")
        case = {"stream": "client", "kind": kind, "pin_acc": pin_acc, "pin_ctl": pin_ctl, "salt": hx(salt), "b": str(b), "a": hx(a_bytes)}
        ctx.nontrivial.add((kind, tuple(sorted(k for k, v in lead.items() if v)), pin_acc == pin_ctl))
        for k, v in lead.items():
            if v:
                ctx.dist["leading-zero:" + k] += 1
        right = pin_acc == pin_ctl
        if A_b != refacc.PAD(pow(refacc.G, a, refacc.N3072)):
            ctx.violation("client/A", "client public value is not PAD(g^a mod N)", case)
        if right:
            if M1 != srv.M1:
                ctx.violation("client/M1", f"accessory rejects the client proof (leading zeros: {lead})", case)
            if K != srv.K:
                ctx.violation("client/K", f"session keys differ (leading zeros: {lead})", case)
            if not c.verify_servers_proof_bytes(srv.M2):
                ctx.violation("client/M2-rejected", f"client rejects the accessory's correct proof (leading zeros: {lead})", case)
        else:
            if M1 == srv.M1:
                ctx.violation("client/wrong-code-accepted", "a wrong setup code produced a proof the accessory accepts", case)
            if c.verify_servers_proof_bytes(srv.M2):
                ctx.violation("client/wrong-code-M2", "client with a wrong code accepts the accessory's proof", case)
        cases.append(case)
        outs.append(f"{hx(A_b)} {hx(K)} {hx(M1)}")
        lines.append(f"srp.client {hx(b'Pair-Setup')} {hx(pin_ctl.encode())} {hx(salt)} {hx(Bb)} {a}")
        ctx.dist["exchange:" + kind] += 1
        return srv, c, Bb, a

    def verify_case(srv, c, pin_ctl, salt, Bb, a, M, want, kind):
        got = c.verify_servers_proof_bytes(M)
        ctx.evaluations += 1
        case = {"stream": "verify", "kind": kind, "M": hx(M)}
        if want is not None and got != want:
            ctx.violation("verify/" + kind, f"verify_servers_proof_bytes({kind}) = {got}, expected {want}", case)
        ctx.nontrivial.add(("verify", kind, got))
        vcases.append(case)
        vouts.append(str(got).lower())
        vlines.append(f"srp.verify {hx(b'Pair-Setup')} {hx(pin_ctl.encode())} {hx(salt)} {hx(Bb)} {a} {hx(M)}")

    # ---- corpus first: exchanges found once by tools/mk_c02_corpus.py whose A, B, S, K, M1 or M2 start with one or two
    # zero bytes (a 1-in-256 / 1-in-65536 event each); every claimed leading zero is re-derived from the reference
    # server before the case is used, so the corpus is an index into the input space, not a trusted table
    for c in load_corpus(ID):
        salt, b, ab = bytes.fromhex(c["salt"]), int(c["b"]), bytes.fromhex(c["a"])
        srv0 = refacc.SrpServer(c["pin"], salt, b)
        A0 = refacc.PAD(pow(refacc.G, int.from_bytes(ab, "big"), refacc.N3072))
        srv0.on_A(A0)
        lead0 = {"A": A0, "B": refacc.PAD(srv0.B), "S": refacc.PAD(srv0.S), "K": srv0.K, "M1": srv0.M1, "M2": srv0.M2}
        for kd in c["kinds"]:
            nz = 2 if kd.endswith("2") and kd not in ("M2",) else 1
            name = kd[:-1] if nz == 2 else kd
            if lead0[name][:nz] != bytes(nz):
                raise RuntimeError(f"corpus/C02 entry does not have the leading zero it claims ({kd}): {c}")
        tag = "corpus-" + "+".join(c["kinds"])
        s2, c2, Bb2, a2 = one(c["pin"], c["pin"], salt, b, ab, tag)
        verify_case(s2, c2, c["pin"], salt, Bb2, a2, s2.M2, True, "correct-leading-zero")
        if s2.M2[0] == 0:
            verify_case(s2, c2, c["pin"], salt, Bb2, a2, s2.M2.lstrip(b"\0"), True, "leading-zero-stripped")
        m = bytearray(s2.M2)
        m[-1] ^= 1
        verify_case(s2, c2, c["pin"], salt, Bb2, a2, bytes(m), False, "bitflip")
        through_generators(ctx, c["pin"], salt, b, ab, tag)
        ctx.dist["corpus"] += 1
    n = ctx.budget(60, 1200)
    for i in range(n):
        pin = rng.choice(pins)
        salt = rng.choice([rb(16), bytes(16), b"\0" + rb(15), b"\0\0\0" + rb(13)])
        srv, c, Bb, a = one(pin, pin, salt, int.from_bytes(rb(32), "big"), rb(16), "honest")
        if i % 6 == 0:
            verify_case(srv, c, pin, salt, Bb, a, srv.M2, True, "correct")
            verify_case(srv, c, pin, salt, Bb, a, b"\0" + srv.M2, True, "zero-prepended")
            for bit in rng.sample(range(512), ctx.budget(6, 64)):
                m = bytearray(srv.M2)
                m[bit // 8] ^= 1 << (bit % 8)
                verify_case(srv, c, pin, salt, Bb, a, bytes(m), False, "bitflip")
            verify_case(srv, c, pin, salt, Bb, a, srv.M2[:-1], False, "truncated")
            verify_case(srv, c, pin, salt, Bb, a, srv.M1, False, "client-proof-echoed")
    for i in range(ctx.budget(15, 400)):
        p1, p2 = rng.sample(pins, 2)
        one(p1, p2, rb(16), int.from_bytes(rb(32), "big"), rb(16), "wrong-code")
    # ---- directed search for the 1-in-256 leading-zero cases
    g, N = refacc.G, refacc.N3072
    found = {"A": None, "B": None}
    tries = 0
    while found["A"] is None and tries < 4000:
        ab = rb(16)
        tries += 1
        if refacc.PAD(pow(g, int.from_bytes(ab, "big"), N))[0] == 0:
            found["A"] = ab
    salt0 = bytes(16)
    tries = 0
    while found["B"] is None and tries < 4000:
        b = int.from_bytes(rb(32), "big")
        tries += 1
        if refacc.PAD(refacc.SrpServer("031-45-154", salt0, b).B)[0] == 0:
            found["B"] = b
    if found["A"]:
        one("031-45-154", "031-45-154", rb(16), int.from_bytes(rb(32), "big"), found["A"], "directed-A0")
    if found["B"]:
        one("031-45-154", "031-45-154", salt0, found["B"], rb(16), "directed-B0")
    # the library's own use of the client, over the salts that matter
    for salt in (bytes(16), b"\x00" + rb(15), b"\x00\x00" + rb(14), rb(16), rb(15) + b"\x00"):
        through_generators(ctx, rng.choice(pins), salt, int.from_bytes(rb(32), "big"), rb(16), "salts")
    # S, M1, M2, K leading zero: draw exchanges until hit (each costs a few modexps)
    need = {"S", "M1", "M2", "K"}
    tries = 0
    while need and tries < ctx.budget(700, 4000):
        tries += 1
        salt = rb(16)
        b = int.from_bytes(rb(32), "big")
        ab = rb(16)
        srv = refacc.SrpServer("031-45-154", salt, b)
        A_b = refacc.PAD(pow(g, int.from_bytes(ab, "big"), N))
        srv.on_A(A_b)
        hit = {k for k, v in {"S": refacc.PAD(srv.S)[0] == 0, "M1": srv.M1[0] == 0, "M2": srv.M2[0] == 0, "K": srv.K[0] == 0}.items() if v} & need
        if hit:
            through_generators(ctx, "031-45-154", salt, b, ab, "directed-" + "".join(sorted(hit)) + "0")
        if hit - {"K"}:
            s2, c2, Bb2, a2 = one("031-45-154", "031-45-154", salt, b, ab, "directed-" + "".join(sorted(hit)) + "0")
            verify_case(s2, c2, "031-45-154", salt, Bb2, a2, s2.M2, True, "correct-leading-zero")
            if "M2" in hit:
                verify_case(s2, c2, "031-45-154", salt, Bb2, a2, s2.M2[1:], True, "leading-zero-stripped")
        need -= hit
    if need:
        ctx.notes.append(f"directed search did not hit a leading zero in {sorted(need)} within {tries} exchanges this run")
    # ---- the exchange as the transports run it, over histories with more than one M1/M2
    transports(ctx)
    ctx.sample({k: v for k, v in cases[0].items()})
    compare_with_model(ctx, "client", cases, outs, lines, driver, canon=lambda s: " ".join(s.split(" ")[:3]))
    compare_with_model(ctx, "verify", vcases, vouts, vlines, driver)


def replay(ctx, driver, c):
    if c.get("stream") == "transport":
        problems, info = run_history(c)
        return {"violations": [{"signature": s, "what": w} for s, w in problems], "outcomes": info["outcomes"]} if problems else None
    if c.get("stream") == "generators":
        sub = Ctx(ID, "quick", 0)
        through_generators(sub, c["pin"], unhx(c["salt"]), int(c["b"]), unhx(c["a"]), c.get("kind", "replay"))
        return sub.violations or None
    return None
