"""C02 - SRP-6a client values equal those of a spec-conformant accessory."""
from __future__ import annotations

import json
from unittest import mock

from harness import cryptoval, refacc
from harness.common import Ctx, Driver, compare_with_model, hx, load_corpus, shrink_list, unhx

import aiohomekit.crypto.srp as srpmod
from aiohomekit.crypto.srp import SrpClient

ID = "C02"
RULE = ("random setup codes / salts (random, all-zero, leading-zero) / ephemeral secrets, plus a DIRECTED search (drawing secrets until the value starts with 0x00) for leading-zero "
        "bytes in A, B, S, M1, M2 and the salt; wrong-code exchanges; every single-bit flip of a sample of server proofs; a proof with a zero byte prepended/stripped. "
        "TRANSPORT level: BleDiscovery / IpDiscovery / CoAPDiscovery async_start_pairing -> finish_pairing against a conformant accessory that starts a new exchange (new salt, b, B) "
        "at every M1, over histories with several M1/M2 before the code is used (wrong code then right code on the same discovery, link drop while M2/M3/M4/M5 is in flight followed by "
        "the library's own retry or a restart, start twice, two discoveries, pair - reset - pair; fixed list plus random compositions; MTUs, TLV fragmentation, TCP segmentation drawn): "
        "A / M1 / K judged against the exchange the accessory is running NOW. "
        "WIDE secrets: client secret a and accessory secret b drawn over the whole range (1, 2, tiny, 5^a < N, 2^k-1/2^k/2^k+1, 128..2048 bits, 3072 bits below N, N - 2^1024.., N - 2^k, N - small, "
        "N-2, N-1, (N-1)/2, N, N+1, 2^3072-1, 2^3072.., 4096 bits, r + j(N-1)), the client's injected the way the tests do (subclass overriding generate_private_key), setup codes and 16-byte salts "
        "of every shape, right and wrong code, directly and through perform_pair_setup_part1/part2. "
        "ACCESSOR HISTORIES: on one SrpClient object (one to three clients interleaved) every public accessor - get_public_key(_bytes), get_shared_secret(_bytes), get_session_key(_bytes), "
        "get_proof(_bytes), verify_servers_proof(_bytes) with the right and a bit-flipped proof, set_salt (bytearray / int) and set_server_public_key (bytes / bytearray) before use and repeated with the "
        "same value - in every order of the four value families, repeated, plus random compositions; EVERY value returned is compared with the independent server's value for that exchange; the same "
        "on the client the pair-setup generators leave behind (between M3 and M4, after M5, after M6; two generators interleaved). "
        "non-trivial = distinct (which values had a leading zero, code right/wrong, proof mutation class; transport, history, outcomes)")
TRUSTED = ["hashlib.sha512 and Python big-int pow in the reference server (harness/refacc.py, RFC 5054 formulas written out)", "Lean Real SHA-512 (validated differentially each run)"]
ASSUMPTIONS = ["SRP hardness: a wrong setup code gives a different shared secret (not proved; exercised by the wrong-code stream)",
               "the client's ephemeral secret is pinned by patching os.urandom in aiohomekit.crypto.srp for the duration of the constructor",
               "transport stream: only the radio / network / clock are replaced - bleak's connection by a GATT server speaking HAP-BLE PDUs (establish_connection patched), TCP by harness.simnet, "
               "aiocoap's client context by a datagram stub, time by the virtual loop; os.urandom is a seeded stream so the controller's secret a is known to the oracle"]
EXPLANATION = "Lean theorems C02_* (group constants, k = H(PAD N|PAD g) evaluated in the kernel, padding for all n, shared-secret agreement and value equality for any hash function); differential tie on the public SrpClient API"


def client_class(a: int):
    """the tests' own way of pinning the ephemeral secret (tests/test_crypto_srp.py): a subclass overriding generate_private_key"""
    class FixedSecretSrpClient(SrpClient):
        def generate_private_key(self):
            return a
    return FixedSecretSrpClient


def new_client(pin: str, a_bytes: bytes, inject: str = "urandom") -> SrpClient:
    if inject == "subclass":
        return client_class(int.from_bytes(a_bytes, "big"))("Pair-Setup", pin)
    with mock.patch.object(srpmod.os, "urandom", lambda n: a_bytes):
        return SrpClient("Pair-Setup", pin)


def mk_client(pin: str, a_bytes: bytes, salt: bytes, Bb: bytes, inject: str = "urandom") -> SrpClient:
    c = new_client(pin, a_bytes, inject)
    c.set_salt(bytearray(salt))
    c.set_server_public_key(bytes(Bb))
    return c


def exchange(ctx, pin_acc, pin_ctl, salt, b, a_bytes, want_lead=None, inject="urandom"):
    srv = refacc.SrpServer(pin_acc, salt, b)
    Bb = refacc.PAD(srv.B)
    c = mk_client(pin_ctl, a_bytes, salt, Bb, inject)
    A_b = bytes(c.get_public_key_bytes())
    M1 = bytes(c.get_proof_bytes())
    K = bytes(c.get_session_key_bytes())
    srv.on_A(A_b)
    lead = {"A": A_b[0] == 0, "B": Bb[0] == 0, "S": refacc.PAD(srv.S)[0] == 0, "M1": srv.M1[0] == 0, "M2": srv.M2[0] == 0, "salt": salt[0] == 0}
    return srv, c, A_b, M1, K, Bb, lead


def client_oracles(ctx, case, srv, c, A_b, M1, K, lead):
    """the oracles of one direct exchange (streams 'client'): everything the client returned against the reference server"""
    a = int.from_bytes(unhx(case["a"]), "big")
    right = case["pin_acc"] == case["pin_ctl"]
    lead = f"{lead}; {case.get('kind')}: client secret a of {a.bit_length()} bits, accessory secret b of {int(case['b']).bit_length()} bits, setup code {case['pin_ctl']}, salt {case['salt']}"
    if A_b != refacc.PAD(pow(refacc.G, a, refacc.N3072)):
        ctx.violation("client/A", f"client public value is not PAD(g^a mod N) ({case.get('kind')}: secret a of {a.bit_length()} bits)", case)
    if right:
        if M1 != srv.M1:
            ctx.violation("client/M1", f"accessory rejects the client proof (leading zeros: {lead})", case)
        if K != srv.K:
            ctx.violation("client/K", f"session keys differ (leading zeros: {lead})", case)
        if not c.verify_servers_proof_bytes(srv.M2):
            ctx.violation("client/M2-rejected", f"client rejects the accessory's correct proof (leading zeros: {lead})", case)
    else:
        if M1 == srv.M1:
            ctx.violation("client/wrong-code-accepted", "a wrong setup code produced a proof the accessory accepts", case)
        if c.verify_servers_proof_bytes(srv.M2):
            ctx.violation("client/wrong-code-M2", "client with a wrong code accepts the accessory's proof", case)


def through_generators(ctx, pin, salt, b, a_bytes, kind, inject="urandom"):
    """the same exchange as the library itself runs it: perform_pair_setup_part1 takes salt and B from the accessory's M2,
    part2 sends A and the proof, checks the accessory's proof and then USES the session key (M5 is sealed under a key
    derived from it).  A conformant accessory - the reference server plus HKDF/ChaCha20-Poly1305 over the full 64-byte K -
    must accept every step."""
    from cryptography.hazmat.primitives.ciphers.aead import ChaCha20Poly1305

    import aiohomekit.protocol as P

    from harness.c01 import L
    srv = refacc.SrpServer(pin, salt, b)
    Bb = refacc.PAD(srv.B)
    case = {"stream": "generators", "kind": kind, "pin": pin, "salt": hx(salt), "b": str(b), "a": hx(a_bytes)}
    if inject != "urandom":
        case["inject"] = inject
    ctx.evaluations += 1
    ctx.nontrivial.add(("generators", kind, salt == bytes(16), salt[0] == 0))
    ctx.dist["generators:" + kind] += 1
    g1 = P.perform_pair_setup_part1(False)
    g1.send(None)
    try:
        g1.send(L([(6, b"\x02"), (3, Bb), (2, salt)]))
        return ctx.violation("generators/part1", "part 1 did not finish on a well-formed M2", case)
    except StopIteration as st:
        got_salt, got_B = bytes(st.value[0]), bytes(st.value[1])
    except Exception as e:  # noqa: BLE001
        return ctx.violation("generators/part1", f"part 1 refuses the accessory's M2 (salt {hx(salt)}): {type(e).__name__}: {e}", case)
    if got_salt != salt or got_B != Bb:
        return ctx.violation("generators/part1", "part 1 hands on a salt or public value other than the accessory's", case)
    # the secret is pinned through os.urandom, or the way the tests do it: a subclass overriding generate_private_key
    pin_secret = mock.patch.object(P, "SrpClient", client_class(int.from_bytes(a_bytes, "big"))) if inject == "subclass" and hasattr(P, "SrpClient") else mock.patch.object(srpmod.os, "urandom", lambda n: a_bytes)
    try:
        with pin_secret:
            g2 = P.perform_pair_setup_part2(pin, "ctl-uuid", bytearray(got_salt), bytearray(got_B))
            m3 = dict((k, bytes(v)) for k, v in g2.send(None)[0])
    except Exception as e:  # noqa: BLE001
        return ctx.violation("generators/M3", f"part 2 cannot produce M3 for the accessory's salt and public value: {type(e).__name__}: {e}", case)
    if m3.get(3) != refacc.PAD(pow(refacc.G, int.from_bytes(a_bytes, "big"), refacc.N3072)):
        return ctx.violation("generators/A", "the public value in M3 is not PAD(g^a mod N) for the secret the controller drew", case)
    srv.on_A(m3[3])
    if m3[3] != refacc.PAD(srv.A) or m3[4] != srv.M1:
        return ctx.violation("generators/M3", "the accessory does not accept the controller's public value / proof as sent in M3", case)
    try:
        m5 = dict((k, bytes(v)) for k, v in g2.send(L([(6, b"\x04"), (4, srv.M2)]))[0])
    except Exception as e:  # noqa: BLE001
        return ctx.violation("generators/M4", f"the accessory's correct proof is refused: {type(e).__name__}", case)
    ekey = refacc.hk(srv.K, b"Pair-Setup-Encrypt-Salt", b"Pair-Setup-Encrypt-Info")
    try:
        ChaCha20Poly1305(ekey).decrypt(b"\0\0\0\0PS-Msg05", m5[5], b"")
    except Exception:  # noqa: BLE001
        return ctx.violation("generators/K", f"the accessory cannot open M5: the controller's session key is not the accessory's 64-byte K (K starts with {hx(srv.K[:2])})", case)
    return None


# ---------------------------------------------------------------------------------------------------------------------
# transport level: the exchange as the TRANSPORTS run it (BleDiscovery / IpDiscovery / CoAPDiscovery .async_start_pairing
# -> finish_pairing), over histories in which more than one M1/M2 exchange happens before the setup code is used
# ---------------------------------------------------------------------------------------------------------------------
class SetupAccessory:
    """A conformant pair-setup accessory (HAP 5.6, M1..M6) written with harness.refacc only.  The exchange in progress
    is bound to the LINK it was started on: every M1 starts a NEW exchange (fresh salt, fresh b, hence fresh B), a lost
    link or a failed M3 abandons it.  Everything the oracle needs is recorded per exchange; `call` is the harness's own
    count of the controller-side call in progress."""

    def __init__(self, pin, rnd):
        self.pin, self.rnd = pin, rnd
        self.exchanges = []  # one record per M1/M2
        self.stray = []  # M3/M5 that arrived on a link with no exchange in progress
        self.cur = None
        self.call = 0
        self.drop = None  # armed link drop [state, phase]
        self.dropped = []
        self.reset()

    def rb(self, n):
        return bytes(self.rnd.randrange(256) for _ in range(n))

    def reset(self):
        """factory reset: pairings removed, new long-term key"""
        from cryptography.hazmat.primitives.asymmetric import ed25519
        self.ltsk = ed25519.Ed25519PrivateKey.from_private_bytes(self.rb(32))
        self.ltpk = self.ltsk.public_key().public_bytes(**refacc.RAW)
        self.acc_id = b"12:34:56:00:01:0A"
        self.paired = False
        self.cur = None

    def link_lost(self, link):
        if self.cur is not None and self.cur["link"] == link:
            self.cur = None

    def take_drop(self, body):
        """is a link drop armed for this pairing message?  -> 'req' (the message never arrives) | 'resp' (it is processed,
        the reply is lost) | 'resp-mid' (the reply is cut) | None"""
        if self.drop is None:
            return None
        try:
            st = refacc.untlv(body).get(6)
        except Exception:  # noqa: BLE001
            return None
        if st != bytes([self.drop[0]]):
            return None
        phase = self.drop[1]
        self.dropped.append((self.call, self.drop[0], phase))
        self.drop = None
        if self.cur is not None:
            self.cur["lost"] = True  # whatever the controller does next, it never saw the end of this exchange
        return phase

    def handle(self, link, body):
        from cryptography.hazmat.primitives.asymmetric import ed25519
        from cryptography.hazmat.primitives.ciphers.aead import ChaCha20Poly1305
        d = refacc.untlv(body)
        st = d.get(6)
        if st == b"\x01":
            if self.paired:
                return refacc.tlv([(6, b"\x02"), (7, b"\x06")])
            salt = self.rnd.choice([self.rb(16), self.rb(16), bytes(16), b"\0" + self.rb(15)])
            srv = refacc.SrpServer(self.pin, salt, int.from_bytes(self.rb(32), "big"))
            self.cur = {"n": len(self.exchanges) + 1, "link": link, "srv": srv, "m3": None, "m4": False, "m5": None, "lost": False, "call": self.call}
            self.exchanges.append(self.cur)
            return refacc.tlv([(6, b"\x02"), (3, refacc.PAD(srv.B)), (2, salt)])
        if st == b"\x03":
            rec = self.cur
            if rec is None or rec["link"] != link or rec["m3"] is not None:
                self.stray.append({"call": self.call, "state": 3, "A": d.get(3, b""), "proof": d.get(4, b"")})
                return refacc.tlv([(6, b"\x04"), (7, b"\x01")])
            srv = rec["srv"]
            srv.on_A(d.get(3, b""))
            rec["m3"] = {"call": self.call, "A": d.get(3, b""), "proof": d.get(4, b"")}
            if srv.A % refacc.N3072 == 0 or d.get(4) != srv.M1:
                self.cur = None
                return refacc.tlv([(6, b"\x04"), (7, b"\x02")])
            rec["m4"] = True
            return refacc.tlv([(6, b"\x04"), (4, srv.M2)])
        if st == b"\x05":
            rec = self.cur
            if rec is None or rec["link"] != link or not rec["m4"] or rec["m5"] is not None:
                self.stray.append({"call": self.call, "state": 5})
                return refacc.tlv([(6, b"\x06"), (7, b"\x01")])
            K = rec["srv"].K
            ekey = refacc.hk(K, b"Pair-Setup-Encrypt-Salt", b"Pair-Setup-Encrypt-Info")
            try:
                sub = refacc.untlv(ChaCha20Poly1305(ekey).decrypt(b"\0\0\0\0PS-Msg05", d[5], b""))
                cx = refacc.hk(K, b"Pair-Setup-Controller-Sign-Salt", b"Pair-Setup-Controller-Sign-Info")
                ed25519.Ed25519PublicKey.from_public_bytes(sub[3]).verify(sub[10], cx + sub[1] + sub[3])
            except Exception:  # noqa: BLE001
                rec["m5"] = "bad"
                self.cur = None
                return refacc.tlv([(6, b"\x06"), (7, b"\x02")])
            rec["m5"] = "ok"
            ax = refacc.hk(K, b"Pair-Setup-Accessory-Sign-Salt", b"Pair-Setup-Accessory-Sign-Info")
            sig = self.ltsk.sign(ax + self.acc_id + self.ltpk)
            enc = ChaCha20Poly1305(ekey).encrypt(b"\0\0\0\0PS-Msg06", refacc.tlv([(1, self.acc_id), (3, self.ltpk), (10, sig)]), b"")
            self.cur = None
            self.paired = True
            return refacc.tlv([(6, b"\x06"), (5, enc)])
        return refacc.tlv([(6, b"\x02"), (7, b"\x01")])


class _GattChar:
    max_write_without_response_size = None

    def __init__(self, uuid, iid):
        self.uuid, self.iid, self.handle, self.properties = uuid, iid, iid, ["read", "write"]


class GattLink:
    """The radio: one BLE connection to a HAP-BLE GATT server.  Stands in for AIOHomeKitBleakClient; everything above
    GATT reads/writes is the library's own code.  The server side speaks HAP-BLE PDUs (R2 7.3): request reassembly over
    continuation fragments, CHAR_READ / CHAR_WRITE with the HAP-Param TLVs, responses fragmented to the accessory's
    own MTU, optionally the pairing reply split over FragmentData / FragmentLast items."""

    def __init__(self, acc, link, cfg):
        from aiohomekit.model import CharacteristicsTypes
        self.acc, self.link, self.cfg = acc, link, cfg
        self.is_connected = True
        self.address = "AA:BB:CC:DD:EE:FF"
        self.features = _GattChar(CharacteristicsTypes.PAIRING_FEATURES, cfg["iids"][0])
        self.setup = _GattChar(CharacteristicsTypes.PAIR_SETUP, cfg["iids"][1])
        self.rx, self.tx, self.more = {}, {}, []
        self.die_at_read = None

    def _alive(self):
        from bleak.exc import BleakError
        if not self.is_connected:
            raise BleakError("Not connected")

    def _die(self):
        from bleak.exc import BleakError
        self.is_connected = False
        self.acc.link_lost(self.link)
        raise BleakError("disconnected")

    async def get_characteristic(self, service, characteristic, iid=None):
        from aiohomekit.controller.ble.bleak import BleakCharacteristicMissing
        for ch in (self.features, self.setup):
            if ch.uuid.lower() == characteristic.lower():
                return ch
        raise BleakCharacteristicMissing(f"{characteristic} not found")

    async def get_characteristic_iid(self, ch):
        return ch.iid

    def determine_fragment_size(self, overhead, handle):
        return self.cfg["mtu"] - 3 - overhead

    async def clear_cache(self):
        return True

    async def disconnect(self):
        self.is_connected = False
        self.acc.link_lost(self.link)

    async def write_gatt_char(self, handle, data, response):
        self._alive()
        data = bytes(data)
        if data[0] & 0x80:
            st = self.rx.get(handle.uuid)
            if st is None or st["tid"] != data[1]:
                return
            st["body"] += data[2:]
        else:
            st = {"op": data[1], "tid": data[2], "iid": int.from_bytes(data[3:5], "little"), "len": int.from_bytes(data[5:7], "little") if len(data) >= 7 else 0, "body": data[7:]}
            self.rx[handle.uuid] = st
            self.tx[handle.uuid] = []  # a new request voids an unread response
        if len(st["body"]) >= st["len"]:
            del self.rx[handle.uuid]
            self._request(handle, st)

    def _request(self, ch, st):
        status, value = 0, b""
        self.die_at_read = None
        if st["iid"] != ch.iid:
            status = 4
        elif st["op"] == 3 and ch is self.features:
            value = bytes([self.cfg["ff"]])
        elif st["op"] == 2 and ch is self.setup:
            msg = refacc.untlv(st["body"][:st["len"]]).get(1, b"")
            if msg == b"\x0c\x00" and self.more:
                value = self.more.pop(0)  # the controller acknowledged a fragment of the pairing reply
            else:
                phase = self.acc.take_drop(msg)
                if phase == "req":
                    self._die()
                reply = self.acc.handle(self.link, msg)
                n = self.cfg["tlvfrag"]
                self.more = []
                if n and len(reply) > n:
                    chunks = [reply[i:i + n] for i in range(0, len(reply), n)]
                    self.more = [refacc.tlv([(12, c)]) for c in chunks[1:-1]] + [refacc.tlv([(13, chunks[-1])])]
                    value = refacc.tlv([(12, chunks[0])])
                else:
                    value = reply
                self.die_at_read = {"resp": 0, "resp-mid": 1}.get(phase)
        else:
            status = 6
        body = refacc.tlv([(1, value)]) if status == 0 else b""
        n = self.cfg["rmtu"] - 3
        frags = [bytes([0x02, st["tid"], status]) + len(body).to_bytes(2, "little") + body[:n - 5]]
        rest = body[n - 5:]
        frags += [bytes([0x82, st["tid"]]) + rest[i:i + n - 2] for i in range(0, len(rest), n - 2)]
        if self.die_at_read == 1 and len(frags) == 1:
            self.die_at_read = 0
        self.tx[ch.uuid] = frags

    async def read_gatt_char(self, handle):
        self._alive()
        if self.die_at_read is not None:
            if self.die_at_read == 0:
                self.die_at_read = None
                self._die()
            self.die_at_read -= 1
        q = self.tx.get(handle.uuid)
        return bytearray(q.pop(0)) if q else bytearray()


class _Ble:
    def __init__(self, acc, cfg, controller, loop):
        self.acc, self.cfg, self.controller, self.links = acc, cfg, controller, 0

    def patches(self):
        import aiohomekit.controller.ble.discovery as ble_discovery
        return [mock.patch.object(ble_discovery, "establish_connection", self.establish)]

    async def establish(self, device, name, disconnected_callback=None, **kw):
        self.links += 1
        return GattLink(self.acc, "ble%d" % self.links, self.cfg)

    def discovery(self):
        from types import SimpleNamespace

        from aiohomekit.controller.ble.discovery import BleDiscovery
        from aiohomekit.controller.ble.manufacturer_data import HomeKitAdvertisement
        adv = HomeKitAdvertisement.from_cache(address="AA:BB:CC:DD:EE:FF", id=self.acc.acc_id.decode(), config_num=1, state_num=1)
        return BleDiscovery(self.controller, SimpleNamespace(address="AA:BB:CC:DD:EE:FF", name="acc"), adv, None)

    async def close(self, d):
        await d._close()


class _Ip:
    """the real HomeKitConnection over harness.simnet; the accessory answers POST /pair-setup, one exchange per TCP connection"""

    def __init__(self, acc, cfg, controller, loop):
        from harness import simnet
        self.acc, self.cfg, self.controller, self.loop = acc, cfg, controller, loop
        self.net = simnet.Net(loop)
        self.net.handler = self.on_write
        self.bufs = {}

    def patches(self):
        return [self.net.patched()]

    def discovery(self):
        from aiohomekit.controller.ip.discovery import IpDiscovery

        from harness import rcsim
        return IpDiscovery(self.controller, rcsim.description([1]))

    async def close(self, d):
        await d.close()

    def on_write(self, t, data):
        b = self.bufs.get(t.index, b"") + data
        while True:
            i = b.find(b"\r\n\r\n")
            if i < 0:
                break
            cl = 0
            for h in b[:i].split(b"\r\n")[1:]:
                if h.lower().startswith(b"content-length:"):
                    cl = int(h.split(b":")[1])
            if len(b) < i + 4 + cl:
                break
            self.loop.call_soon(self.serve, t, b[:i].split(b" ", 2)[1], b[i + 4:i + 4 + cl])
            b = b[i + 4 + cl:]
        self.bufs[t.index] = b

    def serve(self, t, target, body):
        if t.closing or t.closed:
            return
        link = "ip%d" % t.index
        if target != b"/pair-setup":
            return t.feed(b"HTTP/1.1 404 Not Found\r\nContent-Length: 0\r\n\r\n")
        phase = self.acc.take_drop(body)
        if phase == "req":
            self.acc.link_lost(link)
            return t.peer_reset()
        reply = self.acc.handle(link, body)
        reply = b"HTTP/1.1 200 OK\r\nContent-Type: application/pairing+tlv8\r\nContent-Length: %d\r\n\r\n" % len(reply) + reply
        if phase == "resp":
            self.acc.link_lost(link)
            return t.peer_reset()
        if phase == "resp-mid":
            t.feed(reply[:len(reply) // 2])
            self.acc.link_lost(link)
            return t.peer_close()
        n = self.cfg["rmtu"]
        for i in range(0, len(reply), n):  # the reply arrives in TCP segments of the accessory's choosing
            t.feed(reply[i:i + n])


class _Coap:
    """aiocoap's client context replaced; every client context is one link (its own source endpoint)"""

    def __init__(self, acc, cfg, controller, loop):
        self.acc, self.cfg, self.controller, self.links = acc, cfg, controller, 0

    def patches(self):
        import aiohomekit.controller.coap.connection as coap_conn
        tr = self

        class Context:
            @staticmethod
            async def create_client_context():
                tr.links += 1
                return _CoapCtx(tr, "coap%d" % tr.links)
        return [mock.patch.object(coap_conn, "Context", Context)]

    def discovery(self):
        from aiohomekit.controller.coap.discovery import CoAPDiscovery
        from aiohomekit.model.categories import Categories
        from aiohomekit.model.feature_flags import FeatureFlags
        from aiohomekit.model.status_flags import StatusFlags
        from aiohomekit.zeroconf import HomeKitService
        # HAP over CoAP runs on Thread: the advertised address is IPv6 (the library writes it as [addr]:port)
        return CoAPDiscovery(self.controller, HomeKitService(
            name="acc", id=self.acc.acc_id.decode(), model="m", feature_flags=FeatureFlags(self.cfg["ff"]), status_flags=StatusFlags(0), config_num=1, state_num=1,
            category=Categories.LIGHTBULB, protocol_version="1.1", type="_hap._udp.local.", address="fd00::12:1", addresses=["fd00::12:1"], port=5683))

    async def close(self, d):
        await d.close()


class _CoapCtx:
    def __init__(self, tr, link):
        self.tr, self.link, self.down = tr, link, False

    def request(self, msg):
        from types import SimpleNamespace
        return SimpleNamespace(response=self._serve(bytes(msg.payload)))

    async def _serve(self, body):
        import asyncio
        acc = self.tr.acc
        phase = None if self.down else acc.take_drop(body)
        if self.down or phase == "req":
            acc.link_lost(self.link)
            await asyncio.sleep(10 ** 6)  # the datagram is lost: the library's own timeout ends the wait
        reply = acc.handle(self.link, body)
        if phase is not None:
            acc.link_lost(self.link)
            await asyncio.sleep(10 ** 6)
        from types import SimpleNamespace
        return SimpleNamespace(payload=reply, code=None)

    async def shutdown(self):
        self.down = True
        self.tr.acc.link_lost(self.link)


TRANSPORTS = {"ble": _Ble, "ip": _Ip, "coap": _Coap}

# histories: ["new"] a new discovery object | ["start"] async_start_pairing | ["finish", "right" | "wrong"] the callable
# it returned, with the accessory's setup code or another one | ["drop", state, phase] arm a link drop for the next
# pairing message with that state number | ["reset"] factory reset of the accessory (it was paired)
HISTORIES = {
    "ble": {
        "plain": [["new"], ["start"], ["finish", "right"]],
        "wrong-then-right": [["new"], ["start"], ["finish", "wrong"], ["finish", "right"]],
        "wrong-wrong-right": [["new"], ["start"], ["finish", "wrong"], ["finish", "wrong"], ["finish", "right"]],
        "drop-M3-written": [["new"], ["start"], ["drop", 3, "req"], ["finish", "right"]],
        "drop-M4-read": [["new"], ["start"], ["drop", 3, "resp-mid"], ["finish", "right"]],
        "drop-M4-lost": [["new"], ["start"], ["drop", 3, "resp"], ["finish", "right"]],
        "drop-M5-written": [["new"], ["start"], ["drop", 5, "req"], ["finish", "right"]],
        "drop-M2-read": [["new"], ["drop", 1, "resp-mid"], ["start"], ["finish", "right"]],
        "wrong-then-drop-M3": [["new"], ["start"], ["finish", "wrong"], ["drop", 3, "req"], ["finish", "right"]],
        "start-twice": [["new"], ["start"], ["start"], ["finish", "right"]],
        "two-discoveries": [["new"], ["start"], ["finish", "wrong"], ["new"], ["start"], ["finish", "right"]],
        "pair-reset-pair": [["new"], ["start"], ["finish", "right"], ["reset"], ["new"], ["start"], ["finish", "wrong"], ["finish", "right"]],
    },
    "ip": {
        "plain": [["new"], ["start"], ["finish", "right"]],
        "wrong-restart-right": [["new"], ["start"], ["finish", "wrong"], ["start"], ["finish", "right"]],
        "drop-M3-restart": [["new"], ["start"], ["drop", 3, "req"], ["finish", "right"], ["start"], ["finish", "right"]],
        "drop-M4-restart": [["new"], ["start"], ["drop", 3, "resp-mid"], ["finish", "right"], ["start"], ["finish", "right"]],
        "start-twice": [["new"], ["start"], ["start"], ["finish", "right"]],
        "two-discoveries": [["new"], ["start"], ["finish", "wrong"], ["new"], ["start"], ["finish", "right"]],
        "pair-reset-pair": [["new"], ["start"], ["finish", "right"], ["reset"], ["new"], ["start"], ["finish", "right"]],
    },
    "coap": {
        "plain": [["new"], ["start"], ["finish", "right"]],
        "wrong-restart-right": [["new"], ["start"], ["finish", "wrong"], ["start"], ["finish", "right"]],
        "drop-M4-restart": [["new"], ["start"], ["drop", 3, "resp"], ["finish", "right"], ["start"], ["finish", "right"]],
        "two-discoveries": [["new"], ["start"], ["finish", "wrong"], ["new"], ["start"], ["finish", "right"]],
    },
}


def random_history(rng, transport):
    """rounds of (maybe a new discovery) (maybe a fresh start) (maybe a link drop) finish; the last finish has the right code"""
    h = [["new"], ["start"]]
    rounds = rng.choice([1, 2, 2, 3, 4])
    for r in range(rounds):
        last = r == rounds - 1
        if r and (transport != "ble" or rng.random() < 0.3):
            # IP / CoAP have no restart inside finish_pairing: the caller starts over (HAP: a failed attempt ends the exchange)
            h += rng.choice([[["start"]], [["new"], ["start"]]])
        elif rng.random() < 0.15:
            h += [["start"]]
        dropped = False
        if rng.random() < 0.4:
            st, ph = rng.choice([(3, "req"), (3, "resp"), (3, "resp-mid"), (5, "req")] if transport != "coap" else [(3, "req"), (3, "resp")])
            h.append(["drop", st, ph])
            dropped = True
        code = "right" if last or dropped else rng.choice(["wrong", "wrong", "right"])
        h.append(["finish", code])
        paired = code == "right" and (not dropped or transport == "ble")  # BLE retries a dropped link itself
        if paired and not last:
            h += [["reset"], ["new"], ["start"]]
        if last and not paired:
            h += [["start"], ["finish", "right"]]
    return h


def run_history(case):
    """play one history against the real transport code; -> (problems [(signature, what)], summary for the evidence)"""
    import asyncio
    import random as _random
    from collections import defaultdict
    from contextlib import ExitStack
    from unittest.mock import MagicMock

    from aiohomekit.characteristic_cache import CharacteristicCacheMemory

    from harness import simnet
    t = case["transport"]
    acc = SetupAccessory(case["pin"], _random.Random(case["seed"]))
    crnd = _random.Random(case["seed"] + 1)
    ulog = defaultdict(list)

    def urandom(n):
        v = bytes(crnd.randrange(256) for _ in range(n))
        ulog[acc.call].append(v)
        return v

    loop = simnet.VLoop()
    controller = MagicMock()
    controller._char_cache = CharacteristicCacheMemory()
    controller.pairings = {}
    tr = TRANSPORTS[t](acc, case, controller, loop)
    problems, outcomes = [], []

    def judge(call, right, outcome):
        """the oracle, from the accessory's records alone"""
        g, N = refacc.G, refacc.N3072
        for r in [r for r in acc.exchanges if r["m3"] and r["m3"]["call"] == call]:
            srv, A_b, proof = r["srv"], r["m3"]["A"], r["m3"]["proof"]
            which = f"exchange #{r['n']} of {len(acc.exchanges)} (salt {hx(srv.salt)}, B {hx(refacc.PAD(srv.B)[:6])}..)"
            if not right:
                if proof == srv.M1:
                    problems.append((f"transport/{t}/wrong-code-accepted", f"{which}: a wrong setup code ({case['wrong']} for {acc.pin}) gave a proof the accessory accepts"))
                continue
            if A_b not in {refacc.PAD(pow(g, int.from_bytes(v, "big"), N)) for v in ulog[call] if len(v) == 16}:
                problems.append((f"transport/{t}/A", f"{which}: the public value in M3 ({len(A_b)} bytes, {hx(A_b[:6])}..) is not PAD(g^a mod N) for the secret the controller drew in this call"))
            if proof != srv.M1:
                stale = None
                for e in acc.exchanges:
                    if e is not r:
                        twin = refacc.SrpServer(acc.pin, e["srv"].salt, e["srv"].b)
                        twin.on_A(A_b)
                        if twin.M1 == proof:
                            stale = e
                why = f"; it is the proof for the abandoned exchange #{stale['n']} (salt {hx(stale['srv'].salt)})" if stale else ""
                problems.append((f"transport/{t}/M1", f"{which}, correct setup code {acc.pin}: the accessory rejects the controller's proof {hx(proof[:8])}.. (it computes {hx(srv.M1[:8])}..){why}; outcome {outcome}"))
            elif r["m4"] and not r["lost"] and r["m5"] is None:
                problems.append((f"transport/{t}/M2-rejected", f"{which}: the accessory's correct proof was delivered but the controller did not go on to M5; outcome {outcome}"))
            elif r["m5"] == "bad":
                problems.append((f"transport/{t}/K", f"{which}: the accessory cannot open M5 - the controller's session key is not the accessory's K; outcome {outcome}"))
        for s in [s for s in acc.stray if s["call"] == call and s["state"] == 3 and right]:
            for e in acc.exchanges:
                twin = refacc.SrpServer(acc.pin, e["srv"].salt, e["srv"].b)
                twin.on_A(s["A"])
                if twin.M1 == s["proof"]:
                    problems.append((f"transport/{t}/stale-exchange", f"the controller sent an M3 whose proof belongs to the abandoned exchange #{e['n']} (salt {hx(e['srv'].salt)}) on a link where no exchange is in progress; outcome {outcome}"))

    async def main():
        d = finish = None
        made = []
        for op in case["history"]:
            acc.call += 1
            if op[0] == "new":
                d = tr.discovery()
                made.append(d)
                finish = None
            elif op[0] == "reset":
                acc.reset()
            elif op[0] == "drop":
                acc.drop = [op[1], op[2]]
            elif op[0] == "start":
                n0, armed = len(acc.exchanges), acc.drop is not None
                try:
                    finish = await asyncio.wait_for(d.async_start_pairing("alias"), 900)
                    outcomes.append("started")
                except Exception as e:  # noqa: BLE001
                    finish = None
                    outcomes.append("start:" + type(e).__name__)
                    if not armed and not acc.dropped and len(acc.exchanges) > n0:
                        problems.append((f"transport/{t}/M2-refused", f"async_start_pairing refuses the accessory's M2 (salt {hx(acc.exchanges[-1]['srv'].salt)}): {type(e).__name__}: {e}"))
                acc.drop = None
            elif op[0] == "finish":
                if finish is None:
                    outcomes.append("no-finish")
                    continue
                right = op[1] == "right"
                try:
                    await asyncio.wait_for(finish(acc.pin if right else case["wrong"]), 900)
                    out = "paired"
                except Exception as e:  # noqa: BLE001
                    out = type(e).__name__
                outcomes.append(out)
                judge(acc.call, right, out)
                acc.drop = None
        for x in made:
            try:
                await asyncio.wait_for(tr.close(x), 900)
            except Exception:  # noqa: BLE001
                pass
        rest = [x for x in asyncio.all_tasks() if x is not asyncio.current_task()]
        for x in rest:
            x.cancel()
        if rest:
            await asyncio.wait(rest, timeout=900)

    with ExitStack() as stack:
        for p in tr.patches():
            stack.enter_context(p)
        stack.enter_context(mock.patch.object(srpmod.os, "urandom", urandom))
        try:
            loop.run_until_complete(main())
        finally:
            loop.close()
    judged = [r for r in acc.exchanges if r["m3"]]
    return problems, {"outcomes": outcomes, "exchanges": len(acc.exchanges), "judged": len(judged), "drops": len(acc.dropped), "stray": len(acc.stray),
                      "completed": sum(1 for r in acc.exchanges if r["m5"] == "ok")}


def transports(ctx):
    """every transport's own pairing entry points against the conformant accessory, over the fixed histories and a
    sample of random ones; link parameters (MTUs, TLV fragmentation, feature flags, TCP segmentation) drawn per history"""
    rng = ctx.rng
    plan = [(t, name, h) for t, hs in HISTORIES.items() for name, h in hs.items()]
    for _ in range(ctx.budget(8, 240)):
        t = rng.choice(["ble", "ble", "ip", "coap"])
        plan.append((t, "random", random_history(rng, t)))
    for t, name, h in plan:
        pin = rng.choice(["031-45-154", "111-22-333", "000-00-000", "987-65-432"])
        wrong = rng.choice([p for p in ["031-45-155", "111-22-333", "000-00-000", "987-65-432"] if p != pin])
        case = {"stream": "transport", "transport": t, "name": name, "history": h, "seed": rng.randrange(1 << 48), "pin": pin, "wrong": wrong,
                "mtu": rng.choice([100, 104, 158, 185, 247, 512]), "rmtu": rng.choice([100, 131, 185, 247, 512]), "tlvfrag": rng.choice([0, 0, 64, 200]),
                "ff": rng.choice([0, 2]), "iids": rng.sample(range(1, 60000), 2)}
        try:
            problems, info = run_history(case)
        except Exception as e:  # noqa: BLE001
            problems, info = [(f"transport/{t}/crash", f"history {name} could not be played: {type(e).__name__}: {e}")], {"outcomes": ["crash"], "exchanges": 0, "judged": 0, "drops": 0, "stray": 0, "completed": 0}
        ctx.evaluations += max(info["judged"], 1)
        ctx.dist[f"transport:{t}:{name}"] += 1
        ctx.dist[f"transport:{t}:exchanges"] += info["exchanges"]
        ctx.dist[f"transport:{t}:exchanges-judged"] += info["judged"]
        ctx.dist[f"transport:{t}:link-drops"] += info["drops"]
        ctx.nontrivial.add(("transport", t, name if name != "random" else tuple(map(tuple, h)), tuple(info["outcomes"])))
        if name != "random" and h[-1] == ["finish", "right"] and info["outcomes"][-1] != "paired" and not problems:
            ctx.notes.append(f"transport {t}/{name}: the last finish_pairing with the right code ended with {info['outcomes'][-1]} although every SRP value was accepted (outcomes {info['outcomes']})")
        seen = set()
        for sig, what in problems:
            if sig not in seen:
                seen.add(sig)
                ctx.violation(sig, f"{t} history '{name}' {json.dumps(h)}: {what}", case)
        if t == "ble" and name == "wrong-then-right":
            ctx.sample(dict(case, outcomes=info["outcomes"]), limit=8)


# ---------------------------------------------------------------------------------------------------------------------
# the whole range of ephemeral secrets, setup codes and salts of every shape
# ---------------------------------------------------------------------------------------------------------------------
def secret_classes():
    """name -> draw(rng): the classes of ephemeral secrets the quantifier ('all client and server ephemeral secrets')
    ranges over.  Nothing in SRP-6a restricts the secret to the size the library happens to generate: a conformant peer
    computes g^a / (A v^u)^b for whatever integer was drawn."""
    N = refacc.N3072
    top = 1 << 3072
    return {
        "one": lambda r: 1,
        "two-three": lambda r: r.choice([2, 3]),
        "tiny": lambda r: r.randrange(4, 1 << 16),
        "unreduced-A": lambda r: r.randrange(1, 1323),  # 5^a < N: the public value has (many) leading zero bytes
        "pow2-edge": lambda r: (1 << r.choice([8, 16, 64, 127, 128, 129, 255, 256, 511, 512, 1023, 1024, 1025, 2048, 3071])) + r.choice([-1, 0, 1]),
        "bits-128": lambda r: r.getrandbits(128) | 1,
        "bits-256": lambda r: r.getrandbits(256) | (1 << 255),
        "bits-512": lambda r: r.getrandbits(512) | (1 << 511),
        "bits-1024": lambda r: r.getrandbits(1024) | (1 << 1023),
        "bits-2048": lambda r: r.getrandbits(2048) | (1 << 2047),
        "bits-3072-below-N": lambda r: r.randrange(1 << 3071, N - (1 << 1040)),
        "N-minus-1024-bits": lambda r: N - 2 - r.getrandbits(r.choice([1000, 1020, 1023, 1024, 1025, 1030])),
        "N-minus-2^k": lambda r: N - (1 << r.choice([2, 8, 64, 128, 512, 900, 1000])),
        "N-minus-small": lambda r: N - r.randrange(3, 1 << 16),
        "N-2": lambda r: N - 2,
        "N-1": lambda r: N - 1,
        "half-order": lambda r: (N - 1) // 2 + r.choice([-1, 0, 1]),
        "N": lambda r: N,
        "N+small": lambda r: N + r.randrange(1, 1 << 16),
        "2^3072-1": lambda r: top - 1,
        "2^3072+": lambda r: top + r.choice([0, 1, r.getrandbits(128)]),
        "bits-4096": lambda r: r.getrandbits(4096) | (1 << 4095),
        "order-multiple+r": lambda r: (N - 1) * r.randrange(1, 4) + (r.getrandbits(128) | 1),
    }


AT_OR_ABOVE_N = ["N", "N+small", "2^3072-1", "2^3072+", "bits-4096", "order-multiple+r"]
TOP_OF_RANGE = ["N-2", "N-minus-small", "N-minus-2^k"]


def draw_pin(rng):
    """setup codes: the usual ones, any ddd-dd-ddd, the ones of one repeated digit, and the code typed without dashes"""
    d = lambda n: "".join(rng.choice("0123456789") for _ in range(n))  # noqa: E731
    k = rng.randrange(8)
    if k < 2:
        return rng.choice(["031-45-154", "111-22-333", "000-00-000", "987-65-432"])
    if k < 6:
        return f"{d(3)}-{d(2)}-{d(3)}"
    if k == 6:
        c = rng.choice("0123456789")
        return f"{c * 3}-{c * 2}-{c * 3}"
    return d(8)


def other_pin(rng, pin):
    """a wrong code: one digit changed, or another code altogether"""
    if rng.random() < 0.5:
        i = rng.choice([j for j, ch in enumerate(pin) if ch.isdigit()])
        return pin[:i] + rng.choice([c for c in "0123456789" if c != pin[i]]) + pin[i + 1:]
    while True:
        p = draw_pin(rng)
        if p != pin:
            return p


def draw_salt(rng):
    rb = lambda n: bytes(rng.randrange(256) for _ in range(n))  # noqa: E731
    k = rng.randrange(9)
    if k < 2:
        return rb(16)
    if k == 2:
        return bytes(16)
    if k == 3:
        z = rng.randrange(1, 16)
        return bytes(z) + bytes([rng.randrange(1, 256)]) + rb(15 - z)
    if k == 4:
        z = rng.randrange(1, 16)
        return rb(16 - z) + bytes(z)
    if k == 5:
        return b"\xff" * 16
    if k == 6:
        return bytes(15) + bytes([rng.randrange(1, 256)])
    if k == 7:
        return bytes([0x80]) + bytes(15)
    return b"\0" + rb(15)


def min_bytes(n: int) -> bytes:
    return n.to_bytes(max((n.bit_length() + 7) // 8, 1), "big")


# ---------------------------------------------------------------------------------------------------------------------
# histories of accessor calls on one client object: every value, every time it is returned, against the reference server
# ---------------------------------------------------------------------------------------------------------------------
FAMILIES = {"S": ["S", "Sb"], "K": ["K", "Kb"], "M": ["M", "Mb"], "V": ["V", "Vb"]}
CALLS = {"A": "get_public_key()", "Ab": "get_public_key_bytes()", "S": "get_shared_secret()", "Sb": "get_shared_secret_bytes()", "K": "get_session_key()",
         "Kb": "get_session_key_bytes()", "M": "get_proof()", "Mb": "get_proof_bytes()", "V": "verify_servers_proof(M2)", "Vb": "verify_servers_proof_bytes(M2)",
         "Vx": "verify_servers_proof(M2 with one bit flipped)", "Vbx": "verify_servers_proof_bytes(M2 with one bit flipped)",
         "salt": "set_salt(bytearray)", "salt-int": "set_salt(int)", "B": "set_server_public_key(bytes)", "B-ba": "set_server_public_key(bytearray)", "new": "SrpClient(...)"}
NEEDS_BOTH = {"S", "Sb", "K", "Kb", "M", "Mb", "V", "Vb", "Vx", "Vbx"}


def reference(ex):
    """the independent accessory's values for one exchange {pin_acc, pin_ctl, salt, b, a}; nothing of the client goes in"""
    salt, a = unhx(ex["salt"]), int(ex["a"])
    srv = refacc.SrpServer(ex["pin_acc"], salt, int(ex["b"]))
    A = pow(refacc.G, a, refacc.N3072)
    srv.on_A(refacc.PAD(A))
    return {"srv": srv, "salt": salt, "a": a, "A": A, "Ab": refacc.PAD(A), "Bb": refacc.PAD(srv.B), "S": srv.S, "Sb": refacc.PAD(srv.S), "K": int.from_bytes(srv.K, "big"), "Kb": srv.K,
            "M": int.from_bytes(srv.M1, "big"), "Mb": srv.M1, "M2": srv.M2, "right": ex["pin_acc"] == ex["pin_ctl"]}


def short(v):
    if isinstance(v, (bytes, bytearray)):
        return f"{len(v)} bytes {hx(bytes(v)[:8])}.."
    if isinstance(v, int) and not isinstance(v, bool):
        return f"int {hex(v)[:20]}.. ({v.bit_length()} bits)"
    return repr(v)


def apply_op(c, op, ref):
    """ONE public call on the client, judged against the independent server's value for the same exchange
    -> None | (signature tail, what)"""
    name = op[0]
    try:
        if name == "salt":
            return c.set_salt(bytearray(ref["salt"]))
        if name == "salt-int":
            return c.set_salt(int.from_bytes(ref["salt"], "big"))
        if name == "B":
            return c.set_server_public_key(bytes(ref["Bb"]))
        if name == "B-ba":
            return c.set_server_public_key(bytearray(ref["Bb"]))
        if name in ("V", "Vb", "Vx", "Vbx"):
            m = bytearray(ref["M2"])
            if name in ("Vx", "Vbx"):
                m[op[1] // 8] ^= 1 << (op[1] % 8)
            got = c.verify_servers_proof(int.from_bytes(m, "big")) if name in ("V", "Vx") else c.verify_servers_proof_bytes(bytes(m))
        else:
            got = {"A": c.get_public_key, "Ab": c.get_public_key_bytes, "S": c.get_shared_secret, "Sb": c.get_shared_secret_bytes, "K": c.get_session_key,
                   "Kb": c.get_session_key_bytes, "M": c.get_proof, "Mb": c.get_proof_bytes}[name]()
    except Exception as e:  # noqa: BLE001
        return "exception", f"{CALLS[name]} raises {type(e).__name__}: {e}"
    if name in ("V", "Vb"):
        if ref["right"] and got is not True:
            return "M2-rejected", f"{CALLS[name]} = {got!r}: the controller rejects the accessory's correct proof"
        if not ref["right"] and got is not False:
            return "wrong-code-M2", f"{CALLS[name]} = {got!r}: a controller with the wrong setup code accepts the accessory's proof"
        return None
    if name in ("Vx", "Vbx"):
        if got is not False:
            return "M2-forged-accepted", f"{CALLS[name]} (bit {op[1]}) = {got!r}: a proof that is not the accessory's is accepted"
        return None
    if isinstance(got, (bytes, bytearray)):
        got = bytes(got)
    want = ref[name]
    if name in ("A", "Ab"):
        if got != want or type(got) is not type(want):
            return "A", f"{CALLS[name]} = {short(got)}, a conformant peer computes g^a mod N = {short(want)}"
        return None
    fam = {"S": "S", "Sb": "S", "K": "K", "Kb": "K", "M": "M1", "Mb": "M1"}[name]
    if ref["right"]:
        if got != want or type(got) is not type(want):
            return fam, f"{CALLS[name]} = {short(got)}, the accessory computes {short(want)} for this exchange"
    elif fam == "M1" and got == want:
        return "wrong-code-accepted", f"{CALLS[name]}: a wrong setup code gives the proof the accessory accepts"
    return None


def valid_history(ops, n_clients):
    """new first, values that need salt and B only once both are set (the API raises before that, which is not the property's business)"""
    st = {}
    for op in ops:
        ci, name = op[0], op[1]
        if name == "new":
            if ci in st:
                return False
            st[ci] = set()
        elif ci not in st:
            return False
        elif name in ("salt", "salt-int"):
            st[ci].add("salt")
        elif name in ("B", "B-ba"):
            st[ci].add("B")
        elif name in NEEDS_BOTH and st[ci] != {"salt", "B"}:
            return False
    return True


def play_history(case):
    """play {exchanges: [...], ops: [[client index, call, args..]]} on real SrpClient objects -> (problems [(signature, what)], calls judged)"""
    refs = [reference(ex) for ex in case["exchanges"]]
    clients, problems, judged, done = {}, [], 0, []
    for n, op in enumerate(case["ops"], 1):
        ci, name = op[0], op[1]
        ex, ref = case["exchanges"][ci], refs[ci]
        if name == "new":
            try:
                clients[ci] = new_client(ex["pin_ctl"], min_bytes(ref["a"]), ex.get("inject", "subclass"))
            except Exception as e:  # noqa: BLE001
                problems.append(("history/exception", f"op #{n}: SrpClient('Pair-Setup', {ex['pin_ctl']!r}) with secret of {ref['a'].bit_length()} bits raises {type(e).__name__}: {e}"))
                break
            done.append(f"{ci}:new")
            continue
        r = apply_op(clients[ci], op[1:], ref)
        judged += name not in ("salt", "salt-int", "B", "B-ba")
        if r is not None:
            before = ", ".join(d.split(":", 1)[1] for d in done if d.startswith(f"{ci}:")) or "nothing"
            problems.append(("history/" + r[0], f"op #{n} on client {ci} (secret a of {ref['a'].bit_length()} bits, setup code {ex['pin_ctl']}, salt {ex['salt']}): {r[1]}; calls on this client before: {before}"))
        done.append(f"{ci}:{name}")
    return problems, judged


def setup_ops(rng, ci):
    """construction and the two setters in either order, the public value read in between"""
    ops = [[ci, "new"]]
    sets = [[ci, rng.choice(["salt", "salt", "salt-int"])], [ci, rng.choice(["B", "B-ba"])]]
    rng.shuffle(sets)
    for s in sets:
        if rng.random() < 0.3:
            ops.append([ci, rng.choice(["A", "Ab"])])
        ops.append(s)
    return ops


def random_body(rng, ci, n):
    names = ["S", "Sb", "S", "Sb", "K", "Kb", "Kb", "M", "Mb", "Mb", "V", "Vb", "Vb", "Vx", "Vbx", "A", "Ab", "salt", "salt-int", "B", "B-ba"]
    out = []
    for _ in range(n):
        nm = rng.choice(names)
        out.append([ci, nm, rng.randrange(512)] if nm in ("Vx", "Vbx") else [ci, nm])
    return out


def interleave(rng, seqs):
    seqs = [list(s) for s in seqs if s]
    out = []
    while seqs:
        s = rng.choice(seqs)
        out.append(s.pop(0))
        if not s:
            seqs.remove(s)
    return out


def draw_exchange(rng, classes, a_cls="bits-128", b_cls="bits-256", wrong=False, inject=None):
    pin = draw_pin(rng)
    return {"pin_acc": pin, "pin_ctl": other_pin(rng, pin) if wrong else pin, "salt": hx(draw_salt(rng)), "b": str(classes[b_cls](rng)), "a": str(classes[a_cls](rng)),
            "a_class": a_cls, "b_class": b_cls, "inject": inject or rng.choice(["subclass", "urandom"])}


def report_history(ctx, case, problems):
    """one violation per signature, with the history shrunk to the calls that matter"""
    seen = set()
    for sig, what in problems:
        if sig in seen:
            continue
        seen.add(sig)
        small, text = case, what
        if len(case["ops"]) > 4 and len(seen) <= 2:
            def still(ops, sig=sig):
                return valid_history(ops, len(case["exchanges"])) and any(s == sig for s, _ in play_history(dict(case, ops=ops))[0])
            try:
                ops = shrink_list(case["ops"], still, budget=40)
                again = [w for s, w in play_history(dict(case, ops=ops))[0] if s == sig]
                if again:
                    small, text = dict(case, ops=ops, shrunk_from=len(case["ops"])), again[0]
            except Exception:  # noqa: BLE001 - report the unshrunk history
                pass
        ctx.violation(sig, f"history {json.dumps(small['ops'])}: {text}", small)


def accessor_histories(ctx):
    """the property speaks about the client's VALUES, not about one order of asking for them"""
    import itertools
    rng = ctx.rng
    classes = secret_classes()
    plan = []
    # every order of the four value families, each value asked for twice (once in each representation)
    perms = list(itertools.permutations(["S", "K", "M", "V"]))
    if not ctx.thorough():
        first = rng.sample(perms, ctx.budget(3, 24))
        perms = first + [tuple(reversed(p)) for p in first]  # a permutation and its reverse: every 'X before Y' in every run
    for p in perms:
        ex = draw_exchange(rng, classes)
        flip = [rng.randrange(2) for _ in p]
        body = [[0, FAMILIES[f][k]] for f, k in zip(p, flip)] + [[0, FAMILIES[f][1 - k]] for f, k in zip(p, flip)]
        plan.append(("order-" + "".join(p), {"stream": "history", "exchanges": [ex], "ops": setup_ops(rng, 0) + body}))
    # random compositions: one to three clients (different exchanges) interleaved, repeated reads, setters repeated with the same values
    wide = [c for c in classes if c not in ("bits-128",)]
    for i in range(ctx.budget(12, 400)):
        k = rng.choice([1, 1, 2, 2, 3]) if ctx.thorough() else rng.choice([1, 1, 2])
        exs, seqs = [], []
        for ci in range(k):
            a_cls = rng.choice(wide) if (i % 6 == 5 and ci == 0) else rng.choice(["bits-128", "bits-128", "bits-128", "bits-256", "tiny", "unreduced-A"])
            exs.append(draw_exchange(rng, classes, a_cls=a_cls, wrong=rng.random() < 0.15, inject="subclass" if a_cls != "bits-128" else None))
            seqs.append(setup_ops(rng, ci) + random_body(rng, ci, rng.randrange(3, 9)))
        plan.append(("random-%d" % k, {"stream": "history", "exchanges": exs, "ops": interleave(rng, seqs)}))
    for name, case in plan:
        try:
            problems, judged = play_history(case)
        except Exception as e:  # noqa: BLE001
            problems, judged = [("history/crash", f"the history could not be played: {type(e).__name__}: {e}")], 0
        ctx.evaluations += max(judged, 1)
        ctx.dist["history:" + (name if name.startswith("random") else "family-order")] += 1
        ctx.dist["history:calls-judged"] += judged
        for op in case["ops"]:
            ctx.dist["history:call:" + op[1]] += 1
        fams = [op[1][0] for op in case["ops"] if op[1] in NEEDS_BOTH]
        ctx.nontrivial.add(("history", name, tuple(fams[:6]), len(case["exchanges"]), tuple(e["pin_acc"] == e["pin_ctl"] for e in case["exchanges"])))
        if problems:
            report_history(ctx, case, problems)
    ctx.sample(plan[0][1])
    # OBSERVATION only (no oracle: the library makes a new SrpClient for every part-2 run, and the property speaks of one
    # exchange): what one client object answers when it is pointed at a SECOND exchange after values were read
    try:
        e1, e2 = draw_exchange(rng, classes, inject="subclass"), draw_exchange(rng, classes, inject="subclass")
        e2 = dict(e2, a=e1["a"], pin_acc=e1["pin_acc"], pin_ctl=e1["pin_acc"])
        e1 = dict(e1, pin_ctl=e1["pin_acc"])
        r1, r2 = reference(e1), reference(e2)
        c = new_client(e1["pin_ctl"], min_bytes(r1["a"]), "subclass")
        for r in (r1, r2):
            c.set_salt(bytearray(r["salt"]))
            c.set_server_public_key(r["Bb"])
            got = {"S": c.get_shared_secret() == r["S"], "K": bytes(c.get_session_key_bytes()) == r["Kb"], "M1": bytes(c.get_proof_bytes()) == r["Mb"]}
        ctx.dist["history:retarget-observed"] += 1
        if not all(got.values()):
            ctx.notes.append("observation (not judged): one SrpClient object given a second salt / server public value after its values were read answers for the second exchange with "
                             + ", ".join(f"{k} {'right' if v else 'STALE/wrong'}" for k, v in got.items()) + " (the session key is cached and the setters do not drop it); "
                             "not reachable through perform_pair_setup_part2, which makes a new client per run")
    except Exception as e:  # noqa: BLE001
        ctx.notes.append(f"observation (not judged): pointing one SrpClient at a second exchange raises {type(e).__name__}: {e}")


# ---------------------------------------------------------------------------------------------------------------------
# the pair-setup generators, then accessor calls on the client they leave behind
# ---------------------------------------------------------------------------------------------------------------------
def play_generators(case):
    """perform_pair_setup_part1 / part2 against the reference accessory for one or two exchanges run side by side (all
    M3, then all M4/M5, then all M6); the SrpClient each part-2 generator holds is asked for its values between M3 and
    M4 ('mid'), after M5 ('after') and after the generator has finished ('end') -> (problems, calls judged)"""
    from cryptography.hazmat.primitives.asymmetric import ed25519
    from cryptography.hazmat.primitives.ciphers.aead import ChaCha20Poly1305

    import aiohomekit.protocol as P

    from harness.c01 import L
    problems, judged = [], 0
    runs = []
    for i, ex in enumerate(case["exchanges"]):
        ref = reference(ex)
        srv, salt, Bb = ref["srv"], ref["salt"], ref["Bb"]
        tag = f"exchange {i} (setup code {ex['pin_ctl']}, salt {ex['salt']}, secret a of {ref['a'].bit_length()} bits, b of {int(ex['b']).bit_length()} bits)"
        g1 = P.perform_pair_setup_part1(False)
        g1.send(None)
        try:
            g1.send(L([(6, b"\x02"), (3, Bb), (2, salt)]))
            problems.append(("gen-history/part1", f"{tag}: part 1 did not finish on a well-formed M2"))
            continue
        except StopIteration as st:
            got_salt, got_B = bytes(st.value[0]), bytes(st.value[1])
        except Exception as e:  # noqa: BLE001
            problems.append(("gen-history/part1", f"{tag}: part 1 refuses the accessory's M2: {type(e).__name__}: {e}"))
            continue
        if got_salt != salt or got_B != Bb:
            problems.append(("gen-history/part1", f"{tag}: part 1 hands on a salt or public value other than the accessory's"))
            continue
        try:
            if ex.get("inject") == "subclass" and hasattr(P, "SrpClient"):
                with mock.patch.object(P, "SrpClient", client_class(ref["a"])):
                    g2 = P.perform_pair_setup_part2(ex["pin_ctl"], "ctl-uuid", bytearray(got_salt), bytearray(got_B))
                    m3 = dict((k, bytes(v)) for k, v in g2.send(None)[0])
            else:
                with mock.patch.object(srpmod.os, "urandom", lambda n, v=min_bytes(ref["a"]): v):
                    g2 = P.perform_pair_setup_part2(ex["pin_ctl"], "ctl-uuid", bytearray(got_salt), bytearray(got_B))
                    m3 = dict((k, bytes(v)) for k, v in g2.send(None)[0])
        except Exception as e:  # noqa: BLE001
            problems.append(("gen-history/M3", f"{tag}: part 2 cannot produce M3: {type(e).__name__}: {e}"))
            continue
        judged += 1
        if m3.get(3) != ref["Ab"]:
            problems.append(("gen-history/A", f"{tag}: the public value in M3 ({short(m3.get(3))}) is not PAD(g^a mod N)"))
        if ref["right"] and m3.get(4) != ref["Mb"]:
            problems.append(("gen-history/M1", f"{tag}: the accessory rejects the proof in M3 ({short(m3.get(4))}, it computes {short(ref['Mb'])})"))
        if not ref["right"] and m3.get(4) == ref["Mb"]:
            problems.append(("gen-history/wrong-code-accepted", f"{tag}: a wrong setup code gave a proof the accessory accepts"))
        frame = g2.gi_frame
        held = [v for v in (frame.f_locals.values() if frame is not None else []) if isinstance(v, SrpClient)]
        runs.append({"i": i, "ex": ex, "ref": ref, "tag": tag, "g2": g2, "client": held[0] if held else None, "alive": True, "calls": []})

    where = {"mid": "between M3 and M4", "after": "after M5", "end": "after the generator has finished"}

    def ask(run, phase):
        nonlocal judged
        c = run["client"]
        if c is None:
            return
        for op in case.get(phase, {}).get(str(run["i"]), []):
            r = apply_op(c, op, run["ref"])
            judged += 1
            if r is not None:
                before = ", ".join(run["calls"]) or "none but the generator's own"
                problems.append(("gen-history/" + r[0], f"{run['tag']}, on the client the part-2 generator holds, {where[phase]}: {r[1]}; harness calls on it before: {before}"))
            run["calls"].append(op[0])

    for run in runs:
        ask(run, "mid")
    for run in runs:
        ref, srv, tag = run["ref"], run["ref"]["srv"], run["tag"]
        if not ref["right"]:
            try:
                run["g2"].send(L([(6, b"\x04"), (7, b"\x02")]))
            except Exception:  # noqa: BLE001 - the accessory said 'authentication failed'
                pass
            run["alive"] = False
            continue
        try:
            m5 = dict((k, bytes(v)) for k, v in run["g2"].send(L([(6, b"\x04"), (4, srv.M2)]))[0])
        except Exception as e:  # noqa: BLE001
            problems.append(("gen-history/M4", f"{tag}: the accessory's correct proof is refused: {type(e).__name__}"))
            run["alive"] = False
            continue
        judged += 1
        ekey = refacc.hk(srv.K, b"Pair-Setup-Encrypt-Salt", b"Pair-Setup-Encrypt-Info")
        try:
            sub = refacc.untlv(ChaCha20Poly1305(ekey).decrypt(b"\0\0\0\0PS-Msg05", m5[5], b""))
            cx = refacc.hk(srv.K, b"Pair-Setup-Controller-Sign-Salt", b"Pair-Setup-Controller-Sign-Info")
            ed25519.Ed25519PublicKey.from_public_bytes(sub[3]).verify(sub[10], cx + sub[1] + sub[3])
        except Exception:  # noqa: BLE001
            problems.append(("gen-history/K", f"{tag}: the accessory cannot open / verify M5: the controller's session key is not the accessory's 64-byte K"))
            run["alive"] = False
    for run in runs:
        ask(run, "after")
    for run in runs:
        if not run["alive"]:
            continue
        srv = run["ref"]["srv"]
        ltsk = ed25519.Ed25519PrivateKey.from_private_bytes(refacc.H(b"acc-ltsk", run["ref"]["salt"])[:32])
        ltpk = ltsk.public_key().public_bytes(**refacc.RAW)
        acc_id = b"12:34:56:00:01:0A"
        ekey = refacc.hk(srv.K, b"Pair-Setup-Encrypt-Salt", b"Pair-Setup-Encrypt-Info")
        ax = refacc.hk(srv.K, b"Pair-Setup-Accessory-Sign-Salt", b"Pair-Setup-Accessory-Sign-Info")
        enc = ChaCha20Poly1305(ekey).encrypt(b"\0\0\0\0PS-Msg06", refacc.tlv([(1, acc_id), (3, ltpk), (10, ltsk.sign(ax + acc_id + ltpk))]), b"")
        try:
            run["g2"].send(L([(6, b"\x06"), (5, enc)]))
            problems.append(("gen-history/M6", f"{run['tag']}: part 2 did not finish on the accessory's M6"))
        except StopIteration:
            judged += 1
        except Exception as e:  # noqa: BLE001
            problems.append(("gen-history/M6", f"{run['tag']}: the accessory's M6 (sealed and signed under keys derived from K) is refused: {type(e).__name__}: {e}"))
    for run in runs:
        ask(run, "end")
    return problems, judged, sum(1 for r in runs if r["client"] is not None)


def generator_histories(ctx):
    rng = ctx.rng
    classes = secret_classes()
    reads = ["S", "Sb", "K", "Kb", "M", "Mb", "A", "Ab", "V", "Vb", "Vx", "Vbx"]

    def some(n):
        out = []
        for _ in range(n):
            nm = rng.choice(reads)
            out.append([nm, rng.randrange(512)] if nm in ("Vx", "Vbx") else [nm])
        return out
    plan = []
    for i in range(ctx.budget(4, 120)):
        k = 2 if i % 3 == 2 else 1
        exs = []
        for j in range(k):
            a_cls = [rng.choice(TOP_OF_RANGE), rng.choice(AT_OR_ABOVE_N), "bits-128", rng.choice(list(classes))][i % 4] if j == 0 else "bits-128"
            exs.append(draw_exchange(rng, classes, a_cls=a_cls, b_cls=rng.choice(["bits-256", "bits-256", "bits-128", "tiny"]), wrong=(i % 7 == 6), inject="subclass" if a_cls != "bits-128" else None))
        phases = {ph: {str(j): some(rng.randrange(0, 4)) for j in range(k)} for ph in ("mid", "after", "end")}
        if not any(phases[ph][str(j)] for ph in phases for j in range(k)):
            phases["end"]["0"] = some(2)
        plan.append(dict({"stream": "gen-history", "exchanges": exs}, **phases))
    for case in plan:
        try:
            problems, judged, reach = play_generators(case)
        except Exception as e:  # noqa: BLE001
            problems, judged, reach = [("gen-history/crash", f"could not be played: {type(e).__name__}: {e}")], 0, 0
        ctx.evaluations += max(judged, 1)
        ctx.dist["gen-history:runs"] += 1
        ctx.dist["gen-history:calls-judged"] += judged
        ctx.dist["gen-history:client-reachable"] += reach
        for e in case["exchanges"]:
            ctx.dist["gen-history:a:" + e["a_class"]] += 1
        ctx.nontrivial.add(("gen-history", tuple(e["a_class"] for e in case["exchanges"]), tuple(tuple(o[0] for o in case[ph][str(j)]) for ph in ("mid", "after", "end") for j in range(len(case["exchanges"])))))
        seen = set()
        for sig, what in problems:
            if sig not in seen:
                seen.add(sig)
                ctx.violation(sig, what, case)



def run(ctx: Ctx, driver: Driver):
    rng = ctx.rng
    rb = lambda n: bytes(rng.randrange(256) for _ in range(n))  # noqa: E731
    cryptoval.validate(ctx, driver, 4)
    cases, outs, lines = [], [], []
    vcases, vouts, vlines = [], [], []
    pins = ["031-45-154", "111-22-333", "000-00-000", "987-65-432"]

    def one(pin_acc, pin_ctl, salt, b, a_bytes, kind, inject="urandom"):
        case = {"stream": "client", "kind": kind, "pin_acc": pin_acc, "pin_ctl": pin_ctl, "salt": hx(salt), "b": str(b), "a": hx(a_bytes)}
        if inject != "urandom":
            case["inject"] = inject
        try:
            srv, c, A_b, M1, K, Bb, lead = exchange(ctx, pin_acc, pin_ctl, salt, b, a_bytes, inject=inject)
        except Exception as e:  # noqa: BLE001 - a valid exchange the client cannot run at all
            ctx.evaluations += 1
            ctx.violation("client/exception", f"the client cannot run this exchange: {type(e).__name__}: {e}", case)
            return None
        ctx.evaluations += 1
        a = int.from_bytes(a_bytes, "big")
        ctx.nontrivial.add((kind, tuple(sorted(k for k, v in lead.items() if v)), pin_acc == pin_ctl))
        for k, v in lead.items():
            if v:
                ctx.dist["leading-zero:" + k] += 1
        try:
            client_oracles(ctx, case, srv, c, A_b, M1, K, lead)
        except Exception as e:  # noqa: BLE001
            ctx.violation("client/exception", f"checking the accessory's proof raises {type(e).__name__}: {e}", case)
        cases.append(case)
        outs.append(f"{hx(A_b)} {hx(K)} {hx(M1)}")
        lines.append(f"srp.client {hx(b'Pair-Setup')} {hx(pin_ctl.encode())} {hx(salt)} {hx(Bb)} {a}")
        ctx.dist["exchange:" + kind] += 1
        return srv, c, Bb, a

    def verify_case(srv, c, pin_ctl, salt, Bb, a, M, want, kind):
        ctx.evaluations += 1
        case = {"stream": "verify", "kind": kind, "M": hx(M)}
        try:
            got = c.verify_servers_proof_bytes(M)
        except Exception as e:  # noqa: BLE001
            return ctx.violation("verify/exception", f"verify_servers_proof_bytes({kind}) raises {type(e).__name__}: {e}", case)
        if want is not None and got != want:
            ctx.violation("verify/" + kind, f"verify_servers_proof_bytes({kind}) = {got}, expected {want}", case)
        ctx.nontrivial.add(("verify", kind, got))
        vcases.append(case)
        vouts.append(str(got).lower())
        vlines.append(f"srp.verify {hx(b'Pair-Setup')} {hx(pin_ctl.encode())} {hx(salt)} {hx(Bb)} {a} {hx(M)}")

    # ---- corpus first: exchanges found once by tools/mk_c02_corpus.py whose A, B, S, K, M1 or M2 start with one or two
    # zero bytes (a 1-in-256 / 1-in-65536 event each); every claimed leading zero is re-derived from the reference
    # server before the case is used, so the corpus is an index into the input space, not a trusted table
    for c in load_corpus(ID):
        salt, b, ab = bytes.fromhex(c["salt"]), int(c["b"]), bytes.fromhex(c["a"])
        srv0 = refacc.SrpServer(c["pin"], salt, b)
        A0 = refacc.PAD(pow(refacc.G, int.from_bytes(ab, "big"), refacc.N3072))
        srv0.on_A(A0)
        lead0 = {"A": A0, "B": refacc.PAD(srv0.B), "S": refacc.PAD(srv0.S), "K": srv0.K, "M1": srv0.M1, "M2": srv0.M2}
        for kd in c["kinds"]:
            nz = 2 if kd.endswith("2") and kd not in ("M2",) else 1
            name = kd[:-1] if nz == 2 else kd
            if lead0[name][:nz] != bytes(nz):
                raise RuntimeError(f"corpus/C02 entry does not have the leading zero it claims ({kd}): {c}")
        tag = "corpus-" + "+".join(c["kinds"])
        r = one(c["pin"], c["pin"], salt, b, ab, tag)
        if r is not None:
            s2, c2, Bb2, a2 = r
            verify_case(s2, c2, c["pin"], salt, Bb2, a2, s2.M2, True, "correct-leading-zero")
            if s2.M2[0] == 0:
                verify_case(s2, c2, c["pin"], salt, Bb2, a2, s2.M2.lstrip(b"\0"), True, "leading-zero-stripped")
            m = bytearray(s2.M2)
            m[-1] ^= 1
            verify_case(s2, c2, c["pin"], salt, Bb2, a2, bytes(m), False, "bitflip")
        through_generators(ctx, c["pin"], salt, b, ab, tag)
        ctx.dist["corpus"] += 1
    n = ctx.budget(60, 1200)
    for i in range(n):
        pin = rng.choice(pins)
        salt = rng.choice([rb(16), bytes(16), b"\0" + rb(15), b"\0\0\0" + rb(13)])
        r = one(pin, pin, salt, int.from_bytes(rb(32), "big"), rb(16), "honest")
        if r is None:
            continue
        srv, c, Bb, a = r
        if i % 6 == 0:
            verify_case(srv, c, pin, salt, Bb, a, srv.M2, True, "correct")
            verify_case(srv, c, pin, salt, Bb, a, b"\0" + srv.M2, True, "zero-prepended")
            for bit in rng.sample(range(512), ctx.budget(6, 64)):
                m = bytearray(srv.M2)
                m[bit // 8] ^= 1 << (bit % 8)
                verify_case(srv, c, pin, salt, Bb, a, bytes(m), False, "bitflip")
            verify_case(srv, c, pin, salt, Bb, a, srv.M2[:-1], False, "truncated")
            verify_case(srv, c, pin, salt, Bb, a, srv.M1, False, "client-proof-echoed")
    for i in range(ctx.budget(15, 400)):
        p1, p2 = rng.sample(pins, 2)
        one(p1, p2, rb(16), int.from_bytes(rb(32), "big"), rb(16), "wrong-code")
    # ---- the whole range of ephemeral secrets (the quantifier says ALL client and server secrets, not the size the
    # library happens to draw), setup codes and salts of every shape; the client's secret injected the way the tests do
    import time
    classes = secret_classes()
    t_wide = time.time()

    def wide(a_cls, b_cls, wrong=False, gen=False):
        pin = draw_pin(rng)
        pin_ctl = other_pin(rng, pin) if wrong else pin
        salt, a, b = draw_salt(rng), classes[a_cls](rng), classes[b_cls](rng)
        kind = f"wide-a:{a_cls}-b:{b_cls}"
        ctx.dist["wide:a:" + a_cls] += 1
        ctx.dist["wide:b:" + b_cls] += 1
        ctx.dist["wide:" + ("wrong-code" if wrong else "right-code")] += 1
        r = one(pin, pin_ctl, salt, b, min_bytes(a), kind, inject="subclass")
        if r is not None and not wrong:
            verify_case(r[0], r[1], pin_ctl, salt, r[2], r[3], r[0].M2, True, "correct")
            m = bytearray(r[0].M2)
            bit = rng.randrange(512)
            m[bit // 8] ^= 1 << (bit % 8)
            verify_case(r[0], r[1], pin_ctl, salt, r[2], r[3], bytes(m), False, "bitflip")
        if gen and not wrong:
            through_generators(ctx, pin, salt, b, min_bytes(a), kind, inject="subclass")
    names = list(classes)
    gen_at = rng.randrange(2)
    for i, (a_cls, b_cls) in enumerate([("N-2", "bits-256"), (rng.choice(AT_OR_ABOVE_N), "bits-256"), ("N-1", "bits-128"), ("one", "bits-256"), ("unreduced-A", "bits-256"),
                                        ("N-minus-1024-bits", "bits-256"), (rng.choice(TOP_OF_RANGE), "tiny")]):
        wide(a_cls, b_cls, gen=(i == gen_at))
    for _ in range(ctx.budget(4, 160)):
        wide(rng.choice(names), rng.choice(["bits-256", "bits-256", "bits-128", "tiny"]), gen=ctx.thorough() and rng.random() < 0.2)
    for _ in range(ctx.budget(4, 120)):
        wide(rng.choice(["bits-128", "bits-128", "bits-256", "tiny"]), rng.choice(names))
    for _ in range(ctx.budget(2, 80)):
        wide(rng.choice(names), rng.choice(names))
    for _ in range(ctx.budget(2, 60)):
        wide(rng.choice(names), rng.choice(["bits-256", "bits-128"]), wrong=True)
    # ---- histories of accessor calls on one client object, and on the client the pair-setup generators leave behind
    t_hist = time.time()
    accessor_histories(ctx)
    generator_histories(ctx)
    ctx.notes.append(f"wall time of the added streams: wide secrets {t_hist - t_wide:.1f}s, accessor / generator histories {time.time() - t_hist:.1f}s")
    # ---- directed search for the 1-in-256 leading-zero cases
    g, N = refacc.G, refacc.N3072
    found = {"A": None, "B": None}
    tries = 0
    while found["A"] is None and tries < 4000:
        ab = rb(16)
        tries += 1
        if refacc.PAD(pow(g, int.from_bytes(ab, "big"), N))[0] == 0:
            found["A"] = ab
    salt0 = bytes(16)
    tries = 0
    while found["B"] is None and tries < 4000:
        b = int.from_bytes(rb(32), "big")
        tries += 1
        if refacc.PAD(refacc.SrpServer("031-45-154", salt0, b).B)[0] == 0:
            found["B"] = b
    if found["A"]:
        one("031-45-154", "031-45-154", rb(16), int.from_bytes(rb(32), "big"), found["A"], "directed-A0")
    if found["B"]:
        one("031-45-154", "031-45-154", salt0, found["B"], rb(16), "directed-B0")
    # the library's own use of the client, over the salts that matter
    for salt in (bytes(16), b"\x00" + rb(15), b"\x00\x00" + rb(14), rb(16), rb(15) + b"\x00"):
        through_generators(ctx, rng.choice(pins), salt, int.from_bytes(rb(32), "big"), rb(16), "salts")
    # S, M1, M2, K leading zero: draw exchanges until hit (each costs a few modexps)
    need = {"S", "M1", "M2", "K"}
    tries = 0
    while need and tries < ctx.budget(150, 4000):   # quick: the committed corpus (run first) holds every leading-zero class deterministically
        tries += 1
        salt = rb(16)
        b = int.from_bytes(rb(32), "big")
        ab = rb(16)
        srv = refacc.SrpServer("031-45-154", salt, b)
        A_b = refacc.PAD(pow(g, int.from_bytes(ab, "big"), N))
        srv.on_A(A_b)
        hit = {k for k, v in {"S": refacc.PAD(srv.S)[0] == 0, "M1": srv.M1[0] == 0, "M2": srv.M2[0] == 0, "K": srv.K[0] == 0}.items() if v} & need
        if hit:
            through_generators(ctx, "031-45-154", salt, b, ab, "directed-" + "".join(sorted(hit)) + "0")
        if hit - {"K"}:
            r = one("031-45-154", "031-45-154", salt, b, ab, "directed-" + "".join(sorted(hit)) + "0")
            if r is not None:
                s2, c2, Bb2, a2 = r
                verify_case(s2, c2, "031-45-154", salt, Bb2, a2, s2.M2, True, "correct-leading-zero")
                if "M2" in hit:
                    verify_case(s2, c2, "031-45-154", salt, Bb2, a2, s2.M2[1:], True, "leading-zero-stripped")
        need -= hit
    if need:
        ctx.notes.append(f"directed search did not hit a leading zero in {sorted(need)} within {tries} exchanges this run")
    # ---- the exchange as the transports run it, over histories with more than one M1/M2
    transports(ctx)
    ctx.sample({k: v for k, v in cases[0].items()})
    compare_with_model(ctx, "client", cases, outs, lines, driver, canon=lambda s: " ".join(s.split(" ")[:3]))
    compare_with_model(ctx, "verify", vcases, vouts, vlines, driver)


def replay(ctx, driver, c):
    if c.get("stream") == "transport":
        problems, info = run_history(c)
        return {"violations": [{"signature": s, "what": w} for s, w in problems], "outcomes": info["outcomes"]} if problems else None
    if c.get("stream") == "generators":
        sub = Ctx(ID, "quick", 0)
        through_generators(sub, c["pin"], unhx(c["salt"]), int(c["b"]), unhx(c["a"]), c.get("kind", "replay"), inject=c.get("inject", "urandom"))
        return sub.violations or None
    if c.get("stream") == "history":
        problems, _ = play_history(c)
        return [{"signature": s, "what": w} for s, w in problems] or None
    if c.get("stream") == "gen-history":
        problems = play_generators(c)[0]
        return [{"signature": s, "what": w} for s, w in problems] or None
    if c.get("stream") == "client":
        sub = Ctx(ID, "quick", 0)
        try:
            srv, cl, A_b, M1, K, Bb, lead = exchange(sub, c["pin_acc"], c["pin_ctl"], unhx(c["salt"]), int(c["b"]), unhx(c["a"]), inject=c.get("inject", "urandom"))
            client_oracles(sub, c, srv, cl, A_b, M1, K, lead)
        except Exception as e:  # noqa: BLE001
            sub.violation("client/exception", f"{type(e).__name__}: {e}", c)
        return sub.violations or None
    return None
