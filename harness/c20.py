"""C20 - saved pairings and accessory cache survive restart and interrupted saves."""
from __future__ import annotations

import asyncio
import builtins
import contextlib
import copy
import importlib.util
import io
import json
import logging
import os
import pathlib
import random
import shutil
import struct
import sys
import tempfile
import unicodedata
from unittest import mock
from unittest.mock import AsyncMock, MagicMock

try:
    import bleak  # noqa: F401  (BLE support is decided at import time of aiohomekit)
except Exception:  # noqa: BLE001
    pass

from harness.common import REPO, Ctx, Driver, compare_with_model, hx

import aiohomekit.controller.controller as ctlmod
from aiohomekit.characteristic_cache import CharacteristicCacheFile, CharacteristicCacheMemory
from aiohomekit.controller import Controller
from aiohomekit.controller.abstract import TransportType
from aiohomekit.model import Accessories

from harness.c20_entity import replay_entity, run_entity  # noqa: E402
from harness.simnet import VLoop  # noqa: E402

ID = "C20"
RULE = ("pairing sets over all loaded transports (IP with/without Connection key, CoAP, BLE), unicode aliases, optional fields; for EVERY crash point of save_data (each recorded primitive "
        "effect, and every prefix of the written bytes in steps of 1 byte near structural characters / 17 bytes elsewhere) the pairing file is reloaded by a fresh Controller; accessory "
        "database round trip for every fixture under tests/fixtures and random well-formed maps; EVERY prefix of cache files and corruptions. "
        "whole process lives through the real top-level Controller with every backend registered by async_start (zeroconf browser, BLE scanner and the pairing's connection are stand-ins): "
        "pairing files (hand-written and random sets over IP / legacy IP without Connection or AccessoryIPs / CoAP / BLE, unicode aliases, written by an independent JSON writer or by save_data) go through "
        "load_data or per-record load_pairing -> [save_data] -> restart, 2-3 lives, and every life must hold - and every rewrite must leave on file - exactly the saved aliases with every field; "
        "accessory-database histories: cache file initially absent / zero-byte / truncated / unparsable / invalid UTF-8 / warm (another pairing's entry, or an older entry of this pairing), a "
        "CharacteristicCacheFile handed to the top-level Controller (and, as a control, straight to the transport backend), the database populated through the pairing's own write-through paths "
        "(list_accessories_and_characteristics, async_populate_accessories_state, an mDNS announcement of a higher c#, restore_accessories_state, a BLE advertisement with a new state number), then a "
        "restart with a new cache object and a new Controller: c#, database, s# and broadcast key are read back, a foreign entry in the file survives; any exception on valid data is a violation. "
        "histories of the numbers (stream cache-numbers; 1-3 lives of 1-6 ops on every transport, directed ones for each class plus random ones): state and configuration numbers that go up, stay, go DOWN "
        "(late relay of an older advertisement, a counter that restarted), roll over (s# 65534, 65535, 1; BLE's one-byte c# 254, 255, 1; mDNS c# 65535 -> 1), jump and sit on boundaries; broadcast key "
        "set / cleared / replaced; through restore_accessories_state, BLE advertisements of any s#/c# (BleController._device_detected) with the accessory out of range (connection attempts fail) or in range, "
        "mDNS announcements of any c#/s#, list/populate, and - accessory in range - the BLE pairing's own session paths against the harness's HAP-BLE accessory behind a GATT link stand-in "
        "(async_populate_accessories_state with/without force = value reads, subscribe = broadcast-key generation, GATT notifications = the library's own state-number bookkeeping incl. its roll-over and key "
        "regeneration, link drops -> reconnect -> re-subscription, catch-up poll after an advertisement = GetAllParams); the process ends by shutdown() or is killed (its tasks die); oracle: after the restart the "
        "pairing holds exactly what the live pairing held when the process ended (c#, s#, key, database with values) and - where the live pairing had taken them over - the accessory's own counter / the advertised "
        "number / the key the accessory generated. "
        "lives in which little or nothing is heard of the accessory (stream cache-quiet, BLE; directed + random, 2-4 lives, pairing loaded by load_pairing or by load_data from a pairing file, radio in / out of range): "
        "the pairing is loaded while NO advertisement is known (command line tool, sleepy accessory) or after one arrived (same s# / counter moved on while the controller was down), whole lives with no radio traffic, polls "
        "(async_populate_accessories_state with / without force, list_accessories_and_characteristics) with nothing advertised before them (the accessory cannot be found: a legitimate answer) or with the advertisement arriving "
        "while the poll waits for one, the accessory's encrypted broadcast as the FIRST thing heard after the restart; in every whole-life stream the view compared across the restart now includes what the restarted pairing "
        "TELLS about the accessory while nothing has been heard of it - pairing.description (BLE: the advertisement rebuilt from the cache entry) must carry exactly the saved c# and s# - and, in cache-quiet, what it DOES with "
        "them: a broadcast with the successor of the saved s# sealed with the saved key reaches the pairing's listeners. "
        "caller-chosen strings that become keys or file-name components (streams key-strings / cache-keys): aliases - and pairing-file names, folders that do not exist yet, cache-file names, cache keys - drawn from "
        "ASCII, empty / blank, very long (to 68 kB), whitespace, control characters, path-like, JSON-special and escaped spellings, non-BMP, and the unicode classes in which equivalent texts differ as strings "
        "(precomposed vs combining sequences, singleton decompositions such as U+2126 / U+212B / CJK compatibility ideographs, composition exclusions, Hangul syllables vs jamo, reordered marks, compatibility forms, "
        "case pairs that are not 1:1 - sharp s, dotted / dotless i, final sigma -, look-alikes, zero-width and variation selectors), one at a time AND as families of two to seven spellings that some normalisation "
        "(NFC / NFD / NFKC / NFKD, case folding, trimming, escaping, look-alike substitution, truncation) identifies, the spellings of a family on different transports, pairing ids in upper / lower / mixed casing; "
        "file written by load_pairing + save_data or by an independent writer (raw or \\u-escaped), 2-4 lives of the real top-level Controller: load_data / load_pairing per record -> [another spelling added through "
        "load_pairing] -> [restore_accessories_state into a CharacteristicCacheFile] -> [save_data] -> restart; oracle = the harness's own record: every life holds, and every rewrite leaves on file, exactly the alias strings "
        "saved so far, each with exactly its own record (and accessory database, numbers, key), none lost, merged or renamed; a sibling file whose name is an equivalent spelling stays byte-identical; "
        "CharacteristicCacheFile histories under such keys (update / delete, restart after every step): every key gives back exactly its own entry. "
        "model streams: random characteristic dictionaries (every optional key absent / null / falsy / set, types in and outside the metadata table in every spelling), whole accessories (service iids 0 / duplicated, links absent / empty / dangling / 0), "
        "every repository fixture, histories of CharacteristicCacheFile operations with restarts and lost/corrupted files - implementation vs Lean model attribute by attribute; for dictionaries inside the theorem's hypotheses the restart oracle is checked on the implementation. "
        "non-trivial = distinct (pairing-set shape, crash point) / (fixture, check) / prefix length / (transport kinds, writer, lives) / (initial cache state, transport, construction, op kinds) / "
        "(initial cache state, transport, construction, radio, way the process ends, per life the op kinds with the direction each number moved) / "
        "(string classes and the normalisations relating the family, writer, lives, own file name / folder / cache file) / "
        "(cache-quiet: initial cache state, construction, radio, way the process ends, loader, what was heard before each load, per life the op kinds)")
TRUSTED = ["POSIX rename atomicity of os.replace for a process crash", "orjson/commentjson parse what they wrote; a strict prefix of an object's encoding does not parse (checked exhaustively on this run's files)"]
ASSUMPTIONS = ["file effects are observed by replacing open/os.replace/os.fsync in the namespace of aiohomekit.controller.controller with a recording virtual file system; "
               "crash states are materialised in a temporary directory outside /repo and /verif",
               "transports are instantiated without starting their scanners/browsers (crash-point streams); in the whole-life streams the Controller is entered with `async with` and starts its backends "
               "against a stub zeroconf browser and a stub BLE scanner; mDNS announcements and BLE advertisements are injected at the backend's callback (_async_handle_loaded_service_info / _device_detected); "
               "an IP/CoAP pairing's connection object is replaced by a stub that is 'connected' and answers the accessory-database request",
               "BLE radio (stream cache-numbers): bleak's establish_connection is replaced - 'out of range' fails every attempt with BleakError, 'in range' hands out a GATT link to the harness's own accessory "
               "(HAP-BLE PDUs under the session's ChaCha20-Poly1305 keys: protocol configuration = generate broadcast key / get all parameters, characteristic read, characteristic configuration, notifications); "
               "the pair-verify exchange is replaced by its result (session keys + the HKDF of the shared secret, computed by the harness's own HKDF-SHA512); the link has no GATT attribute table, so the "
               "in-range accessory always advertises the configuration number the pairing holds (configuration-number changes are explored with the accessory out of range and over mDNS); "
               "each trial of that stream runs on its own virtual-time event loop, killed tasks = process death",
               "stream cache-quiet: same radio stand-in; the broadcast key handed to restore_accessories_state is taken to be the key the accessory generated in an earlier session (the accessory seals its broadcasts "
               "with it); an encrypted broadcast is injected at BleController._device_detected like an advertisement; which exception reports an accessory that cannot be found / reached "
               "(AccessoryNotFoundError, AccessoryDisconnectedError, the radio's BleakError) is not judged here; the first-heard-broadcast oracle is applied only when the harness's accessory counter equals the saved "
               "state number, its successor is below 65535 (the library's roll-over handling of broadcasts is not this property's) and nothing else happened in that life",
               "accessory-database round trip: modelled (Model/EntityMap.lean: Characteristic construction from a dictionary incl. the metadata-table defaults, the constructor's default value, set_value, "
               "to_accessory_and_service_list, services and links, the write-through cache) and proved (C20_char_roundtrip/_restart/_reachable_roundtrip, C20_accessory_roundtrip, C20_cache_*); tied by the "
               "streams em-char / em-acc / em-cache of harness/c20_entity.py.  Outside the model: the JSON text layer (hkjson) and CPython dicts; cache-prefix behaviour is checked on the implementation"]
EXPLANATION = "Lean theorems on the accessory-database model (serialise + load is the identity on every object in normal form; everything loaded from a clean dictionary and every value update stays in normal form; services, ids and links come back; the cache is write-through; an unparsable file is a cold cache) and theorem C20_save_crash_safe over a crash-point file-system model of the (repaired) atomic save; tie: the op sequence recorded from the real save_data is replayed on the model for every crash point; reload oracle with a fresh Controller"


class VFS:
    """records the primitive file effects of one save"""

    def __init__(self, files):
        self.files = dict(files)  # path -> bytes
        self.ops = []

    def open(self, path, mode="r", encoding=None, **kw):
        path = str(path)
        vfs = self
        if "w" in mode:
            vfs.files[path] = b""
            vfs.ops.append(("open", path))

            class W(io.StringIO):
                def write(s, data):  # noqa: N805
                    b = data.encode(encoding or "utf-8")
                    vfs.files[path] += b
                    vfs.ops.append(("write", path, b))
                    return len(data)

                def fileno(s):  # noqa: N805
                    return 99

                def flush(s):  # noqa: N805
                    vfs.ops.append(("flush", path))

                def close(s):  # noqa: N805
                    vfs.ops.append(("close", path))
            return W()
        if path not in vfs.files:
            raise FileNotFoundError(path)
        return io.StringIO(vfs.files[path].decode(encoding or "utf-8"))

    def replace(self, a, b):
        if str(a) not in self.files:
            raise FileNotFoundError(str(a))
        self.ops.append(("replace", str(a), str(b)))
        self.files[str(b)] = self.files.pop(str(a))

    def fsync(self, fd):
        self.ops.append(("fsync",))


def crash_states(files0, ops, target):
    """all file-system states a crash can leave: after each op, and after every prefix of every write (sampled)"""
    out = []
    files = dict(files0)
    out.append(("before", 0, None, dict(files)))
    for i, op in enumerate(ops):
        if op[0] == "open":
            files[op[1]] = b""
        elif op[0] == "write":
            data = op[2]
            base = files.get(op[1], b"")
            ks = set(range(0, len(data), 17)) | {k for k in range(len(data)) if data[k:k + 1] in b'{}[]",:\n' or data[max(k - 1, 0):k] in (b"}", b"{")} | {len(data) - 1, 1}
            for k in sorted(x for x in ks if 0 <= x < len(data)):
                f2 = dict(files)
                f2[op[1]] = base + data[:k]
                out.append(("partial", i, k, f2))
            files[op[1]] = base + data
        elif op[0] == "replace":
            files[op[2]] = files.pop(op[1])
        out.append(("after", i + 1, None, dict(files)))
    return out


def mk_controller(loop):
    from aiohomekit.controller.ble.controller import BleController
    from aiohomekit.controller.coap.controller import CoAPController
    from aiohomekit.controller.ip.controller import IpController
    c = Controller(async_zeroconf_instance=MagicMock(), char_cache=CharacteristicCacheMemory())
    with mock.patch("aiohomekit.zeroconf.AsyncServiceBrowser", MagicMock()):
        c.transports[TransportType.IP] = IpController(char_cache=c._char_cache, zeroconf_instance=MagicMock())
        c.transports[TransportType.COAP] = CoAPController(char_cache=c._char_cache, zeroconf_instance=MagicMock())
    c.transports[TransportType.BLE] = BleController(char_cache=c._char_cache)
    return c


def pairing_sets(rng):
    def ip(i, conn=True):
        d = {"AccessoryPairingID": f"AA:BB:CC:00:00:{i:02X}", "AccessoryLTPK": "ab" * 32, "iOSPairingId": f"ctl-{i}", "iOSDeviceLTSK": "cd" * 32, "iOSDeviceLTPK": "ef" * 32,
             "AccessoryIP": f"10.0.0.{i}", "AccessoryIPs": [f"10.0.0.{i}", "fe80::1"], "AccessoryPort": 80 + i}
        if conn:
            d["Connection"] = "IP"
        return d

    def coap(i):
        return {"AccessoryPairingID": f"CC:00:00:00:00:{i:02X}", "AccessoryLTPK": "11" * 32, "iOSPairingId": f"ctl-{i}", "iOSDeviceLTSK": "22" * 32, "iOSDeviceLTPK": "33" * 32,
                "AccessoryIP": "fd00::5", "AccessoryPort": 5683, "Connection": "CoAP"}

    def ble(i):
        return {"AccessoryPairingID": f"DD:00:00:00:00:{i:02X}", "AccessoryLTPK": "44" * 32, "iOSPairingId": f"ctl-{i}", "iOSDeviceLTSK": "55" * 32, "iOSDeviceLTPK": "66" * 32,
                "AccessoryAddress": f"DD:00:00:00:00:{i:02X}", "Connection": "BLE"}
    yield "empty", {}
    yield "one-ip", {"alias": ip(1)}
    yield "ip-noconn", {"a": ip(2, conn=False)}
    yield "unicode", {"Küche ☕ 灯": ip(3), "b\"q\\uote": coap(4)}
    yield "all", {"ip": ip(5), "coap": coap(6), "ble": ble(7), "x y": ip(8)}
    yield "many", {f"alias{i}": rng.choice([ip, coap, ble])(10 + i) for i in range(12)}


def run(ctx: Ctx, driver: Driver):
    rng = ctx.rng
    loop = asyncio.new_event_loop()
    asyncio.set_event_loop(loop)
    tmpdir = tempfile.mkdtemp(prefix="c20_", dir="/tmp")
    try:
        save_crash(ctx, driver, rng, loop, tmpdir)
        real_fs_histories(ctx, rng, loop, tmpdir)
        entity_roundtrip(ctx, rng)
        cache_prefixes(ctx, rng, tmpdir)
        cache_histories(ctx, rng, tmpdir)
        toplevel_restart(ctx, rng, loop, tmpdir)
        toplevel_cache(ctx, rng, loop, tmpdir)
        cache_numbers(ctx, rng, tmpdir)
        run_entity(ctx, driver)
        # (drawn last, so that the streams above keep their histories)
        import time
        t0 = time.monotonic()
        key_strings(ctx, rng, loop, tmpdir)
        cache_keys(ctx, rng, tmpdir)
        ctx.notes.append(f"streams key-strings + cache-keys: {ctx.dist['key-strings:family'] + ctx.dist['key-strings:single'] + ctx.dist['key-strings:random']} + "
                         f"{ctx.dist['cache-keys:family'] + ctx.dist['cache-keys:random']} trials in {time.monotonic() - t0:.1f} s")
        t0 = time.monotonic()
        cache_quiet(ctx, rng, tmpdir)
        ctx.notes.append(f"stream cache-quiet: {ctx.dist['cache-quiet:out-of-range'] + ctx.dist['cache-quiet:in-range']} trials in {time.monotonic() - t0:.1f} s; "
                         f"descriptions rebuilt from the cache checked: {ctx.dist['cache-quiet:radio:description-from-cache-checked']}, first-heard broadcasts checked: {ctx.dist['cache-quiet:radio:broadcast-after-restart-checked']}")
    finally:
        shutil.rmtree(tmpdir, ignore_errors=True)
        loop.close()


def build_controller(ctx, loop, pairs, case):
    """a controller holding `pairs` (loaded through the public load_pairing); an exception on these valid pairing
    records is reported (the record is not read back) instead of stopping the harness"""
    async def go():
        c = mk_controller(loop)
        for alias, pd in pairs.items():
            try:
                got = c.load_pairing(alias, dict(pd))
            except Exception as e:  # noqa: BLE001
                ctx.violation("restart/load-pairing-raises", f"load_pairing({alias!r}, Connection={pd.get('Connection', '<absent>')!r}) raised {type(e).__name__}: {str(e)[:80]} - "
                              "a valid saved pairing record is not read back", {**case, "alias": alias, "pairing": pd})
                return None
            if got is None or alias not in c.aliases:
                ctx.violation("restart/load-pairing-dropped", f"load_pairing({alias!r}, Connection={pd.get('Connection', '<absent>')!r}) did not register the pairing", {**case, "alias": alias, "pairing": pd})
                return None
        return c
    return loop.run_until_complete(go())


def load_pairings(loop, path):
    async def go():
        c = mk_controller(loop)
        c.load_data(path)
        return {alias: dict(p.pairing_data) for alias, p in c.aliases.items()}
    return loop.run_until_complete(go())


def real_fs_histories(ctx, rng, loop, tmpdir):
    """histories on the REAL file system (nothing patched): a save that was interrupted earlier left files behind
    (<file>.tmp of any length and content, <file>.bak, a zero-length <file>.tmp); the next complete save must still
    produce exactly the new pairing set, and a restart must read it back"""
    target = os.path.join(tmpdir, "pairings.json")
    sets = list(pairing_sets(rng))

    pairs = [(a, b) for a in sets for b in sets if a[0] != b[0]]
    rng.shuffle(pairs)
    n = 0
    for (oname, old), (nname, new) in pairs[: ctx.budget(10, 60)]:
        for f in os.listdir(tmpdir):
            os.unlink(os.path.join(tmpdir, f))
        bcase = {"stream": "real-fs", "old": oname, "new": nname}
        c_old = build_controller(ctx, loop, old, bcase)
        c_big = build_controller(ctx, loop, {**old, **new, "zz-extra": list(old.values())[0] if old else list(new.values())[0]}, bcase) if c_old is not None else None
        c_new = build_controller(ctx, loop, new, bcase) if c_big is not None else None
        if c_new is None:
            continue
        c_old.save_data(target)
        with builtins.open(target, "rb") as fp:
            old_bytes = fp.read()
        # leftovers of an interrupted save: usually LONGER than what the next save will write
        big_path = os.path.join(tmpdir, "big.json")
        c_big.save_data(big_path)
        with builtins.open(big_path, "rb") as fp:
            big = fp.read()
        os.unlink(big_path)
        for f in os.listdir(tmpdir):
            if f not in ("pairings.json",):
                os.unlink(os.path.join(tmpdir, f))
        leftover = rng.choice(["long", "long-prefix", "empty", "garbage"])
        stale = {"long": big, "long-prefix": big[: max(len(big) - rng.randrange(1, 40), 1)], "empty": b"", "garbage": bytes(rng.randrange(256) for _ in range(len(big) + 50))}[leftover]
        for suffix in (".tmp", ".new", ".bak", "~"):
            with builtins.open(target + suffix, "wb") as fp:
                fp.write(stale)
        case = {"stream": "real-fs", "old": oname, "new": nname, "leftover": leftover}
        ctx.evaluations += 1
        n += 1
        ctx.nontrivial.add(("real-fs", oname, nname, leftover))
        try:
            c_new.save_data(target)
        except Exception as e:  # noqa: BLE001
            ctx.violation("save/leftover-save-raises", f"saving '{nname}' over '{oname}' with a stale temporary file ({leftover}) raised {type(e).__name__}", case)
            continue
        try:
            got = load_pairings(loop, target)
        except Exception as e:  # noqa: BLE001
            ctx.violation("save/leftover-unloadable", f"after saving '{nname}' over '{oname}' with a stale temporary file ({leftover}, {len(stale)} bytes) the pairing file cannot be loaded: {type(e).__name__}", case)
            continue
        want = {a: {**pd, "Connection": pd.get("Connection", "IP")} for a, pd in new.items()}
        if got != want:
            ctx.violation("save/leftover-lost-data", f"after saving '{nname}' over '{oname}' with a stale temporary file ({leftover}) a restart reads {sorted(got)} instead of {sorted(want)}", case)
    ctx.dist["real-fs-histories"] += n


def save_crash(ctx, driver, rng, loop, tmpdir):
    target = os.path.join(tmpdir, "pairings.json")
    sets = list(pairing_sets(rng))
    cases, outs, lines = [], [], []
    opseqs = set()
    n_pairs = 0
    for (oname, old), (nname, new) in [(a, b) for a in sets for b in sets if a[0] != b[0]][: ctx.budget(8, 30)]:
        n_pairs += 1
        bcase = {"stream": "save", "old": oname, "new": nname}
        # write the old file for real (no crash), read its bytes
        c_old = build_controller(ctx, loop, old, bcase)
        c_new = build_controller(ctx, loop, new, bcase) if c_old is not None else None
        if c_new is None:
            continue
        v0 = VFS({})
        for f in os.listdir(tmpdir):
            os.unlink(os.path.join(tmpdir, f))
        with mock.patch.object(ctlmod, "open", v0.open, create=True), mock.patch.object(os, "replace", v0.replace), mock.patch.object(os, "fsync", v0.fsync):
            c_old.save_data(target)
        old_bytes = v0.files.get(target)
        if old_bytes is None:
            ctx.violation("save/no-file", "save_data produced no pairing file", {"stream": "save", "old": oname})
            continue
        # now the save under test, recorded
        v = VFS({target: old_bytes})
        # the old file also exists on the real disk, so that code which looks before it leaps (exists(), stat()) sees it
        for f in os.listdir(tmpdir):
            os.unlink(os.path.join(tmpdir, f))
        with builtins.open(target, "wb") as fp:
            fp.write(old_bytes)
        with mock.patch.object(ctlmod, "open", v.open, create=True), mock.patch.object(os, "replace", v.replace), mock.patch.object(os, "rename", v.replace), mock.patch.object(os, "fsync", v.fsync):
            c_new.save_data(target)
        new_bytes = v.files[target]
        shape = tuple((op[0], "tmp" if len(op) > 1 and op[1] != target else "target") for op in v.ops if op[0] in ("open", "write", "replace"))
        opseqs.add(shape)
        want_old = json.loads(old_bytes)
        want_new = json.loads(new_bytes)
        # model tie: compact the recorded ops into the model's alphabet
        model_ops = []
        for op in v.ops:
            if op[0] == "open":
                model_ops.append("open-tmp" if op[1] != target else "open-target")
            elif op[0] == "write":
                if model_ops and model_ops[-1].startswith("write"):
                    continue
                model_ops.append("write-tmp" if op[1] != target else "write-target")
            elif op[0] == "replace":
                model_ops.append("replace")
        cases.append({"stream": "ops", "old": oname, "new": nname})
        outs.append(" ".join(model_ops))
        lines.append("st.ops")
        for kind, i, k, files in crash_states({target: old_bytes}, v.ops, target):
            ctx.evaluations += 1
            ctx.nontrivial.add((oname, nname, kind, i, k))
            case = {"stream": "crash", "old": oname, "new": nname, "point": [kind, i, k]}
            # materialise
            for f in os.listdir(tmpdir):
                os.unlink(os.path.join(tmpdir, f))
            for pth, data in files.items():
                with builtins.open(pth, "wb") as fp:
                    fp.write(data)
            try:
                got = load_pairings(loop, target)
            except Exception as e:  # noqa: BLE001
                ctx.violation("save/crash-unloadable", f"crash at {kind} op {i} byte {k} while saving '{nname}' over '{oname}': reload fails with {type(e).__name__} - the previously saved pairings are gone", case)
                continue
            norm = lambda d: {a: {kk: vv for kk, vv in p.items()} for a, p in d.items()}  # noqa: E731

            def same(g, w):
                # load adds a default Connection key
                return set(g) == set(w) and all({**w[a], "Connection": w[a].get("Connection", "IP")} == g[a] for a in w)
            if not (same(got, want_old) or same(got, want_new)):
                ctx.violation("save/crash-lost-data", f"crash at {kind} op {i} byte {k} while saving '{nname}' over '{oname}': reload gives {sorted(got)} - neither the old {sorted(want_old)} nor the new {sorted(want_new)} pairings", case)
            # model: the same crash point
            if kind == "partial":
                mi = ("write-tmp" in model_ops and model_ops.index("write-tmp")) or 0
                cases.append(case)
                outs.append(hx(files.get(target)) if files.get(target) is not None else "none")
                lines.append(f"st.crash {hx(old_bytes)} {hx(new_bytes)} {mi} {k}")
            ctx.dist["crash:" + kind] += 1
        # round trip of the completed save
        got = load_pairings(loop, None) if False else None
    ctx.notes.append(f"recorded save_data effect sequences: {sorted(opseqs)}")
    if len(cases) > 1:
        ctx.sample(cases[1])
    if cases:
        compare_with_model(ctx, "store", cases, outs, lines, driver)


# ---------------------------------------------------------------------------------------------------------------------
# whole process lives through the real top-level Controller (set up the way aiohomekit.__main__.get_controller and
# the library's own test fixtures do it); only zeroconf, the BLE scanner and the pairing's connection are stand-ins

HAVE = {"IP": True, "CoAP": importlib.util.find_spec("aiocoap") is not None, "BLE": "bleak" in sys.modules}  # what this installation supports
UNKNOWN = "<unknown>"


def _browser_stub_cls():
    from zeroconf import SignalRegistrationInterface

    class BrowserStub:
        types = ["_hap._tcp.local.", "_hap._udp.local."]

        def __init__(self, *a, **kw):
            self._handlers = []
            self.service_state_changed = SignalRegistrationInterface(self._handlers)
    return BrowserStub


class ScannerStub:
    """the radio: a scanner that starts and never sees anything by itself"""

    def __init__(self, detection_callback=None, **kw):
        self.detection_callback = detection_callback
        self.discovered_devices_and_advertisement_data = {}

    async def start(self):
        return None

    async def stop(self):
        return None


def fake_zeroconf(browser_cls):
    from zeroconf import DNSCache
    zc = MagicMock(name="AsyncZeroconf")
    zc.async_register_service = AsyncMock()
    zc.async_close = AsyncMock()
    z = MagicMock(name="zeroconf")
    z.cache = DNSCache()
    z.async_wait_for_start = AsyncMock()
    z.listeners = [browser_cls()]
    zc.zeroconf = z
    return zc


def _hkdf512(ikm, salt, info, n=32):
    """HKDF-SHA512, one block (the harness's own; what pair-verify's `derive` computes from the shared secret)"""
    import hashlib
    import hmac
    prk = hmac.new(salt, ikm, hashlib.sha512).digest()
    return hmac.new(prk, info + b"\x01", hashlib.sha512).digest()[:n]


def _tlv(t, v):
    out = b""
    for o in range(0, max(len(v), 1), 255):
        out += bytes([t, len(v[o:o + 255])]) + v[o:o + 255]
    return out


def gsn_succ(n, top=65535):
    """the counter after `n`: 16 bit (BLE c#: 8 bit), 0 is never used, so top rolls over to 1"""
    return 1 if n is None or n >= top else n + 1


class BleAccessory:
    """the accessory behind the radio - the harness's own record of it: its global state number, the values it serves,
    the broadcast key it generated last (HAP-BLE 7.4.7.3: derived from the session's shared secret, salt = the controller's LTPK)"""

    INTS = {"uint8": ("<B", 0, 255), "uint16": ("<H", 0, 65535), "uint32": ("<I", 0, 2 ** 32 - 1), "uint64": ("<Q", 0, 2 ** 64 - 1), "int": ("<i", -2 ** 31, 2 ** 31 - 1)}

    def __init__(self, rng, pd):
        import collections
        self.rng = rng
        self.ltpk = bytes.fromhex(pd["iOSDeviceLTPK"])
        self.adv_id = bytes.fromhex(pd["AccessoryPairingID"].replace(":", ""))
        self.gsn = None
        self.chars = {}
        self.key = None
        self.served = collections.Counter()

    def set_db(self, db):
        self.chars = {c["iid"]: c for a in db if a.get("aid") == 1 for s in a["services"] for c in s["characteristics"]}

    def value_bytes(self, c):
        fmt, cur, rng = c.get("format"), c.get("value"), self.rng
        num = lambda v: isinstance(v, (int, float)) and not isinstance(v, bool)  # noqa: E731
        try:
            if fmt == "bool":
                return struct.pack("<?", rng.random() < 0.5)
            if fmt in self.INTS:
                code, lo, hi = self.INTS[fmt]
                cands = [int(v) for v in (c.get("valid-values") or [c.get("minValue"), c.get("maxValue"), cur]) if num(v) and int(v) == v and lo <= v <= hi]
                return struct.pack(code, rng.choice(cands) if cands else 0)
            if fmt == "float":
                cands = [float(v) for v in (c.get("minValue"), c.get("maxValue"), cur) if num(v)]
                return struct.pack("<f", rng.choice(cands) if cands else 0.0)
            if fmt == "string":
                s = cur if isinstance(cur, str) else ""
                return rng.choice([s, s[:4] + "é"]).encode()
        except (struct.error, OverflowError):
            pass
        return None

    def pdu(self, link, opcode, iid, body):
        """HAP-BLE procedures this accessory implements: protocol configuration (generate broadcast key / get all
        parameters), characteristic read, characteristic configuration (broadcast on/off); everything else: unsupported"""
        if opcode == 0x08:
            out, i = b"", 0
            while i + 2 <= len(body):
                t, ln = body[i], body[i + 1]
                i += 2 + ln
                if t == 0x01:
                    self.key = link.derive(self.ltpk, b"Broadcast-Encryption-Key")
                    self.served["generate-broadcast-key"] += 1
                elif t == 0x02:
                    self.served["get-all-params"] += 1
                    out = _tlv(1, struct.pack("<H", self.gsn or 1)) + _tlv(2, bytes([link.radio.config_num() & 0xFF])) + _tlv(3, self.adv_id) + (_tlv(4, self.key) if self.key else b"")
            return 0, out
        if opcode == 0x03:
            c = self.chars.get(iid)
            raw = self.value_bytes(c) if c is not None and "pr" in c.get("perms", []) else None
            if raw is None:
                self.served["read-refused"] += 1
                return 6, b""
            self.served["read"] += 1
            return 0, _tlv(1, raw)
        if opcode == 0x07:
            self.served["char-config"] += 1
            return 0, b""
        self.served["unsupported-%02x" % opcode] += 1
        return 1, b""


class GattHandle:
    properties = ("read", "write", "indicate")

    def __init__(self, iid):
        self.iid = iid
        self.handle = iid
        self.tx = []


class BleLink:
    """one GATT connection (what bleak's establish_connection hands out): writes to / reads from a characteristic reach
    the accessory's HAP-BLE procedure layer through the session's transport security"""

    def __init__(self, radio, on_disconnect):
        from cryptography.hazmat.primitives.ciphers.aead import ChaCha20Poly1305
        self.radio = radio
        self.address = radio.address
        self.is_connected = True
        self.on_disconnect = on_disconnect
        self.secret = bytes(radio.acc.rng.randrange(256) for _ in range(32))
        self.k_c2a = _hkdf512(self.secret, b"Control-Salt", b"Control-Write-Encryption-Key")
        self.k_a2c = _hkdf512(self.secret, b"Control-Salt", b"Control-Read-Encryption-Key")
        self.dec, self.enc = ChaCha20Poly1305(self.k_c2a), ChaCha20Poly1305(self.k_a2c)
        self.rx = self.tx = 0
        self.handles = {}
        self.notify = {}

    def derive(self, salt, info):
        return _hkdf512(self.secret, salt, info)

    @property
    def services(self):
        self.radio.acc.served["gatt-discovery"] += 1
        from bleak.exc import BleakError
        raise BleakError("GATT service discovery failed")  # this stand-in has no attribute table (see ASSUMPTIONS)

    def _check(self):
        if not self.is_connected:
            from bleak.exc import BleakError
            raise BleakError("Not connected")

    async def get_characteristic(self, service_uuid, characteristic_uuid, iid=None):
        self._check()
        return self.handles.setdefault(iid, GattHandle(iid))

    def determine_fragment_size(self, overhead, handle):
        return 244 - 3 - overhead

    async def write_gatt_char(self, handle, data, response=None):
        self._check()
        plain = self.dec.decrypt(struct.pack("<4xQ", self.rx), bytes(data), b"")
        self.rx += 1
        if plain[0] & 0x80:
            raise RuntimeError("radio stand-in: fragmented request")
        _control, opcode, tid, iid = struct.unpack("<BBBH", plain[:5])
        ln = struct.unpack("<H", plain[5:7])[0] if len(plain) >= 7 else 0
        st, rb = self.radio.acc.pdu(self, opcode, iid, plain[7:7 + ln])
        size = 244 - 3 - 16
        handle.tx = [struct.pack("<BBBH", 0x02, tid, st, len(rb)) + rb[:size - 5]]
        rest = rb[size - 5:]
        for o in range(0, len(rest), size - 2):
            handle.tx.append(struct.pack("<BB", 0x82, tid) + rest[o:o + size - 2])

    async def read_gatt_char(self, handle):
        self._check()
        if not getattr(handle, "tx", None):
            raise RuntimeError("radio stand-in: read without a pending response")
        out = self.enc.encrypt(struct.pack("<4xQ", self.tx), handle.tx.pop(0), b"")
        self.tx += 1
        return bytearray(out)

    async def start_notify(self, handle, callback):
        self._check()
        self.notify[handle.iid] = (handle, callback)
        self.radio.acc.served["start-notify"] += 1

    async def stop_notify(self, handle):
        self.notify.pop(getattr(handle, "iid", None), None)

    async def clear_cache(self):
        return None

    def drop(self):
        """the link is lost (the accessory closed it / out of range for a moment)"""
        if self.is_connected:
            self.is_connected = False
            self.notify = {}
            if self.on_disconnect:
                self.on_disconnect(self)

    async def disconnect(self):
        self.drop()


class Radio:
    """the bluetooth side of a process life.  'out-of-range': every connection attempt fails the way bleak reports an
    unreachable device (advertisements relayed by a proxy still arrive); 'in-range': connection attempts succeed and
    reach the harness's accessory"""

    def __init__(self, mode="out-of-range", acc=None, pd=None):
        self.mode = mode
        self.acc = acc
        self.address = pd["AccessoryAddress"] if pd is not None else "00:00:00:00:00:00"
        self.links = []
        self.attempts = 0
        self.pairing = None

    def config_num(self):
        return max(self.pairing.config_num, 0) if self.pairing is not None else 1

    async def establish(self, device, name, disconnected_callback=None, *a, **kw):
        self.attempts += 1
        if self.mode != "in-range" or self.acc is None:
            from bleak.exc import BleakError
            raise BleakError("Device with address %s was not found (out of range)" % self.address)
        link = BleLink(self, disconnected_callback)
        self.links.append(link)
        self.acc.bcast_since_link = False
        return link

    @property
    def link(self):
        return self.links[-1] if self.links and self.links[-1].is_connected else None

    def attach(self, pairing):
        """the pair-verify exchange is not this property's business: it is replaced by its result, the session keys
        and the key-derivation function of the shared secret (both sides know them)"""
        from aiohomekit.controller.ble.key import DecryptionKey, EncryptionKey
        self.pairing = pairing

        async def verify():
            link = pairing.client
            pairing._encryption_key = EncryptionKey(link.k_c2a)
            pairing._decryption_key = DecryptionKey(link.k_a2c)
            pairing._session_id = link.secret[:8]
            pairing._derive = link.derive
        pairing._async_pair_verify = verify


@contextlib.asynccontextmanager
async def process_life(how, cache="default", radio=None):
    """one life of the process.  how = 'toplevel': Controller(zeroconf, char_cache) entered with `async with`, which
    registers every backend the installation supports (Controller.async_start); how = 'backend:<T>': the transport
    controller of T constructed directly with the cache.  cache='default' leaves the char_cache argument out."""
    browser = _browser_stub_cls()
    with contextlib.ExitStack() as st:
        st.enter_context(mock.patch("aiohomekit.zeroconf.AsyncServiceBrowser", browser))
        if HAVE["BLE"]:
            st.enter_context(mock.patch("aiohomekit.controller.ble.controller.BleakScanner", ScannerStub))
            st.enter_context(mock.patch("aiohomekit.controller.ble.pairing.establish_connection", (radio or Radio()).establish))
        zc = fake_zeroconf(browser)
        if how == "toplevel":
            c = Controller(async_zeroconf_instance=zc) if isinstance(cache, str) else Controller(async_zeroconf_instance=zc, char_cache=cache)
        else:
            cc = CharacteristicCacheMemory() if isinstance(cache, str) else cache
            t = how.split(":")[1]
            if t == "IP":
                from aiohomekit.controller.ip.controller import IpController
                c = IpController(char_cache=cc, zeroconf_instance=zc)
            elif t == "CoAP":
                from aiohomekit.controller.coap.controller import CoAPController
                c = CoAPController(char_cache=cc, zeroconf_instance=zc)
            else:
                from aiohomekit.controller.ble.controller import BleController
                c = BleController(char_cache=cc)
        async with c:
            yield c


class Collector:
    """what one trial reports (also used by replay)"""

    def __init__(self):
        self.found = []

    def violation(self, signature, what, case):
        self.found.append((signature, what, case))


def quiet_logs():
    """load_data logs an ERROR per skipped pairing on asyncio's logger; keep the check's output readable"""
    lg = logging.getLogger("asyncio")
    old = lg.level
    lg.setLevel(logging.CRITICAL)
    return lambda: lg.setLevel(old)


# ---- pairing records ---------------------------------------------------------------------------------------------

def rand_pairing(rng, i, kind):
    """a pairing record as the library's finish_pairing of each transport stores it (plus the legacy shapes written by
    older versions: no Connection, no AccessoryIPs)"""
    hexs = lambda n: "%0*x" % (2 * n, rng.getrandbits(8 * n))  # noqa: E731
    mac = ":".join("%02X" % rng.randrange(256) for _ in range(5)) + ":%02X" % i
    d = {"AccessoryPairingID": mac if rng.random() < 0.8 else mac.lower(), "AccessoryLTPK": hexs(32), "iOSPairingId": "%08x-de3e-41c9-adba-%012x" % (rng.getrandbits(32), rng.getrandbits(48)),
         "iOSDeviceLTSK": hexs(32), "iOSDeviceLTPK": hexs(32)}
    if kind in ("IP", "IP-legacy", "IP-noips"):
        ip = rng.choice([f"192.168.{rng.randrange(256)}.{rng.randrange(1, 255)}", "fd00:dead:beef::%x" % rng.randrange(1, 65535), "127.0.0.1"])
        d["AccessoryIP"] = ip
        d["AccessoryPort"] = rng.choice([80, 5001, 51842, rng.randrange(1, 65536)])
        if kind == "IP":
            d["AccessoryIPs"] = [ip] + rng.sample(["fe80::1", "10.1.2.3", "fd00::77"], rng.randrange(0, 3))
        if kind != "IP-legacy":
            d["Connection"] = "IP"
    elif kind == "CoAP":
        d["AccessoryIP"] = "fd%02x:%x::%x" % (rng.randrange(256), rng.randrange(1, 65535), rng.randrange(1, 65535))
        d["AccessoryPort"] = rng.choice([5683, rng.randrange(1024, 65536)])
        d["Connection"] = "CoAP"
    else:
        d["AccessoryAddress"] = rng.choice([mac, "%08X-%04X-4000-8000-%012X" % (rng.getrandbits(32), rng.getrandbits(16), rng.getrandbits(48))])
        d["Connection"] = "BLE"
    items = list(d.items())
    rng.shuffle(items)  # the order of the keys in the file is not fixed
    return dict(items)


ALIAS_POOL = ["alias", "Küche", "thread-sensor", "x y", "灯 ☕", "b\"q\\uote", "a/b", "Ünïcode-é", "0", "old-style", " lead", "emoji-\U0001f4a1", "tab\tbed", "nl\nine"]


def rand_pairing_set(rng, must=None):
    kinds = [k for k in ("IP", "IP-legacy", "IP-noips", "CoAP", "BLE") if HAVE[k.split("-")[0]]]
    n = rng.choice([1, 1, 2, 3, 3, 4, 6])
    chosen = [rng.choice(kinds) for _ in range(n)]
    if must and must in kinds and must not in chosen:
        chosen[rng.randrange(len(chosen))] = must
    aliases = rng.sample(ALIAS_POOL, len(chosen))
    return {a: rand_pairing(rng, i + 1, k) for i, (a, k) in enumerate(zip(aliases, chosen))}


def want_pairings(pairs):
    """what has to be read back: every alias with every field (a defaulted Connection is fine)"""
    return {a: {**pd, "Connection": pd.get("Connection", "IP")} for a, pd in pairs.items()}


def diff_pairings(got, want):
    for a in want:
        if a not in got:
            return f"alias {a!r} (Connection={want[a]['Connection']!r}, AccessoryPairingID={want[a]['AccessoryPairingID']}) is missing; present: {sorted(got)}"
    for a in got:
        if a not in want:
            return f"unexpected alias {a!r}"
    for a in want:
        if got[a] != want[a]:
            ks = sorted(k for k in set(got[a]) | set(want[a]) if got[a].get(k, UNKNOWN) != want[a].get(k, UNKNOWN))
            return f"alias {a!r}: field(s) {ks} changed: {[got[a].get(k, '<absent>') for k in ks]} instead of {[want[a].get(k, '<absent>') for k in ks]}"
    return None


def restart_trial(out, loop, tmpdir, case):
    """a pairing file, then `lives` process lives of the real top-level Controller with all its backends: each life loads
    the file (load_data, or load_pairing per record) and must hold exactly the saved aliases with every field; lives
    that rewrite the file (save_data - what the CLI does after most commands) must leave exactly the same set in it"""
    rng = random.Random(case["seed"])
    pairs = case["pairs"]
    want = want_pairings(pairs)
    target = os.path.join(tmpdir, "restart", "pairing.json")
    shutil.rmtree(os.path.dirname(target), ignore_errors=True)
    os.makedirs(os.path.dirname(target))
    restore = quiet_logs()

    async def life(n, load, save):
        async with process_life(case["how"]) as c:
            registered = sorted(t.name for t in getattr(c, "transports", {}))
            step = f"life {n} ({load}{'+save_data' if save else ''}; backends {registered})"
            try:
                if load == "load_data":
                    c.load_data(target)
                else:
                    with builtins.open(target, encoding="utf-8") as fp:
                        data = json.load(fp)
                    for alias, pd in data.items():
                        c.load_pairing(alias, pd)
            except Exception as e:  # noqa: BLE001
                out.violation("restart/load-raises", f"{step}: loading the saved pairings {sorted(want)} raised {type(e).__name__}: {str(e)[:80]}", case)
                return False
            got = {alias: dict(p.pairing_data) for alias, p in c.aliases.items()}
            bad = diff_pairings(got, want)
            if bad:
                out.violation("restart/pairing-not-read-back", f"{step}: pairing file with {sorted(want)} ({', '.join(sorted({w['Connection'] for w in want.values()}))}): {bad}", case)
                if not save:
                    return False
            if save:
                try:
                    c.save_data(target)
                except Exception as e:  # noqa: BLE001
                    out.violation("restart/save-raises", f"{step}: save_data raised {type(e).__name__}: {str(e)[:80]}", case)
                    return False
                try:
                    with builtins.open(target, encoding="utf-8") as fp:
                        onfile = json.load(fp)
                    badf = diff_pairings(onfile, want) if isinstance(onfile, dict) else "the file is not a JSON object"
                except Exception as e:  # noqa: BLE001
                    badf = f"the file does not parse ({type(e).__name__})"
                if badf:
                    out.violation("restart/rewrite-loses-pairing", f"{step}: the rewritten pairing file no longer holds what was saved: {badf}", case)
                    return False
            return not bad

    async def go():
        # the file as the sessions that paired the devices left it
        if case["writer"] == "library":
            async with process_life(case["how"]) as c0:
                try:
                    for alias, pd in pairs.items():
                        c0.load_pairing(alias, copy.deepcopy(pd))
                    c0.save_data(target)
                except Exception as e:  # noqa: BLE001
                    out.violation("restart/load-pairing-raises", f"life 0: load_pairing/save_data of valid pairing records {sorted(want)} raised {type(e).__name__}: {str(e)[:80]}", case)
                    return
        else:
            with builtins.open(target, "w", encoding="utf-8") as fp:
                json.dump(pairs, fp, ensure_ascii=case["writer"] == "json-ascii", indent=rng.choice([None, 2, 4]))
        for n, (load, save) in enumerate(case["lives"], 1):
            if not await life(n, load, save):
                return
    try:
        loop.run_until_complete(go())
    except Exception as e:  # noqa: BLE001
        out.violation("restart/start-up-raises", f"starting / stopping the Controller around pairing file {sorted(want)} raised {type(e).__name__}: {str(e)[:80]}", case)
    finally:
        restore()


def toplevel_restart(ctx, rng, loop, tmpdir):
    fixed = [(n, p) for n, p in pairing_sets(rng) if p]
    trials = []
    # every hand-written set once through the top-level Controller, then random sets (every transport forced in turn)
    for name, pairs in fixed:
        trials.append((name, {a: {k: v for k, v in pd.items()} for a, pd in pairs.items() if HAVE[pd.get("Connection", "IP")]}))
    musts = ["CoAP", "BLE", "IP-legacy", "IP", "IP-noips"]
    for i in range(ctx.budget(40, 400)):
        trials.append((f"random-{i}", rand_pairing_set(rng, must=musts[i % len(musts)])))
    for i, (name, pairs) in enumerate(trials):
        if not pairs:
            continue
        how = "toplevel"
        lives = [(rng.choice(["load_data", "load_data", "load_pairing"]), rng.random() < 0.7) for _ in range(rng.choice([2, 2, 3]))]
        lives[-1] = ("load_data", False)
        if i % 3 == 0:
            lives[0] = ("load_data", True)  # load_data -> save_data -> restart -> load_data
        case = {"stream": "toplevel-restart", "set": name, "pairs": pairs, "writer": rng.choice(["json", "json-ascii", "library"]), "how": how, "lives": [list(x) for x in lives],
                "seed": rng.getrandbits(32)}
        out = Collector()
        restart_trial(out, loop, tmpdir, case)
        ctx.evaluations += len(lives)
        ctx.nontrivial.add(("toplevel-restart", tuple(sorted(pd.get("Connection", "<none>") + ("" if "AccessoryIPs" in pd or pd.get("Connection", "IP") != "IP" else "-noips") for pd in pairs.values())),
                            case["writer"], tuple(map(tuple, case["lives"]))))
        ctx.dist["toplevel-restart"] += 1
        for pd in pairs.values():
            ctx.dist["toplevel-restart:record:" + pd.get("Connection", "legacy-no-Connection")] += 1
        for sig, what, c in out.found[:2]:
            ctx.violation(sig, what, c)
        if i == 1:
            ctx.sample({k: v for k, v in case.items() if k != "pairs"})


# ---- accessory database through the pairing's own write-through paths ---------------------------------------------------

CACHE_INITS = ("none", "zero", "truncated", "garbage", "bad-utf8", "warm-other", "warm-same")
OTHER_ID = "0F:0E:0D:0C:0B:0A"


class NetStub:
    """the network side of a pairing: the accessory is reachable and answers with its accessory database
    (GET /accessories on IP, the accessory-info request on CoAP)"""

    is_connected = True
    hosts = ["192.0.2.1"]
    host = "192.0.2.1"
    port = 1
    address = "[2001:db8::1]:1"
    last_connector_error = None

    def __init__(self):
        self.db = None
        self.fetches = 0

    async def get_json(self, target):
        self.fetches += 1
        return {"accessories": copy.deepcopy(self.db)}

    async def get_accessory_info(self):
        self.fetches += 1
        return copy.deepcopy(self.db)

    async def ensure_connection(self):
        return None

    async def connect(self, *a, **kw):
        return None

    async def close(self):
        return None


class IpNetStub(NetStub):
    connected_host = "192.0.2.1"

    def reconnect_soon(self):
        return None


class CoapNetStub(NetStub):
    async def reconnect_soon(self):
        return None


def accessory_dbs():
    out = []
    for fx in sorted(pathlib.Path(REPO, "tests", "fixtures").glob("*.json")):
        try:
            data = json.loads(fx.read_text())
            if isinstance(data, list) and data and isinstance(data[0], dict) and "services" in data[0]:
                Accessories.from_list(copy.deepcopy(data))
                out.append((fx.name, data))
        except Exception:  # noqa: BLE001
            continue
    return out


def db_skeleton(db):
    """what the harness itself knows about a database it served (computed on the raw JSON): which characteristics exist, with their permissions"""
    return sorted((a["aid"], s["iid"], c["iid"], tuple(sorted(c.get("perms", [])))) for a in db for s in a["services"] for c in s["characteristics"])


def view_of(pairing):
    """the pairing's public view of its accessory database"""
    if pairing.accessories is None:
        return None
    ser = pairing.accessories.serialize()
    key = pairing.broadcast_key
    return {"config_num": pairing.config_num, "state_num": pairing.state_num, "broadcast_key": key.hex() if isinstance(key, (bytes, bytearray)) else key,
            "db": proj(ser), "skeleton": db_skeleton(ser)}


def describe_view(v):
    if v is None:
        return "no accessory database at all"
    return f"c#={v['config_num']} s#={v['state_num']} key={'-' if not v['broadcast_key'] else v['broadcast_key'][:8]} {len(v['skeleton'])} characteristics"


def ble_adv(did, gsn, cn):
    idb = bytes.fromhex(did.replace(":", ""))
    data = bytes([0x06, 0x31, 0x00]) + idb + struct.pack("<HHBB", 5, gsn, cn, 2) + b"\x01\x02\x03\x04"
    a = MagicMock()
    a.manufacturer_data = {76: data}
    a.rssi = -50
    d = MagicMock()
    d.name = "dev"
    d.address = did.upper()
    return d, a


def ble_encrypted_notification(did, acc, iid):
    """the accessory's encrypted broadcast of a characteristic value: [0x11, len, advertising id, ChaCha20-Poly1305(key,
    nonce = GSN, aad = advertising id)(GSN | iid | 8 value bytes) with the tag cut to 4 bytes]"""
    from cryptography.hazmat.primitives.ciphers.aead import ChaCha20Poly1305
    raw = (acc.value_bytes(acc.chars[iid]) or b"")[:8].ljust(8, b"\0")
    sealed = ChaCha20Poly1305(acc.key).encrypt(struct.pack("<4xQ", acc.gsn), struct.pack("<HH", acc.gsn, iid) + raw, acc.adv_id)
    data = bytes([0x11, 0x36]) + acc.adv_id + sealed[:12] + sealed[12:16]
    a = MagicMock()
    a.manufacturer_data = {76: data}
    a.rssi = -50
    d = MagicMock()
    d.name = "dev"
    d.address = did.upper()
    return d, a


class MdnsInfo:
    def __init__(self, did, cn, type_, addr, port, sn=1):
        import ipaddress
        self.name = "dev" + did[-2:] + "." + type_
        self.type = type_
        self.port = port
        self._addrs = [ipaddress.ip_address(addr)]
        self.decoded_properties = {"id": did, "c#": str(cn), "s#": str(sn), "sf": "0", "ff": "0", "ci": "5", "md": "m"}

    def ip_addresses_by_version(self, v):
        return list(self._addrs)


def cache_file_bytes(entries):
    return json.dumps({"pairings": entries}, separators=(",", ":")).encode()


def cache_trial(out, loop, tmpdir, dbs, case):
    """cache file in state `init` -> life 1: CharacteristicCacheFile(path) handed to the Controller, the pairing loaded,
    its accessory database populated / updated through the pairing's own paths (`ops`) -> RESTART (new cache object from
    the same path, new Controller, pairing loaded again): configuration number, accessory database, state number and
    broadcast key must be what they were; further lives continue the history"""
    rng = random.Random(case["seed"])
    dbmap = dict(dbs)
    d = os.path.join(tmpdir, "cachelife")
    shutil.rmtree(d, ignore_errors=True)
    os.makedirs(d)
    path = pathlib.Path(d, "charmap.json")
    transport = case["transport"]
    pd = case["pairing"]
    pid = pd["AccessoryPairingID"]
    init = case["init"]
    other_entry = None
    name0, db0 = dbs[rng.randrange(len(dbs))]
    if case.get("radio") == "in-range":
        # a database a HAP-BLE accessory can have (16 bit instance ids, the protocol-information service)
        pool = ble_flavoured(dbs) or [(name0, db0)]
        name0, db0 = pool[rng.randrange(len(pool))]
    ser0 = Accessories.from_list(copy.deepcopy(db0)).serialize()
    if init == "zero":
        path.write_bytes(b"")
    elif init == "truncated":
        full = cache_file_bytes({OTHER_ID: {"config_num": 3, "accessories": ser0, "broadcast_key": None, "state_num": None}})
        path.write_bytes(full[: rng.choice([1, 2, 13, len(full) // 2, len(full) - 1, rng.randrange(1, len(full))])])
    elif init == "garbage":
        path.write_bytes(rng.choice([b"\x00\x00\x00\x00", b"{{{{", b"{\"pairings\":", b"not json at all", bytes(rng.randrange(1, 256) for _ in range(40)) + b"{"]))
    elif init == "bad-utf8":
        path.write_bytes(b"\xff\xfe{\"pairings\": {}}\xc3")
    elif init in ("warm-other", "warm-same"):
        other_entry = {"config_num": 3, "accessories": ser0, "broadcast_key": "ab" * 32, "state_num": 5}
        entries = {OTHER_ID: other_entry}
        if init == "warm-same":
            entries[pid] = {"config_num": 1, "accessories": ser0, "broadcast_key": None, "state_num": None}
        path.write_bytes(cache_file_bytes(entries))
    exp = {"known": {}, "view": None}  # harness bookkeeping + the view at the end of the previous life
    if init == "warm-same":
        exp["known"] = {"config_num": 1, "state_num": None, "broadcast_key": None, "skeleton": db_skeleton(db0)}
    restore = quiet_logs()
    tname = {"IP": "IP", "CoAP": "COAP", "BLE": "BLE"}[transport]
    own_loop = loop is None
    if own_loop:
        # a loop of its own with virtual time: timers of the library (retry back-off, notification debounce) cost nothing,
        # and closing it is the end of everything the process lives of this trial left behind
        loop = VLoop()
    virtual = isinstance(loop, VLoop)
    for name, db in ble_flavoured(dbs):
        dbmap[name] = db
    teardown = case.get("teardown", "legacy")
    served = {}  # what the radio stand-in was asked for (evidence of the library paths that were reached)
    the_accessory = BleAccessory(rng, pd) if transport == "BLE" else None  # it lives on while the controller's process restarts

    async def settle():
        if virtual:
            await asyncio.sleep(3.0)
        else:
            for _ in range(12):
                await asyncio.sleep(0)

    async def process_dies():
        """nothing of a dead process runs on: its tasks are gone"""
        me = asyncio.current_task()
        rest = [t for t in asyncio.all_tasks() if t is not me and not t.done()]
        for t in rest:
            t.cancel()
        if rest:
            await asyncio.gather(*rest, return_exceptions=True)

    async def life(n, ops):
        step = f"life {n}"
        try:
            cache = CharacteristicCacheFile(path)
        except Exception as e:  # noqa: BLE001
            out.violation("cache/start-up-raises", f"{step}: CharacteristicCacheFile on a cache file in state '{init if n == 1 else 'written by the previous life'}' raised {type(e).__name__}: {str(e)[:80]}", case)
            return False
        radio = Radio(case.get("radio", "out-of-range"), the_accessory, pd) if transport == "BLE" else None
        async with process_life(case["how"], cache, radio) as c:
            backend = c.transports.get(TransportType[tname]) if case["how"] == "toplevel" else c
            prev = exp["view"]
            # ---- has anything been heard of the accessory when the pairing is loaded?  (stream cache-quiet: `seen_first`; every other
            # stream: never - the scanner stand-in sees nothing by itself)
            seen = (case.get("seen_first") or [])[n - 1:n]
            seen = seen[0] if seen else None
            saved_cn = exp["known"].get("config_num", prev["config_num"] if prev is not None else None)
            saved_sn = exp["known"].get("state_num", prev["state_num"] if prev is not None else None)
            heard = {"any": False}
            if seen and transport == "BLE" and backend is not None and isinstance(saved_cn, int) and saved_cn >= 0:
                # the accessory's periodic advertisement reaches the scanner BEFORE the pairing is loaded: with the state number it
                # had ('same') or with its counter moved on while the controller was down ('moved')
                g0 = the_accessory.gsn or saved_sn or 1
                if seen == "moved":
                    for _ in range(rng.choice([1, 1, 2, 7])):
                        g0 = gsn_succ(g0)
                the_accessory.gsn = g0
                try:
                    backend._device_detected(*ble_adv(pid, g0, saved_cn % 256))
                except Exception as e:  # noqa: BLE001
                    out.violation("cache/update-raises", f"{step}: an advertisement of {pid} (s#={g0}, c#={saved_cn % 256}) before its pairing is loaded raised {type(e).__name__}: {str(e)[:100]}", case)
                    return False
                heard["any"] = True
                served["advertised-before-load"] = served.get("advertised-before-load", 0) + 1
            loader = case.get("load", "load_pairing") if case["how"] == "toplevel" else "load_pairing"
            try:
                if loader == "load_data":
                    # the pairing file of the previous life (written by an independent writer), read by Controller.load_data
                    pfile = pathlib.Path(d, "pairings.json")
                    pfile.write_text(json.dumps({"alias": pd}, ensure_ascii=False, indent=1), encoding="utf-8")
                    c.load_data(str(pfile))
                    pairing = c.aliases.get("alias")
                else:
                    pairing = c.load_pairing("alias", copy.deepcopy(pd))
            except Exception as e:  # noqa: BLE001
                out.violation("restart/load-pairing-raises", f"{step}: {loader} of a valid {transport} pairing raised {type(e).__name__}: {str(e)[:80]}", case)
                return False
            if pairing is None:
                out.violation("restart/load-pairing-dropped", f"{step}: {loader} of a valid {transport} pairing returned nothing", case)
                return False
            # ---- what survived the restart
            try:
                got = view_of(pairing)
                desc = getattr(pairing, "description", None)
                told = None if desc is None else {"config_num": getattr(desc, "config_num", None), "state_num": getattr(desc, "state_num", None)}
            except Exception as e:  # noqa: BLE001
                out.violation("cache/restored-view-raises", f"{step}: reading the restored {transport} pairing's accessory database / numbers raised {type(e).__name__}: {str(e)[:100]}", case)
                return False
            if n > 1 or exp["known"]:
                bad = None
                if got is None:
                    bad = "the pairing has no accessory database at all"
                else:
                    for fld in ("config_num", "state_num", "broadcast_key", "skeleton"):
                        if fld in exp["known"] and got[fld] != exp["known"][fld]:
                            bad = f"{fld} is {str(got[fld])[:60]!r}, the harness's record of the history says {str(exp['known'][fld])[:60]!r}"
                            break
                    if bad is None and prev is not None:
                        for fld in ("config_num", "state_num", "broadcast_key", "skeleton", "db"):
                            if got[fld] != prev[fld]:
                                bad = f"{fld} is {str(got[fld])[:60]!r} after the restart, {str(prev[fld])[:60]!r} before it"
                                break
                if bad:
                    out.violation("cache/toplevel-not-persisted", f"{step}: {transport} pairing {pid}, cache file initially '{init}', controller built as {case['how']}, previous life did {case['ops'][n - 2] if n > 1 else 'nothing (warm cache file)'} "
                                  f"and ended with {describe_view(prev) if prev is not None else 'the warm entry'}; after the restart {bad}; cache file: {'missing' if not path.exists() else str(path.stat().st_size) + ' bytes'}", case)
                    return False
                # ... and what the restarted pairing TELLS about the accessory while nothing has been heard of it in this life: the
                # description it holds (BLE: the advertisement rebuilt from the cache entry - what the controller works with until the
                # accessory is heard again) can only come from what was saved, so its c# / s# are the saved ones
                if told is not None and not heard["any"]:
                    for fld, want in (("config_num", saved_cn), ("state_num", saved_sn)):
                        if want is not None and told[fld] != want:
                            out.violation("cache/restored-description-differs", f"{step}: {transport} pairing {pid}, cache file initially '{init}', controller built as {case['how']}, loaded by {loader} while nothing "
                                          f"had been heard of the accessory; saved: c#={saved_cn} s#={saved_sn} (previous life did {case['ops'][n - 2] if n > 1 else 'nothing (warm cache file)'}); the restarted pairing holds them "
                                          f"(config_num={got['config_num'] if got else None}, state_num={got['state_num'] if got else None}) but the description it rebuilt from the cache says "
                                          f"c#={told['config_num']} s#={told['state_num']}: {fld} is {told[fld]!r}, saved {want!r}", case)
                            return False
                    served["description-from-cache-checked"] = served.get("description-from-cache-checked", 0) + 1
            # ---- this life's history
            delivered = []
            if case.get("listen"):
                pairing.dispatcher_connect(lambda res: delivered.append(dict(res)))
            net = IpNetStub() if transport == "IP" else CoapNetStub()
            if transport in ("IP", "CoAP"):
                pairing.connection = net
                pairing._ensure_connected = AsyncMock()
            acc = radio.acc if radio is not None else None
            in_range = radio is not None and radio.mode == "in-range"
            if in_range:
                radio.attach(pairing)
                if acc.gsn is None:
                    acc.gsn = got["state_num"] if got is not None and got["state_num"] else 1
                if got is not None and not acc.chars:
                    acc.set_db(pairing.accessories.serialize())

            async def advertise(gsn, cn):
                heard["any"] = True
                backend._device_detected(*ble_adv(pid, gsn, cn))
                await settle()

            def note_ble(generated_before, shown=None):
                """the harness's record after a BLE op: the accessory's own counter (or the number a late relay showed) and
                the key it generated - recorded as 'has to come back' when the live pairing took them over"""
                k = dict(exp["known"])
                if pairing.state_num is not None and pairing.state_num in (acc.gsn, shown):
                    k["state_num"] = pairing.state_num
                else:
                    k.pop("state_num", None)
                exp["known"] = k
                note_key(generated_before)

            def note_key(generated_before):
                if acc.served["generate-broadcast-key"] != generated_before:
                    k = dict(exp["known"])
                    if acc.key is not None and pairing.broadcast_key == acc.key:
                        k["broadcast_key"] = acc.key.hex()
                    else:
                        k.pop("broadcast_key", None)
                    exp["known"] = k

            for idx, op in enumerate(ops):
                kind = op[0]
                gen0 = acc.served["generate-broadcast-key"] if acc is not None else 0
                try:
                    if kind == "restore":
                        _, dbn, cn, key, sn = op
                        pairing.restore_accessories_state(copy.deepcopy(dbmap[dbn]), cn, bytes.fromhex(key) if key else None, sn)
                        exp["known"] = {"config_num": cn, "state_num": sn, "broadcast_key": key, "skeleton": db_skeleton(dbmap[dbn])}
                        if acc is not None:
                            acc.set_db(dbmap[dbn])
                            acc.gsn = sn or 1
                            if case.get("acc_key_from_restore"):
                                # (stream cache-quiet) what an earlier process handed over is the accessory's own state: the key it generated
                                acc.key = bytes.fromhex(key) if key else None
                                acc.bcast_since_link = False
                    elif kind in ("list", "populate"):
                        net.db = dbmap[op[1]]
                        if kind == "list":
                            await pairing.list_accessories_and_characteristics()
                        else:
                            await pairing.async_populate_accessories_state(force_update=True)
                        exp["known"] = {"skeleton": db_skeleton(dbmap[op[1]])}
                    elif kind in ("mdns", "mdnsn"):
                        # the accessory announces itself over mDNS.  "mdns": a higher configuration number (the pairing fetches the
                        # database again); "mdnsn": any configuration / state number (higher, the same, lower, rolled over)
                        net.db = dbmap[op[1]]
                        cn = max(pairing.config_num, 0) + op[2] if kind == "mdns" else op[2]
                        info = MdnsInfo(pid, cn, "_hap._tcp.local." if transport == "IP" else "_hap._udp.local.", "192.0.2.1" if transport == "IP" else "2001:db8::1", 1,
                                        sn=op[3] if kind == "mdnsn" else 1)
                        before = net.fetches
                        backend._async_handle_loaded_service_info(info)
                        await settle()
                        if net.fetches == before:
                            continue  # the library did not fetch: nothing new to remember
                        exp["known"] = {"config_num": cn, "skeleton": db_skeleton(dbmap[op[1]])}
                    elif kind == "adv":
                        # a BLE advertisement with the current configuration number and a new global state number
                        if pairing.accessories is None:
                            continue
                        gsn = ((pairing.state_num or 0) + op[1] - 1) % 65535 + 1
                        if acc is not None:
                            acc.gsn = gsn
                        await advertise(gsn, pairing.config_num % 256)
                        exp["known"] = {**exp["known"], "state_num": gsn}
                        note_key(gen0)
                    elif kind == "advn":
                        # a BLE advertisement with ANY state number (higher, the same, lower = a late relay / a counter that
                        # restarted, rolled over) and any configuration number (None = the one the pairing holds)
                        if pairing.accessories is None:
                            continue
                        gsn, cn = op[1], op[2]
                        if cn is None or in_range:
                            cn = pairing.config_num % 256  # (in range the stand-in accessory never changes its attribute table)
                        stale = len(op) > 3 and op[3] == "prev"
                        if not stale:
                            acc.gsn = gsn
                        await advertise(gsn, cn)
                        note_ble(gen0, gsn)  # if the pairing took the advertised number over, that is what has to come back
                        k = dict(exp["known"])
                        if cn != k.get("config_num"):
                            k.pop("config_num", None)  # a changed c# with the accessory unreachable: which c# the pairing goes on with is not the harness's call
                        exp["known"] = k
                    elif kind in ("pollq", "pollw") and acc is not None and pairing.accessories is not None:
                        # the application polls although the accessory has NOT just advertised.  "pollq": nothing is heard during the
                        # poll either (a sleepy accessory, the command line tool right after start-up): unless an advertisement is
                        # already known, the library reports that it cannot find the accessory - a legitimate answer that must leave
                        # the saved state alone; "pollw": the advertisement arrives while the poll is waiting for one
                        from aiohomekit.exceptions import AccessoryDisconnectedError, AccessoryNotFoundError
                        from bleak.exc import BleakError
                        if kind == "pollw" and not virtual:
                            continue
                        if op[1] == "list":
                            job = pairing.list_accessories_and_characteristics()
                        else:
                            job = pairing.async_populate_accessories_state(force_update=bool(op[1]))
                        task = asyncio.ensure_future(job)
                        if kind == "pollw":
                            await asyncio.sleep(1.0)
                            if acc.gsn is None:
                                acc.gsn = saved_sn or 1
                            await advertise(acc.gsn, pairing.config_num % 256)
                        try:
                            await task
                            served[kind + "-answered"] = served.get(kind + "-answered", 0) + 1
                        except (AccessoryNotFoundError, AccessoryDisconnectedError, BleakError):
                            # (which error reports an accessory that is not there is not this property's business; the radio's own
                            # BleakError comes through list_accessories_and_characteristics as it is)
                            served[kind + "-not-reached"] = served.get(kind + "-not-reached", 0) + 1
                        await settle()
                        note_ble(gen0)
                    elif kind == "bcastq" and acc is not None and pairing.accessories is not None:
                        # an encrypted broadcast notification reaches the scanner (directly or relayed by a proxy - the radio mode does
                        # not matter): the accessory holds a broadcast key and has no link.  When it is the FIRST thing heard of the
                        # accessory in this life, the accessory's counter was the saved state number and the key is the saved key, the
                        # notification (successor of the saved number, sealed with the saved key) can be opened with exactly what the
                        # cache gave back - it must reach the listeners
                        num = ("bool", "uint8", "uint16", "uint32", "int", "float")
                        ok = lambda ch: "pr" in ch.get("perms", []) and ch.get("format") in num  # noqa: E731
                        bc = sorted(i for i, ch in acc.chars.items() if i <= 65535 and ch.get("broadcast_events") and ok(ch)) or sorted(i for i, ch in acc.chars.items() if i <= 65535 and "ev" in ch.get("perms", []) and ok(ch))
                        if acc.key is None or acc.gsn is None or (radio is not None and radio.link is not None) or not bc:
                            continue
                        first = not heard["any"] and told is not None and all(o[0] == "pollq" for o in ops[:idx])
                        counter_was = acc.gsn
                        if not getattr(acc, "bcast_since_link", False):
                            acc.bcast_since_link = True
                            acc.gsn = gsn_succ(acc.gsn)
                        iid = bc[rng.randrange(len(bc))]
                        n_before = len(delivered)
                        heard["any"] = True
                        backend._device_detected(*ble_encrypted_notification(pid, acc, iid))
                        acc.served["broadcast-notification"] += 1
                        await settle()
                        if (first and case.get("listen") and isinstance(saved_sn, int) and counter_was == saved_sn and acc.gsn == saved_sn + 1 and saved_sn + 1 < 65535
                                and exp["known"].get("broadcast_key") == acc.key.hex() and exp["known"].get("state_num") == saved_sn):
                            served["broadcast-after-restart-checked"] = served.get("broadcast-after-restart-checked", 0) + 1
                            if not any((1, iid) in res for res in delivered[n_before:]):
                                out.violation("cache/saved-state-not-in-use", f"{step}: {transport} pairing {pid} restarted with nothing heard of the accessory; saved: s#={saved_sn}, broadcast key {acc.key.hex()[:8]}..; the first "
                                              f"thing heard is the accessory's encrypted broadcast of characteristic {iid} with s#={acc.gsn} (the successor of the saved number) sealed with the saved key: it was not "
                                              f"delivered to the pairing's listeners - the restarted pairing does not work with the saved state number / key (pairing.state_num={pairing.state_num}, "
                                              f"description s#={getattr(pairing.description, 'state_num', None)} c#={getattr(pairing.description, 'config_num', None)})", case)
                                return False
                        note_ble(gen0)
                    elif kind == "bcast" and in_range and pairing.accessories is not None:
                        # an encrypted broadcast notification (HAP-BLE 7.4.7.2): only an accessory that generated a broadcast key
                        # and has no link sends one; its counter moves on (once per disconnected period)
                        bc = sorted(i for i, ch in acc.chars.items() if ch.get("broadcast_events") and "pr" in ch.get("perms", []) and ch.get("format") in ("bool", "uint8", "uint16", "uint32", "int", "float"))
                        if acc.key is None or radio.link is not None or not bc:
                            continue
                        if not getattr(acc, "bcast_since_link", False):
                            acc.bcast_since_link = True
                            acc.gsn = gsn_succ(acc.gsn)
                        iid = bc[rng.randrange(len(bc))]
                        backend._device_detected(*ble_encrypted_notification(pid, acc, iid))
                        acc.served["broadcast-notification"] += 1
                        await settle()
                        note_ble(gen0)
                    elif kind in ("poll", "subscribe", "event", "drop") and in_range and pairing.accessories is not None:
                        if kind != "drop":
                            await advertise(acc.gsn, pairing.config_num % 256)  # the accessory advertises periodically: it has been seen before anything connects
                        if kind == "poll" and op[1] == "list":
                            await pairing.list_accessories_and_characteristics()
                        elif kind == "poll":
                            await pairing.async_populate_accessories_state(force_update=bool(op[1]))
                        elif kind == "subscribe":
                            evs = sorted(i for i, ch in acc.chars.items() if "ev" in ch.get("perms", []) and "pr" in ch.get("perms", []) and ch.get("format") in ("bool", "uint8", "uint16", "uint32", "int", "float"))
                            if evs:
                                await pairing.subscribe({(1, i) for i in rng.sample(evs, min(len(evs), op[1]))})
                        elif kind == "event":
                            link = radio.link
                            if link is not None and link.notify:
                                if not getattr(link, "had_event", False):
                                    link.had_event = True
                                    acc.gsn = gsn_succ(acc.gsn)  # the counter moves once per connected session
                                handle, cb = link.notify[sorted(link.notify)[rng.randrange(len(link.notify))]]
                                cb(handle, bytearray())
                                acc.served["event-delivered"] += 1
                        elif kind == "drop" and radio.link is not None:
                            radio.link.drop()
                        await settle()
                        note_ble(gen0)
                except Exception as e:  # noqa: BLE001
                    out.violation("cache/update-raises", f"{step}: {transport} pairing, op {op[:2]} raised {type(e).__name__}: {str(e)[:100]}", case)
                    return False
            if teardown == "legacy":
                exp["view"] = view_of(pairing) if ops else (got if got is not None else exp["view"])
            try:
                if teardown == "shutdown" or (teardown == "legacy" and transport in ("IP", "CoAP")):
                    await pairing.shutdown()
            except Exception:  # noqa: BLE001
                pass
            await process_dies()
            if teardown != "legacy":
                # what the pairing held in memory when the process ended
                exp["view"] = view_of(pairing) if ops else (got if got is not None else exp["view"])
            if acc is not None:
                served.update(acc.served)
                served["connection-attempts"] = served.get("connection-attempts", 0) + radio.attempts
            if ops and exp["view"] is None:
                # nothing was populated (cannot happen with the op lists generated here)
                return False
        # the entry of ANOTHER pairing that was in the file must still be there (read by an independent parser)
        if other_entry is not None:
            try:
                onfile = json.loads(path.read_bytes())["pairings"].get(OTHER_ID)
            except Exception as e:  # noqa: BLE001
                onfile = f"unreadable ({type(e).__name__})"
            if onfile != other_entry:
                out.violation("cache/other-pairing-lost", f"{step}: the cache entry of another pairing ({OTHER_ID}) that was in the file before is "
                              f"{'gone' if onfile is None else 'changed'} after {transport} pairing {pid} did {ops}", case)
                return False
        return True

    async def go():
        lives = case["ops"] + [[]]
        for n, ops in enumerate(lives, 1):
            if not await life(n, [tuple(o) for o in ops]):
                return
    try:
        loop.run_until_complete(go())
    except Exception as e:  # noqa: BLE001
        out.violation("cache/life-raises", f"a process life around the cache file (initially '{init}') raised {type(e).__name__}: {str(e)[:100]}", case)
    finally:
        restore()
        if own_loop:
            loop.close()
    return served


def rand_ops(rng, transport, dbnames, first):
    """one life's history of accessory-database updates, through the paths the transport has"""
    key = lambda: rng.choice([None, "%064x" % rng.getrandbits(256)])  # noqa: E731
    ops = []
    for j in range(rng.choice([1, 1, 2, 3])):
        if transport == "BLE":
            if first and j == 0 or rng.random() < 0.35:
                ops.append(("restore", rng.choice(dbnames), rng.randrange(1, 200), key(), rng.choice([None, 1, rng.randrange(1, 60000)])))
            else:
                ops.append(("adv", rng.randrange(1, 5)))
        else:
            r = rng.random()
            if r < 0.3:
                ops.append(("list", rng.choice(dbnames)))
            elif r < 0.5:
                ops.append(("populate", rng.choice(dbnames)))
            elif r < 0.75:
                ops.append(("mdns", rng.choice(dbnames), rng.randrange(1, 4)))
            else:
                ops.append(("restore", rng.choice(dbnames), rng.randrange(1, 60000), key(), rng.choice([None, rng.randrange(1, 60000)])))
    return [list(o) for o in ops]


def toplevel_cache(ctx, rng, loop, tmpdir):
    dbs = accessory_dbs()
    if not dbs:
        ctx.notes.append("toplevel-cache: no accessory database fixtures found")
        return
    names = [n for n, _ in dbs]
    transports = [t for t in ("IP", "CoAP", "BLE") if HAVE[t]]
    plan = [(init, t, "toplevel") for init in CACHE_INITS for t in transports]           # every initial state x transport through the top-level Controller
    plan += [(init, t, "backend:" + t) for init in ("none", "truncated", "warm-other") for t in transports]  # ... and with the cache handed straight to the backend
    for _ in range(ctx.budget(40, 600)):
        t = rng.choice(transports)
        plan.append((rng.choice(CACHE_INITS), t, rng.choice(["toplevel", "toplevel", "backend:" + t])))
    for i, (init, t, how) in enumerate(plan):
        pd = rand_pairing(rng, (i % 250) + 1, t)
        if t == "BLE":
            pd["AccessoryPairingID"] = pd["AccessoryPairingID"].upper()
        nlives = rng.choice([1, 1, 2])
        ops = [rand_ops(rng, t, names, first=(k == 0)) for k in range(nlives)]
        case = {"stream": "toplevel-cache", "init": init, "transport": t, "how": how, "pairing": pd, "ops": ops, "seed": rng.getrandbits(32)}
        out = Collector()
        cache_trial(out, loop, tmpdir, dbs, case)
        ctx.evaluations += nlives + 1
        ctx.nontrivial.add(("toplevel-cache", init, t, how, tuple(tuple(o[0] for o in life) for life in ops)))
        ctx.dist["toplevel-cache:" + how.split(":")[0]] += 1
        ctx.dist["toplevel-cache:init:" + init] += 1
        for life in ops:
            for o in life:
                ctx.dist[f"toplevel-cache:op:{t}:{o[0]}"] += 1
        for sig, what, c in out.found[:2]:
            ctx.violation(sig, what, c)
        if i == 0:
            ctx.sample(case)


# ---- histories of the numbers: state / configuration numbers that move in every direction, keys set / replaced / cleared ------

SN_EDGES = (1, 2, 3, 255, 256, 32767, 32768, 65533, 65534, 65535)
CN_EDGES = {"BLE": (1, 2, 3, 127, 128, 253, 254, 255), "IP": (1, 2, 3, 255, 256, 65533, 65534, 65535), "CoAP": (1, 2, 3, 255, 256, 65533, 65534, 65535)}
NUMBER_MODES = (("next", 35), ("same", 10), ("prev", 15), ("jump", 15), ("restarted", 10), ("edge", 15))


def ble_flavoured(dbs):
    """the databases of accessories that speak HAP-BLE (they carry the protocol-information service with its service
    signature characteristic), the way the GATT database fetch leaves them: event characteristics marked for
    broadcast / disconnected events"""
    from aiohomekit.uuid import normalize_uuid
    a2, a5 = normalize_uuid("A2"), normalize_uuid("A5")
    out = []
    for name, db in dbs:
        try:
            first = [a for a in db if a.get("aid") == 1]
            if not first or not any(normalize_uuid(sv["type"]) == a2 and any(normalize_uuid(ch["type"]) == a5 for ch in sv["characteristics"]) for sv in first[0]["services"]):
                continue
        except Exception:  # noqa: BLE001
            continue
        db2 = copy.deepcopy(db)
        for a in db2:
            for sv in a["services"]:
                for ch in sv["characteristics"]:
                    if "ev" in ch.get("perms", []):
                        ch["broadcast_events"] = True
                        ch["disconnected_events"] = True
        out.append(("ble:" + name, db2))
    return out


def next_number(rng, cur, top, edges):
    """(how, number): the way a counter an accessory shows moves on from `cur` - the successor (top rolls over to 1), the
    same number again, the predecessor (a late relay of an older advertisement), a jump ahead (wrapping), a counter that
    restarted (accessory reset), a number next to a boundary"""
    how = rng.choices([m for m, _ in NUMBER_MODES], [w for _, w in NUMBER_MODES])[0]
    edges = [e for e in edges if e <= top]
    if cur is None or not 1 <= cur <= top:
        cur = rng.choice(edges)
    if how == "next":
        n = gsn_succ(cur, top)
    elif how == "same":
        n = cur
    elif how == "prev":
        n = cur - 1 if cur > 1 else top
    elif how == "jump":
        n = (cur + rng.randrange(2, 4000) - 1) % top + 1
    elif how == "restarted":
        n = rng.choice([1, 1, 2, 3])
    else:
        n = rng.choice(edges)
    return how, n


def number_ops(rng, transport, radio, names, blenames, st, need_db):
    """one life's history for the 'cache-numbers' stream; `st` is the generator's own idea of the numbers shown last"""
    key = lambda: rng.choice([None, "%064x" % rng.getrandbits(256)])  # noqa: E731
    pick_sn = lambda: rng.choice([None] + list(SN_EDGES) * 2 + [rng.randrange(1, 65536) for _ in range(6)])  # noqa: E731
    ops = []
    st.update(sub=False, conn=False, tried=False)  # a new process
    for j in range(rng.choice([1, 2, 3, 3, 4, 5, 6])):
        r = rng.random()
        if transport == "BLE":
            if (need_db and j == 0) or (j == 0 and r < 0.25) or (radio != "in-range" and r < 0.12):
                cn = rng.choice(CN_EDGES["BLE"]) if rng.random() < 0.5 else rng.randrange(1, 256)
                sn = pick_sn()
                dbn = rng.choice(blenames) if blenames and (radio == "in-range" or rng.random() < 0.5) else rng.choice(names)
                ops.append(["restore", dbn, cn, key(), sn])
                st.update(sn=sn, cn=cn)
            elif radio == "in-range" and r < 0.55:
                # (the generator's guess of the link's state only steers the mix: events are worth most on a live, subscribed link)
                if st.get("sub") and st.get("conn"):
                    kinds = ["event"] * 5 + ["poll", "subscribe", "drop"]
                elif st.get("sub"):
                    kinds = ["poll"] * 4 + ["subscribe", "event", "drop"] + (["bcast"] * 4 if st.get("key") else [])
                else:
                    kinds = ["subscribe"] * 3 + ["poll"] * 2 + ["event", "drop"] + (["bcast"] * 2 if st.get("key") and not st.get("conn") else [])
                kind = rng.choice(kinds)
                ops.append({"poll": ["poll", rng.choice([False, False, True, True, "list"])], "subscribe": ["subscribe", rng.choice([1, 2, 3])], "event": ["event"], "drop": ["drop"], "bcast": ["bcast"]}[kind])
                if kind == "poll":
                    st.update(conn=True, tried=True, key=st.get("key") or st["sub"])
                elif kind == "subscribe":
                    st.update(sub=True, key=st.get("key") or st["conn"])
                elif kind == "drop":
                    st["conn"] = False
            elif r < 0.62:
                d = rng.randrange(1, 5)
                ops.append(["adv", d])
                st["sn"] = ((st["sn"] or 0) + d - 1) % 65535 + 1
                st["conn"] = st["conn"] or st["tried"]
            else:
                how, gsn = next_number(rng, st["sn"], 65535, SN_EDGES)
                chow, cn = "held", None
                if radio != "in-range" and rng.random() < 0.3:
                    chow, cn = next_number(rng, st["cn"], 255, CN_EDGES["BLE"])
                    st["cn"] = cn
                ops.append(["advn", gsn, cn, how, chow])
                st["sn"] = gsn
                st["conn"] = st["conn"] or st["tried"]
        else:
            if r < 0.2:
                cn = rng.choice(CN_EDGES[transport]) if rng.random() < 0.5 else rng.randrange(1, 65536)
                sn = pick_sn()
                ops.append(["restore", rng.choice(names), cn, key(), sn])
                st.update(sn=sn, cn=cn)
            elif r < 0.3:
                ops.append(["list", rng.choice(names)])
            elif r < 0.4:
                ops.append(["populate", rng.choice(names)])
            elif r < 0.5:
                ops.append(["mdns", rng.choice(names), rng.randrange(1, 4)])
            else:
                chow, cn = next_number(rng, st["cn"], 65535, CN_EDGES[transport])
                show, sn = next_number(rng, st["sn"], 65535, SN_EDGES)
                ops.append(["mdnsn", rng.choice(names), cn, sn, chow, show])
                st.update(sn=sn, cn=cn)
    return ops


def directed_number_histories(names, blenames):
    """the classes the property's 'state and configuration numbers' clause spans, once each whatever the seed: roll-over,
    a lower number (late relay, restarted counter), the same number, both numbers at once, keys set / cleared / replaced,
    the change in a later life than the database"""
    b = (blenames or names)[0]
    n0, n1 = names[0], names[-1]
    k1, k2 = "5a" * 32, "c3" * 32
    out = []
    if HAVE["BLE"]:
        o = "out-of-range"
        out += [
            ("none", "BLE", o, [[["restore", b, 4, k1, 65533], ["advn", 65534, None, "next", "held"], ["advn", 65535, None, "next", "held"], ["advn", 1, None, "next", "held"]]]),
            ("none", "BLE", o, [[["restore", b, 7, None, 500], ["advn", 499, None, "prev", "held"]]]),
            ("warm-other", "BLE", o, [[["restore", b, 7, k1, 40000], ["advn", 3, None, "restarted", "held"]]]),
            ("none", "BLE", o, [[["restore", b, 255, k1, 65535]], [["advn", 1, 1, "next", "next"]]]),
            ("warm-same", "BLE", o, [[["advn", 7, None, "edge", "held"], ["advn", 7, None, "same", "held"], ["advn", 6, None, "prev", "held"]]]),
            ("none", "BLE", o, [[["restore", b, 254, None, 10], ["advn", 11, 255, "next", "next"], ["advn", 12, 1, "next", "next"], ["advn", 12, 1, "same", "same"], ["advn", 11, 1, "prev", "same"]]]),
            ("none", "BLE", o, [[["restore", b, 9, k1, 5], ["restore", b, 9, None, 5], ["advn", 6, None, "next", "held"]], [["restore", b, 9, k2, 6], ["advn", 5, None, "prev", "held"]]]),
            ("none", "BLE", "in-range", [[["restore", b, 4, None, 65533], ["poll", False], ["subscribe", 2], ["event"], ["advn", 65535, None, "next", "held"], ["drop"], ["poll", True], ["advn", 1, None, "next", "held"]]]),
            ("warm-other", "BLE", "in-range", [[["restore", b, 4, k1, 65534], ["subscribe", 1], ["poll", False], ["event"], ["event"]], [["advn", 2, None, "restarted", "held"], ["poll", True]]]),
            ("none", "BLE", "in-range", [[["restore", b, 3, None, None], ["poll", True], ["subscribe", 3], ["drop"], ["advn", 9, None, "edge", "held"], ["advn", 8, None, "prev", "held"]]]),
            ("none", "BLE", "in-range", [[["restore", b, 6, None, 65534], ["subscribe", 2], ["poll", False], ["drop"], ["bcast"], ["bcast"], ["advn", 65535, None, "same", "held"]], [["bcast"], ["advn", 1, None, "next", "held"]]]),
        ]
    for t in ("IP", "CoAP"):
        if HAVE[t]:
            out += [
                ("none", t, None, [[["restore", n0, 65534, None, None], ["mdnsn", n1, 65535, 1, "next", "same"], ["mdnsn", n0, 1, 1, "next", "same"]]]),
                ("warm-same", t, None, [[["restore", n0, 9, k1, 77], ["mdnsn", n1, 9, 78, "same", "next"], ["mdnsn", n1, 8, 78, "prev", "same"], ["mdnsn", n0, 10, 65535, "next", "edge"]],
                                        [["mdnsn", n0, 10, 1, "same", "next"], ["mdnsn", n1, 3, 2, "restarted", "next"]]]),
            ]
    return out


def cache_numbers(ctx, rng, tmpdir):
    """stream 'cache-numbers': see RULE"""
    dbs = accessory_dbs()
    if not dbs:
        return
    names = [n for n, _ in dbs]
    blenames = [n for n, _ in ble_flavoured(dbs)]
    transports = [t for t in ("BLE", "BLE", "BLE", "IP", "CoAP") if HAVE[t]]
    plan = []
    for i, (init, t, radio, ops) in enumerate(directed_number_histories(names, blenames)):
        if radio == "in-range" and not blenames:
            continue
        plan.append((init, t, "toplevel" if i % 3 else "backend:" + t, radio, ("shutdown", "kill")[i % 2], ops))
    for _ in range(ctx.budget(70, 1500)):
        t = rng.choice(transports)
        init = rng.choice(["none", "none", "warm-other", "warm-same", "warm-same", rng.choice(CACHE_INITS)])
        radio = rng.choice(["out-of-range", "in-range"] if blenames else ["out-of-range"]) if t == "BLE" else None
        st = {"sn": None, "cn": 1 if init == "warm-same" else None}
        ops = [number_ops(rng, t, radio, names, blenames, st, need_db=(k == 0 and t == "BLE" and init != "warm-same")) for k in range(rng.choice([1, 1, 2, 2, 3]))]
        plan.append((init, t, rng.choice(["toplevel", "toplevel", "backend:" + t]), radio, rng.choice(["shutdown", "kill"]), ops))
    for i, (init, t, how, radio, teardown, ops) in enumerate(plan):
        pd = rand_pairing(rng, (i % 250) + 1, t)
        if t == "BLE":
            pd["AccessoryPairingID"] = pd["AccessoryPairingID"].upper()
        case = {"stream": "cache-numbers", "init": init, "transport": t, "how": how, "radio": radio, "teardown": teardown, "pairing": pd, "ops": ops, "seed": rng.getrandbits(32)}
        out = Collector()
        served = cache_trial(out, None, tmpdir, dbs, case) or {}
        ctx.evaluations += len(ops) + 1
        ctx.nontrivial.add(("cache-numbers", init, t, how, radio, teardown, tuple(tuple(":".join([o[0]] + [str(x) for x in o[3:] if o[0] == "advn"] + [str(x) for x in o[4:] if o[0] == "mdnsn"]) for o in life) for life in ops)))
        ctx.dist[f"cache-numbers:{t}" + (":" + radio if radio else "")] += 1
        ctx.dist["cache-numbers:teardown:" + teardown] += 1
        ctx.dist["cache-numbers:lives:%d" % len(ops)] += 1
        for life in ops:
            for o in life:
                ctx.dist[f"cache-numbers:op:{t}:{o[0]}"] += 1
                if o[0] == "advn":
                    ctx.dist["cache-numbers:s#:" + o[3]] += 1
                    ctx.dist["cache-numbers:c#:" + o[4]] += 1
                elif o[0] == "mdnsn":
                    ctx.dist["cache-numbers:c#:" + o[4]] += 1
                    ctx.dist["cache-numbers:s#:" + o[5]] += 1
        for k, v in served.items():
            ctx.dist["cache-numbers:radio:" + k] += v
        for sig, what, c in out.found[:2]:
            ctx.violation(sig, what, c)
        if i == 0:
            ctx.sample(case)


# ---- lives in which little or nothing is heard of the accessory: what a restarted pairing works with comes from the cache alone --------

def quiet_ops(rng, radio, blenames, names, st, first):
    """one life's history for the 'cache-quiet' stream (BLE)"""
    key = lambda: rng.choice([None, "%064x" % rng.getrandbits(256), "%064x" % rng.getrandbits(256), "%064x" % rng.getrandbits(256)])  # noqa: E731
    ops = []
    if first:
        cn = rng.choice(CN_EDGES["BLE"]) if rng.random() < 0.4 else rng.randrange(1, 256)
        sn = rng.choice([None, cn, cn + 1] + list(SN_EDGES) + [rng.randrange(1, 65536) for _ in range(12)])
        dbn = rng.choice(blenames) if blenames and (radio == "in-range" or rng.random() < 0.6) else rng.choice(names)
        ops.append(["restore", dbn, cn, key(), sn])
        st.update(sn=sn, cn=cn)
    for j in range(rng.choice([0, 0, 1, 1, 2, 3] if first else [0, 1, 1, 2, 2, 3, 4])):
        r = rng.random()
        if not first and j == 0 and r < 0.3:
            ops.append(["bcastq"])  # (the first thing heard after the restart is worth most)
        elif r < 0.30:
            ops.append(["pollq", rng.choice([False, True, True, "list"])])
        elif r < 0.50:
            ops.append(["bcastq"])
        elif r < 0.60:
            ops.append(["pollw", rng.choice([False, True])])
        elif r < 0.75:
            how, gsn = next_number(rng, st["sn"], 65535, SN_EDGES)
            ops.append(["advn", gsn, None, how, "held"])
            st["sn"] = gsn
        elif r < 0.80:
            d = rng.randrange(1, 5)
            ops.append(["adv", d])
            st["sn"] = ((st["sn"] or 0) + d - 1) % 65535 + 1
        elif r < 0.86:
            cn = rng.randrange(1, 256)
            sn = rng.choice([None] + [rng.randrange(1, 65536) for _ in range(5)])
            dbn = rng.choice(blenames) if blenames and (radio == "in-range" or rng.random() < 0.6) else rng.choice(names)
            ops.append(["restore", dbn, cn, key(), sn])
            st.update(sn=sn, cn=cn)
        elif radio == "in-range":
            ops.append(rng.choice([["poll", False], ["poll", True], ["subscribe", rng.choice([1, 2])], ["event"], ["drop"], ["bcast"]]))
        else:
            ops.append(["pollq", rng.choice([False, True])])
    return ops


def directed_quiet_histories(names, blenames):
    """(init, radio, load, seen_first per life, ops per life): once each whatever the seed"""
    b = (blenames or names)[0]
    k1, k2 = "5a" * 32, "c3" * 32
    out = []
    for radio in ("out-of-range", "in-range"):
        out += [
            ("none", radio, "load_pairing", [None, None], [[["restore", b, 2, k1, 1234]]]),
            ("none", radio, "load_data", [None, None, None], [[["restore", b, 2, k1, 1234]], [["pollq", True]]]),
            ("warm-other", radio, "load_pairing", [None, None, None], [[["restore", b, 3, k1, 40000]], [["bcastq"], ["pollq", False]]]),
            ("none", radio, "load_data", [None, None, None, None], [[["restore", b, 255, k2, 300]], [["pollq", False], ["bcastq"], ["bcastq"]], [["bcastq"]]]),
            ("warm-same", radio, "load_pairing", [None, None, None], [[["restore", b, 9, None, 17]], [["pollw", True]]]),
            ("none", radio, "load_pairing", [None, "same", None], [[["restore", b, 5, k1, 65534]], [["pollq", True], ["bcastq"]]]),
            ("none", radio, "load_data", [None, "moved", None, "same"], [[["restore", b, 1, k2, 1]], [["pollq", False]], []]),
            ("none", radio, "load_pairing", [None, None, None], [[["restore", b, 7, k1, 7]], [["bcastq"]]]),
            ("none", radio, "load_pairing", [None, None, None], [[["restore", b, 4, k1, None]], [["pollq", True], ["bcastq"]]]),
            ("none", radio, "load_pairing", [None, None, None, None], [[["restore", b, 200, k1, 100], ["advn", 101, None, "next", "held"]], [], [["pollw", False], ["advn", 102, None, "next", "held"]]]),
        ]
    return out


def cache_quiet(ctx, rng, tmpdir):
    """stream 'cache-quiet': see RULE"""
    if not HAVE["BLE"]:
        ctx.notes.append("cache-quiet: this installation has no BLE transport")
        return
    dbs = accessory_dbs()
    if not dbs:
        return
    names = [n for n, _ in dbs]
    blenames = [n for n, _ in ble_flavoured(dbs)]
    plan = []
    for i, (init, radio, load, seen, ops) in enumerate(directed_quiet_histories(names, blenames)):
        if radio == "in-range" and not blenames:
            continue
        plan.append((init, "backend:BLE" if i % 4 == 3 and load == "load_pairing" else "toplevel", radio, ("shutdown", "kill")[i % 2], load, seen, ops, True))
    for _ in range(ctx.budget(60, 1200)):
        init = rng.choice(["none", "none", "warm-other", "warm-same", rng.choice(CACHE_INITS)])
        radio = rng.choice(["out-of-range", "in-range"] if blenames else ["out-of-range"])
        st = {"sn": None, "cn": 1 if init == "warm-same" else None}
        nl = rng.choice([1, 2, 2, 3])
        ops = [quiet_ops(rng, radio, blenames, names, st, first=(k == 0)) for k in range(nl)]
        seen = [None] + [rng.choice([None, None, None, None, "same", "moved"]) for _ in range(nl)]
        how = rng.choice(["toplevel", "toplevel", "toplevel", "backend:BLE"])
        plan.append((init, how, radio, rng.choice(["shutdown", "kill"]), rng.choice(["load_pairing", "load_data"]) if how == "toplevel" else "load_pairing", seen, ops, rng.random() < 0.75))
    for i, (init, how, radio, teardown, load, seen, ops, listen) in enumerate(plan):
        pd = rand_pairing(rng, (i % 250) + 1, "BLE")
        pd["AccessoryPairingID"] = pd["AccessoryPairingID"].upper()
        case = {"stream": "cache-quiet", "init": init, "transport": "BLE", "how": how, "radio": radio, "teardown": teardown, "load": load, "seen_first": seen, "listen": listen,
                "acc_key_from_restore": True, "pairing": pd, "ops": ops, "seed": rng.getrandbits(32)}
        out = Collector()
        served = cache_trial(out, None, tmpdir, dbs, case) or {}
        ctx.evaluations += len(ops) + 1
        ctx.nontrivial.add(("cache-quiet", init, how, radio, teardown, load, tuple(seen), tuple(tuple(o[0] for o in life) for life in ops)))
        ctx.dist["cache-quiet:" + radio] += 1
        ctx.dist["cache-quiet:load:" + load] += 1
        ctx.dist["cache-quiet:lives:%d" % len(ops)] += 1
        for sf in seen:
            ctx.dist["cache-quiet:heard-before-load:" + str(sf or "nothing")] += 1
        for life in ops:
            if not life:
                ctx.dist["cache-quiet:op:(silent life)"] += 1
            for o in life:
                ctx.dist["cache-quiet:op:" + o[0]] += 1
        for k, v in served.items():
            ctx.dist["cache-quiet:radio:" + k] += v
        for sig, what, c in out.found[:2]:
            ctx.violation(sig, what, c)
        if i == 0:
            ctx.sample(case)


# ---- caller-chosen strings that become keys or file-name components: aliases, file names, cache keys -------------------------

def _nfd(xs):
    return [unicodedata.normalize("NFD", x) for x in xs]


_COMPOSED = ["\u00fc", "\u00e9", "\u00c5", "\u00f1", "\u01d6", "\u1ec7", "\u00f6", "\u00c7", "\u1e69", "\u0439"]
_HANGUL = ["\ud55c", "\uae00", "\uac00", "\ud7a3"]
STR_ATOMS = {
    "ascii": ["a", "Z", "kitchen", "Lamp", "x1", "0", "q", "Flur", "sensor-2", "_"],
    "composed": _COMPOSED,                                   # precomposed letters (NFC) ...
    "decomposed": _nfd(_COMPOSED),                           # ... and the same letters as base + combining marks (NFD; what macOS produces)
    "singleton": ["\u2126", "\u212b", "\u212a", "\u0340", "\u0343", "\u0374", "\u037e", "\u1fbe", "\u2000", "\u2329", "\uf900", "\ufa10", "\U0002f800"],  # one code point whose canonical form is ANOTHER code point
    "comp-excl": ["\u0958", "\u09dc", "\u0f43", "\ufb1d", "\u2adc", "\U0001d15e"],  # composition exclusions: NFC DEcomposes them
    "hangul": _HANGUL,
    "jamo": _nfd(_HANGUL),
    "reorder": ["q\u0307\u0323", "q\u0323\u0307", "a\u0315\u0300\u05ae\u0062", "\u0061\u0328\u0301", "\u0061\u0301\u0328"],  # combining marks whose canonical order differs
    "compat": ["\ufb01", "\uff21", "\u00b2", "\u00bd", "\u338f", "\u2460", "\ufdfa", "\uff76", "\u00b5", "\u017f", "\u0133", "\u01c6", "\u2122", "\u2026", "\u1e9b", "\uff0f", "\uff02"],  # change under NFKC only
    "case": ["\u00df", "\u1e9e", "SS", "ss", "\u0130", "\u0131", "I", "i", "\u01c5", "\u03a3", "\u03c3", "\u03c2", "\u0149", "\ufb00", "\u1f88", "\u0345", "Kitchen", "KITCHEN"],  # case pairs that are not 1:1
    "lookalike": ["A", "\u0410", "\u0391", "o", "\u043e", "\u03bf", "e", "\u0435", "l", "1", "\u2113", "|", "\u0131", "\u0269"],
    "space": [" ", "  ", "\t", "\n", "\r", "\r\n", "\u00a0", "\u2003", "\u3000", "\u200b", "\u200d", "\ufeff", "\u2028", "\u2060", "\u00ad", "\u0085"],
    "json": ['"', "\\", "/", "{", "}", "[", "]", ":", ",", "\\u0041", "\\n", '\\"', "//", "/*", "*/", "#", "'", "\\u00fc", "\\ud83d", '":{"', '"}'],
    "control": ["\x00", "\x01", "\x08", "\x0c", "\x1b", "\x1f", "\x7f", "\u009f"],
    "path": ["/", "..", "../", "\\", ".", "~", "C:\\", "/etc/", "*", "?", "|", "<", ">", "%2F", "%00", "$HOME", "`", ".json", ".tmp"],
    "nonbmp": ["\U0001f4a1", "\U0001d49c", "\U0001f468\u200d\U0001f469\u200d\U0001f467", "\U0001f1e9\U0001f1ea", "\U0001f44d\U0001f3fd", "\U000e0041", "\U0010ffff", "\U00020000", "\u2615\ufe0f", "\u2615"],
    "bidi": ["\u202e", "\u200f", "\u0622", "\u0627\u0653", "\u05e9\u05c1\u05c2", "\u05e9\u05c2\u05c1", "\u0644\u0627", "\ufefb"],
    "nonchar": ["\ufffe", "\uffff", "\ufdd0", "\ufffd", "\ue000"],
    "literal": ["null", "true", "NaN", "__proto__", "constructor", "-1", "1e3", "0.0", "\u0660", "\uff10", "None", "alias"],
}
_LOOKALIKE = {"A": "\u0410\u0391", "a": "\u0430", "B": "\u0412\u0392", "c": "\u0441", "C": "\u0421", "e": "\u0435", "E": "\u0415\u0395", "H": "\u041d\u0397", "i": "\u0456\u0131", "I": "\u0406\u0399l", "K": "\u212a\u041a\u039a",
              "l": "I1\u2113", "o": "\u043e\u03bf0", "O": "\u041e\u039f0", "p": "\u0440", "P": "\u0420\u03a1", "s": "\u0455", "T": "\u0422\u03a4", "x": "\u0445", "y": "\u0443", "0": "O\u0660", "1": "l", "-": "\u2010\u2212\u2013", " ": "\u00a0\u2003",
              "\u03a9": "\u2126", "\u2126": "\u03a9", "\u00c5": "\u212b", "\u00b5": "\u03bc", "\u03bc": "\u00b5", ";": "\u037e", "/": "\u2215\uff0f", '"': "\u201c\uff02", "'": "\u2019"}

# the classes the clause 'unicode aliases' spans, once each whatever the seed: strings that are equal under SOME normalisation
# (canonical / compatibility composition, case folding, trimming, look-alike characters, escaping) but different as strings
STRING_FAMILIES = [
    ("nfc-nfd", ["K\u00fcche", "Ku\u0308che"]),
    ("nfc-nfd-double", ["\u01d6", "\u00fc\u0304", "u\u0308\u0304"]),
    ("singleton", ["Boiler 10 k\u2126", "Boiler 10 k\u03a9"]),
    ("singleton-angstrom", ["\u212b", "\u00c5", "A\u030a"]),
    ("cjk-compat", ["\uf900", "\u8c48", "\U0002f800", "\u4e3d"]),
    ("composition-exclusion", ["\u0958", "\u0915\u093c", "\ufb1d", "\u05d9\u05b4"]),
    ("hangul", ["\ud55c\uae00", "\u1112\u1161\u11ab\u1100\u1173\u11af"]),
    ("reorder", ["q\u0307\u0323", "q\u0323\u0307", "\u1e0b\u0323"]),
    ("nfkc", ["\ufb01n", "fin", "\uff21\uff22", "AB", "m\u00b2", "m2"]),
    ("nfkc-nonbmp", ["\U0001d49c", "A", "\U0001d7d8", "0"]),
    ("case", ["Kitchen", "kitchen", "KITCHEN"]),
    ("sharp-s", ["Stra\u00dfe", "STRASSE", "strasse", "Stra\u1e9ee"]),
    ("dotless-i", ["I\u015f\u0131k", "\u0130\u015fik", "i\u015fik", "i\u0307\u015fik"]),
    ("final-sigma", ["\u03a3\u0391\u03a3", "\u03c3\u03b1\u03c3", "\u03c3\u03b1\u03c2"]),
    ("lookalike", ["Alpha", "\u0410lpha", "\u0391lpha", "AIpha"]),
    ("whitespace", ["a b", " a b", "a b ", "a\u00a0b", "a  b", "a\tb", "a\nb"]),
    ("blank", ["", " ", "\u200b", "\t", "\u00a0", "\ufeff"]),
    ("zero-width", ["lamp", "lamp\u200b", "la\u00admp", "\ufefflamp", "la\u200dmp"]),
    ("variation-selector", ["\u2615", "\u2615\ufe0f", "\u2615\ufe0e"]),
    ("emoji", ["\U0001f4a1", "\U0001f4a1\U0001f4a1", "\U0001f468\u200d\U0001f469\u200d\U0001f467", "\U0001f468\U0001f469\U0001f467"]),
    ("control", ["a", "a\x00", "a\x00b", "\x00a", "a\x1f", "a\x7f"]),
    ("json-special", ['a"b', 'a\\"b', "a\\u0022b", "a\\\\b", "a\\b", "a/b", "a\\/b"]),
    ("json-structure", ['{"x":1}', "[]", "null", "true", '"', '":{"Connection":"IP"},"x', "a,b", "a:b"]),
    ("escaped-spelling", ["\u00fc", "\\u00fc", "\\u00FC", "\U0001f4a1", "\\ud83d\\udca1"]),
    ("path-like", ["a/b", "a\\b", "../a", "a/../b", "./a", "/a", "a/", "~a", "."]),
    ("numeric", ["0", "00", "0.0", "\u0660", "\uff10", "-0", "1e0", "1"]),
    ("long", ["x" * 4096, "x" * 4095 + "X", "x" * 4097, "u\u0308" * 2000, "\u00fc" * 2000, "\U0001f4a1" * 17000]),
    ("nonchar", ["\uffff", "\ufffe", "\ufffd", "\ue000", "\U0010ffff"]),
    ("bidi", ["abc", "\u202eabc", "abc\u200f", "\u0622", "\u0627\u0653", "\u0644\u0627", "\ufefb"]),
]


def string_variants(s):
    """{how: t}: strings that a normalising / folding / trimming / escaping step would map `s` to or identify with `s`,
    and that differ from `s` as strings"""
    import urllib.parse
    n = unicodedata.normalize
    v = {f: n(f, s) for f in ("NFC", "NFD", "NFKC", "NFKD")}
    v.update({"casefold": s.casefold(), "lower": s.lower(), "upper": s.upper(), "title": s.title(), "swapcase": s.swapcase(), "capitalize": s.capitalize(),
              "nfkc-casefold": n("NFKC", n("NFKC", s).casefold()), "nfd-upper": n("NFD", s).upper(), "nfc-lower": n("NFC", s.lower()),
              "strip": s.strip(), "rstrip": s.rstrip(), "collapse": " ".join(s.split()), "space+": s + " ", "+space": " " + s, "nbsp": s.replace(" ", "\u00a0"), "newline+": s + "\n",
              "zwsp+": s + "\u200b", "+bom": "\ufeff" + s, "shy": s[:1] + "\u00ad" + s[1:], "vs16+": s + "\ufe0f", "zwj": s[:1] + "\u200d" + s[1:],
              "nul+": s + "\x00", "nul-cut": s.split("\x00")[0], "no-control": "".join(c for c in s if unicodedata.category(c) not in ("Cc", "Cf")),
              "json-escaped": json.dumps(s)[1:-1], "json-escaped-raw": json.dumps(s, ensure_ascii=False)[1:-1],
              "mojibake": s.encode("utf-8").decode("latin-1"), "percent": urllib.parse.quote(s, safe=""), "unquote": urllib.parse.unquote(s),
              "slash": s.replace("\\", "/"), "basename": s.replace("\\", "/").rsplit("/", 1)[-1], "normpath": os.path.normpath(s) if s else s,
              "cut255": s[:255], "cut255-bytes": s.encode("utf-8")[:255].decode("utf-8", "ignore"), "cut64": s[:64],
              "ascii-only": s.encode("ascii", "ignore").decode(), "no-marks": "".join(c for c in n("NFD", s) if not unicodedata.combining(c)),
              "bmp-only": "".join(c for c in s if ord(c) < 0x10000)})
    for i, ch in enumerate(s):
        if ch in _LOOKALIKE:
            for j, alt in enumerate(_LOOKALIKE[ch][:3]):
                v[f"lookalike{j}"] = s[:i] + alt + s[i + 1:]
            break
    return {how: t for how, t in v.items() if t != s}


def gen_string(rng):
    """(classes, string): a caller-chosen name - plain ASCII now and then, otherwise atoms of one to three character classes
    between bits of ASCII; sometimes long"""
    r = rng.random()
    if r < 0.08:
        return ("ascii",), rng.choice(STR_ATOMS["ascii"]) + rng.choice(["", "-1", " 2", "_b"])
    classes = rng.sample(sorted(STR_ATOMS), rng.choice([1, 1, 1, 2, 2, 3]))
    parts = []
    for _ in range(rng.choice([1, 1, 2, 2, 3, 4, 6])):
        parts.append(rng.choice(STR_ATOMS[rng.choice(classes)]))
        if rng.random() < 0.5:
            parts.append(rng.choice(STR_ATOMS["ascii"] + STR_ATOMS["case"][-2:] + [" ", "-", " "]))
    rng.shuffle(parts)
    s = "".join(parts)
    if rng.random() < 0.06:
        s = s * rng.choice([40, 300, 2000])
        classes = classes + ["long"]
    return tuple(sorted(classes)), s


def gen_family(rng, size, base=None):
    """(label, members): `size` different strings that some normalisation identifies (the base string, variants of it and -
    now and then - variants of a variant)"""
    classes, s = base if base is not None else gen_string(rng)
    members, hows = [s], []
    pool = sorted(string_variants(s).items())
    rng.shuffle(pool)
    while pool and len(members) < size:
        how, t = pool.pop()
        if t in members:
            continue
        members.append(t)
        hows.append(how)
        if rng.random() < 0.25:
            more = sorted((h, u) for h, u in string_variants(t).items() if u not in members)
            if more:
                h2, u = rng.choice(more)
                pool.append((how + ">" + h2, u))
    if size > 1 and rng.random() < 0.3:
        members = members[1:]  # the family without the string it was derived from
    rng.shuffle(members)
    return "+".join(classes) + ("/" + ",".join(hows) if hows else ""), members


def fs_component(s, fallback="f"):
    """a file-name component made from a generated string: what no POSIX file name can hold (NUL, '/') is dropped, '.' / '..' /
    '' are prefixed, the UTF-8 encoding is kept under 120 bytes (room for the library's own suffixes)"""
    s = s.replace("/", "").replace("\x00", "")
    out, n = [], 0
    for ch in s:
        n += len(ch.encode("utf-8"))
        if n > 120:
            break
        out.append(ch)
    s = "".join(out)
    return fallback + s if s in ("", ".", "..") else s


def mixed_case(rng, s, mode):
    return {"upper": s.upper(), "lower": s.lower()}.get(mode) or "".join(c.upper() if rng.random() < 0.5 else c.lower() for c in s)


def tiny_db(marker, n):
    """a small accessory database whose values name their owner"""
    u = "%08X-0000-1000-8000-0026BB765291"
    return [{"aid": 1, "services": [
        {"iid": 1, "type": u % 0x3E, "characteristics": [
            {"iid": 2, "type": u % 0x23, "perms": ["pr"], "format": "string", "value": marker},
            {"iid": 3, "type": u % 0x30, "perms": ["pr"], "format": "string", "value": "sn-%d" % n},
            {"iid": 4, "type": u % 0x14, "perms": ["pw"], "format": "bool"}]},
        {"iid": 8, "type": u % 0x43, "characteristics": [
            {"iid": 9, "type": u % 0x25, "perms": ["pr", "pw", "ev"], "format": "bool", "value": bool(n % 2)},
            {"iid": 10, "type": u % 0x08, "perms": ["pr", "pw", "ev"], "format": "int", "value": n % 101, "minValue": 0, "maxValue": 100, "minStep": 1, "unit": "percentage"}]}]}]


def tiny_view(pairing):
    if pairing.accessories is None:
        return None
    ser = pairing.accessories.serialize()
    key = pairing.broadcast_key
    try:
        marker = [c.get("value") for a in ser for s in a["services"] for c in s["characteristics"] if (a["aid"], c["iid"]) == (1, 2)]
    except Exception:  # noqa: BLE001
        marker = ["<unreadable>"]
    return [marker[0] if marker else None, pairing.config_num, key.hex() if isinstance(key, (bytes, bytearray)) else key, pairing.state_num]


def show_keys(keys, limit=6):
    keys = list(keys)
    return "[" + ", ".join(ascii(k) if len(k) <= 40 else ascii(k[:24]) + f"...({len(k)} chars)" for k in keys[:limit]) + (f", ... {len(keys)} in all" if len(keys) > limit else "") + "]"


def diff_keyed(got, want):
    """`got` against the harness's record `want` (both {alias: record}): every alias present under exactly its own string, with
    exactly its own record, nothing else"""
    missing = [a for a in want if a not in got]
    extra = [a for a in got if a not in want]
    if missing:
        m = missing[0]
        near = [e for e in extra if set(string_variants(m).values()) & ({e} | set(string_variants(e).values()))] or \
               [a for a in got if a in want and got[a].get("AccessoryPairingID") == want[m].get("AccessoryPairingID")]
        return (f"the pairing saved under {ascii(m) if len(m) <= 60 else ascii(m[:40]) + '...'} (Connection={want[m].get('Connection')!r}, AccessoryPairingID={want[m].get('AccessoryPairingID')}) is not found under that alias; "
                f"present: {show_keys(got)}" + (f" - its record or an equivalent spelling sits under {show_keys(near, 2)}" if near else "")
                + (f"; {len(want) - len(got)} pairing(s) fewer than were saved" if len(got) < len(want) else ""))
    if extra:
        return f"an alias that was never saved is present: {show_keys(extra, 3)}"
    for a in want:
        if got[a] != want[a]:
            ks = sorted(k for k in set(got[a]) | set(want[a]) if got[a].get(k, UNKNOWN) != want[a].get(k, UNKNOWN))
            owner = [b for b in want if b != a and want[b].get("AccessoryPairingID") == got[a].get("AccessoryPairingID")]
            return (f"alias {show_keys([a], 1)}: field(s) {ks} are {[got[a].get(k, '<absent>') for k in ks][:3]} instead of {[want[a].get(k, '<absent>') for k in ks][:3]}"
                    + (f" - that is the record saved under {show_keys(owner, 1)}" if owner else ""))
    return None


async def _end_of_process():
    me = asyncio.current_task()
    rest = [t for t in asyncio.all_tasks() if t is not me and not t.done()]
    for t in rest:
        t.cancel()
    if rest:
        await asyncio.gather(*rest, return_exceptions=True)


def keys_trial(out, loop, tmpdir, case):
    """stream 'key-strings': pairings under caller-chosen aliases (case['records'] = [alias, pairing record, life in which it
    is added, [marker, c#, key, s#] or None]) are written to a pairing file with a caller-chosen name (by the library - load_pairing
    + save_data - or by an independent writer), then process lives of the real top-level Controller follow: load (load_data /
    load_pairing per record), [add the records of this life through load_pairing], [save_data].  The harness's own record says
    what every life must hold and what every rewrite must leave on file: exactly the aliases saved so far - the very strings -
    each with exactly its own record (and, with a cache file, its own accessory database, numbers and key)."""
    rng = random.Random(case["seed"])
    records = [(a, pd, int(k), db) for a, pd, k, db in case["records"]]
    base = os.path.join(tmpdir, "keys")
    shutil.rmtree(base, ignore_errors=True)
    os.makedirs(base)
    folder = os.path.join(base, *case.get("dir", []))
    target = os.path.join(folder, case.get("fname", "pairing.json"))
    cache_path = pathlib.Path(base, case["cache"]) if case.get("cache") else None
    sibling = case.get("sibling")
    sib_path = sib_bytes = None
    shown = ascii("/".join(case.get("dir", []) + [case.get("fname", "pairing.json")]))
    restore = quiet_logs()
    want = {}      # alias -> record: the harness's record of what has been saved
    dbs = {}       # alias -> [marker, c#, key, s#] once handed to the pairing
    done = [0]     # lives that were lived to their end

    def expect(alias, pd):
        want[alias] = {**pd, "Connection": pd.get("Connection", "IP")}

    def on_file(step):
        try:
            with builtins.open(target, "rb") as fp:
                data = json.loads(fp.read().decode("utf-8"))
            return diff_keyed(data, want) if isinstance(data, dict) else "the file is not a JSON object"
        except Exception as e:  # noqa: BLE001
            return f"the file cannot be read back by an independent parser ({type(e).__name__}: {str(e)[:60]})"

    def controller_cache():
        return CharacteristicCacheFile(cache_path) if cache_path is not None else "default"

    async def life0():
        nonlocal sib_path, sib_bytes
        if case["writer"] != "library" or sibling:
            os.makedirs(folder, exist_ok=True)   # (otherwise the folder is save_data's to create)
        first = [(a, pd) for a, pd, k, _ in records if k == 0]
        if sibling:
            sib_path = os.path.join(folder, sibling[0])
            sib_bytes = json.dumps({a: pd for a, pd in sibling[1]}, ensure_ascii=False).encode("utf-8")
            with builtins.open(sib_path, "wb") as fp:
                fp.write(sib_bytes)
        if case["writer"] == "library":
            async with process_life("toplevel") as c0:
                try:
                    for alias, pd in first:
                        c0.load_pairing(alias, copy.deepcopy(pd))
                        expect(alias, pd)
                    c0.save_data(target)
                except Exception as e:  # noqa: BLE001
                    out.violation("alias/save-raises", f"life 0: load_pairing + save_data of valid pairing records under the aliases {show_keys(a for a, _ in first)} raised {type(e).__name__}: {str(e)[:80]}", case)
                    return False
                await _end_of_process()
            bad = on_file("life 0")
            if bad:
                out.violation("alias/save-loses-pairing", f"life 0 (load_pairing x{len(first)} + save_data to {shown}): the pairing file does not hold what was saved: {bad}", case)
                return False
        else:
            for alias, pd in first:
                expect(alias, pd)
            text = json.dumps({a: pd for a, pd in first}, ensure_ascii=case["writer"] == "json-ascii", indent=rng.choice([None, 2, 4]), sort_keys=rng.random() < 0.3)
            with builtins.open(target, "wb") as fp:
                fp.write(text.encode("utf-8"))
        done[0] += 1
        return True

    async def life(n, load, save):
        try:
            cache = controller_cache()
        except Exception as e:  # noqa: BLE001
            out.violation("cache/start-up-raises", f"life {n}: CharacteristicCacheFile({ascii(case.get('cache'))}) on the file the previous life wrote raised {type(e).__name__}: {str(e)[:80]}", case)
            return False
        async with process_life("toplevel", cache) as c:
            writer = "an earlier life's save_data" if any(sv for _, sv in case["lives"][:n - 1]) else {"library": "life 0's save_data"}.get(case["writer"], "an independent JSON writer")
            step = f"life {n} ({load}{'+save_data' if save else ''}; file {shown} written by {writer})"
            try:
                if load == "load_data":
                    c.load_data(target)
                else:
                    with builtins.open(target, "rb") as fp:
                        data = json.loads(fp.read().decode("utf-8"))
                    for alias, pd in data.items():
                        c.load_pairing(alias, pd)
            except Exception as e:  # noqa: BLE001
                out.violation("alias/load-raises", f"{step}: loading the saved pairings {show_keys(want)} raised {type(e).__name__}: {str(e)[:80]}", case)
                return False

            def held():
                return {alias: dict(p.pairing_data) for alias, p in c.aliases.items()}
            bad = diff_keyed(held(), want)
            if bad:
                out.violation("alias/pairing-not-read-back", f"{step}: {len(want)} pairings saved under {show_keys(want)}: after the restart {bad}", case)
                if not save:
                    return False
            # the accessory databases the earlier lives handed to these pairings
            if cache_path is not None and not bad:
                for alias, dbrec in dbs.items():
                    got = tiny_view(c.aliases[alias])
                    if got != dbrec:
                        out.violation("alias/cache-entry-not-read-back", f"{step}: the pairing under {show_keys([alias], 1)} (AccessoryPairingID {want[alias]['AccessoryPairingID']!r}) was given the accessory database "
                                      f"[marker, c#, key, s#] = {dbrec} in an earlier life; after the restart it holds {got}", case)
                        return False
            # this life's additions: another device is paired / added under a new alias
            try:
                for alias, pd, k, _ in records:
                    if k == n:
                        c.load_pairing(alias, copy.deepcopy(pd))
                        expect(alias, pd)
            except Exception as e:  # noqa: BLE001
                out.violation("alias/load-pairing-raises", f"{step}: load_pairing of a valid record under a new alias raised {type(e).__name__}: {str(e)[:80]}", case)
                return False
            if not bad:
                bad = diff_keyed(held(), want)
                if bad:
                    out.violation("alias/pairing-displaced", f"{step}: after adding {show_keys([a for a, _, k, _ in records if k == n])} through load_pairing: {bad}", case)
                    if not save:
                        return False
            if cache_path is not None and not bad:
                try:
                    for alias, pd, k, dbrec in records:
                        if dbrec is not None and alias not in dbs and k <= n:
                            marker, cn, key, sn = dbrec
                            c.aliases[alias].restore_accessories_state(tiny_db(marker, cn), cn, bytes.fromhex(key) if key else None, sn)
                            dbs[alias] = list(dbrec)
                except Exception as e:  # noqa: BLE001
                    out.violation("cache/update-raises", f"{step}: restore_accessories_state on the pairing under {show_keys([alias], 1)} raised {type(e).__name__}: {str(e)[:80]}", case)
                    return False
            ok = not bad
            if save:
                try:
                    c.save_data(target)
                except Exception as e:  # noqa: BLE001
                    out.violation("alias/save-raises", f"{step}: save_data raised {type(e).__name__}: {str(e)[:80]}", case)
                    return False
                badf = on_file(step)
                if badf:
                    out.violation("alias/rewrite-loses-pairing", f"{step}: the rewritten pairing file no longer holds what was saved ({len(want)} pairings under {show_keys(want)}): {badf}", case)
                    ok = False
            await _end_of_process()
        done[0] += 1
        return ok

    async def go():
        if not await life0():
            return
        for n, (load, save) in enumerate(case["lives"], 1):
            if not await life(n, load, save):
                return
        if sib_path is not None:
            try:
                with builtins.open(sib_path, "rb") as fp:
                    now = fp.read()
            except OSError as e:
                now = f"<{type(e).__name__}>".encode()
            if now != sib_bytes:
                out.violation("alias/other-file-changed", f"another pairing file in the same folder, {ascii(sibling[0])} (the file used is {shown}), was "
                              f"{'removed' if now.startswith(b'<') else 'changed'} by the saves", case)
    try:
        loop.run_until_complete(go())
    except Exception as e:  # noqa: BLE001
        out.violation("alias/start-up-raises", f"starting / stopping the Controller around the pairing file with {show_keys(a for a, *_ in records)} raised {type(e).__name__}: {str(e)[:80]}", case)
    finally:
        restore()
    return done[0]


def key_string_cases(ctx, rng):
    """(label, case) for the stream 'key-strings': every directed family all together and one member at a time, then random
    sets of one to three families (two or three equivalent spellings each) plus unrelated aliases"""
    kinds = [k for k in ("IP", "CoAP", "BLE", "IP-legacy", "IP-noips") if HAVE[k.split("-")[0]]]

    def build(label, groups, later=False, exotic=False):
        records, i, seen = [], 0, set()
        shift = rng.randrange(len(kinds))
        for g, members in enumerate(groups):
            for m, alias in enumerate(members):
                if alias in seen:
                    continue
                seen.add(alias)
                i += 1
                pd = rand_pairing(rng, i, kinds[(shift + g + m) % len(kinds)])  # the spellings of one family sit on different transports
                pd["AccessoryPairingID"] = mixed_case(rng, pd["AccessoryPairingID"], rng.choice(["upper", "upper", "lower", "mixed"]))
                if rng.random() < 0.3:
                    pd["iOSPairingId"] = mixed_case(rng, pd["iOSPairingId"], rng.choice(["upper", "mixed"]))
                records.append([alias, pd, 0, None])
        n_lives = rng.choice([2, 3, 3, 4])
        lives = [[rng.choice(["load_data", "load_data", "load_data", "load_pairing"]), rng.random() < 0.75] for _ in range(n_lives)]
        lives[-1] = ["load_data", False]
        if rng.random() < 0.6:
            lives[0] = ["load_data", True]   # save -> restart -> save -> restart
        if later and len(records) > 1:
            # one spelling arrives later: the device is added in life 1 or 2 and saved there
            k = rng.randrange(1, n_lives)
            records[rng.randrange(len(records))][2] = k
            lives[k - 1][1] = True
            if all(r[2] for r in records):
                records[0][2] = 0
        case = {"stream": "key-strings", "label": label, "records": records, "writer": rng.choice(["json", "json-ascii", "library", "library"]), "lives": lives, "seed": rng.getrandbits(32)}
        if exotic:
            r = rng.random()
            if r < 0.5:
                fam = gen_family(rng, 2)[1]
                names = [fs_component(x) + ".json" for x in fam]
                case["fname"] = names[0]
                if len(names) > 1 and names[1] != names[0] and rng.random() < 0.6:
                    other = rand_pairing(rng, 99, kinds[0])
                    case["sibling"] = [names[1], [[records[0][0], other]]]
            if rng.random() < 0.3:
                case["dir"] = [fs_component(gen_string(rng)[1], "d") for _ in range(rng.choice([1, 1, 2]))]
            if rng.random() < 0.4:
                case["cache"] = fs_component(gen_string(rng)[1], "c") + ".charmap" if rng.random() < 0.5 else "charmap.json"
                for j, rec in enumerate(records):
                    if rng.random() < 0.8:
                        rec[3] = ["db of #%d" % j, rng.choice([1, 2, 255, 256, 65535, rng.randrange(1, 65536)]), rng.choice([None, "%064x" % rng.getrandbits(256)]), rng.choice([None, 1, 65535, rng.randrange(1, 65536)])]
        return label, case

    for name, members in STRING_FAMILIES:
        yield build("family:" + name, [members], later=rng.random() < 0.3)
        one = members[rng.randrange(len(members))]
        yield build("single:" + name, [[one], [rng.choice(["Flur", "alias", "thread-sensor"])]])
    for _ in range(ctx.budget(160, 2400)):
        groups, labels = [], []
        for _ in range(rng.choice([1, 1, 2, 2, 3])):
            lab, members = gen_family(rng, rng.choice([1, 2, 2, 3]))
            groups.append(members)
            labels.append(lab)
        for _ in range(rng.choice([0, 0, 1, 2])):
            groups.append([rng.choice(ALIAS_POOL)])
        yield build("random:" + "|".join(labels), groups, later=rng.random() < 0.35, exotic=True)


def key_strings(ctx, rng, loop, tmpdir):
    """stream 'key-strings': see RULE"""
    for i, (label, case) in enumerate(key_string_cases(ctx, rng)):
        out = Collector()
        ctx.evaluations += keys_trial(out, loop, tmpdir, case)
        aliases = [r[0] for r in case["records"]]
        fam = label.split(":")[0]
        ctx.nontrivial.add(("key-strings", label[:80], case["writer"], tuple(map(tuple, case["lives"])), "fname" in case, "dir" in case, "cache" in case))
        ctx.dist["key-strings:" + fam] += 1
        ctx.dist["key-strings:writer:" + case["writer"]] += 1
        ctx.dist["key-strings:lives:%d" % len(case["lives"])] += 1
        ctx.dist["key-strings:saves:%d" % sum(1 for _, s in case["lives"] if s)] += 1
        for k in ("fname", "dir", "cache", "sibling"):
            if k in case:
                ctx.dist["key-strings:own-" + k] += 1
        if any(r[2] for r in case["records"]):
            ctx.dist["key-strings:alias-added-in-a-later-life"] += 1
        for a in aliases:
            for form in ("NFC", "NFD", "NFKC", "NFKD"):
                if unicodedata.normalize(form, a) != a:
                    ctx.dist["key-strings:alias:not-" + form] += 1
            ctx.dist["key-strings:alias:" + ("ascii" if a.isascii() else "non-bmp" if any(ord(ch) > 0xFFFF for ch in a) else "bmp")] += 1
            if a != a.casefold():
                ctx.dist["key-strings:alias:not-casefolded"] += 1
            if a != a.strip() or not a:
                ctx.dist["key-strings:alias:blank-or-untrimmed"] += 1
            if len(a) > 255:
                ctx.dist["key-strings:alias:long"] += 1
        for x, y in ((x, y) for j, x in enumerate(aliases) for y in aliases[j + 1:]):
            for form in ("NFC", "NFKC"):
                if unicodedata.normalize(form, x) == unicodedata.normalize(form, y):
                    ctx.dist["key-strings:pair-equal-under-" + form] += 1
            if x.casefold() == y.casefold():
                ctx.dist["key-strings:pair-equal-under-casefold"] += 1
            if x.strip() == y.strip():
                ctx.dist["key-strings:pair-equal-when-trimmed"] += 1
        for pd in (r[1] for r in case["records"]):
            ctx.dist["key-strings:record:" + pd.get("Connection", "legacy-no-Connection")] += 1
        for sig, what, c in out.found[:2]:
            ctx.violation(sig, what, c)
        if i == 0:
            ctx.sample(case)


def cache_keys_trial(out, tmpdir, case):
    """stream 'cache-keys': a history of updates / removals on a CharacteristicCacheFile (file name and keys caller-chosen),
    a restart after every step: every key gives back exactly its own entry, a key that holds nothing gives nothing"""
    d = os.path.join(tmpdir, "cachekeys")
    shutil.rmtree(d, ignore_errors=True)
    os.makedirs(d)
    loc = pathlib.Path(d, case["fname"])
    keys = case["keys"]
    live, hist = {}, []
    try:
        cf = CharacteristicCacheFile(loc)
    except Exception as e:  # noqa: BLE001
        out.violation("cache-keys/start-up-raises", f"CharacteristicCacheFile on a new file named {ascii(case['fname'])} raised {type(e).__name__}: {str(e)[:80]}", case)
        return 0
    for n, op in enumerate(case["ops"], 1):
        try:
            if op[0] == "update":
                _, ki, cn, marker, bkey, sn = op
                cf.async_create_or_update_map(keys[ki], cn, Accessories.from_list(tiny_db(marker, cn)).serialize(), bkey, sn)
                live[keys[ki]] = [marker, cn, bkey, sn]
            else:
                cf.async_delete_map(keys[op[1]])
                live.pop(keys[op[1]], None)
        except Exception as e:  # noqa: BLE001
            out.violation("cache-keys/update-raises", f"step {n}: {op[0]} under the key {show_keys([keys[op[1]]], 1)} raised {type(e).__name__}: {str(e)[:80]}", case)
            return n
        hist.append(f"{op[0]}({ascii(keys[op[1]])[:40]})")
        try:
            again = CharacteristicCacheFile(loc)   # the restart
            for k in keys:
                e = again.get_map(k)
                got = None if e is None else [next((c.get("value") for a in e["accessories"] for s in a["services"] for c in s["characteristics"] if c["iid"] == 2), None), e.get("config_num"), e.get("broadcast_key"), e.get("state_num")]
                if got != live.get(k):
                    owner = [q for q in live if q != k and live[q] == got]
                    out.violation("cache-keys/entry-not-read-back", f"after {hist} and a restart the key {show_keys([k], 1)} gives [marker, c#, key, s#] = {got}, the harness's record says {live.get(k)}"
                                  + (f" - that is the entry stored under {show_keys(owner, 1)}" if owner else "") + f"; keys in use: {show_keys(live)}", case)
                    return n
        except Exception as e:  # noqa: BLE001
            out.violation("cache-keys/restart-raises", f"after {hist}: a new CharacteristicCacheFile on the file raised {type(e).__name__}: {str(e)[:80]}", case)
            return n
    return len(case["ops"])


def cache_keys(ctx, rng, tmpdir):
    """stream 'cache-keys': see RULE.  Keys that differ only by simple case mapping are not used together (pairing ids are hex
    strings whose casing a cache may well ignore); each casing is used on its own."""
    def distinct(keys):
        out, seen = [], set()
        for k in keys:
            sig = {k.lower(), k.upper(), k.casefold()}
            if not (sig & seen):
                out.append(k)
                seen |= sig
        return out

    plans = [("family:" + name, members) for name, members in STRING_FAMILIES if name != "long"]
    for _ in range(ctx.budget(40, 600)):
        groups, labels = [], []
        for _ in range(rng.choice([1, 2, 2, 3])):
            if rng.random() < 0.3:
                mac = ":".join("%02x" % rng.randrange(256) for _ in range(6))
                groups += [mixed_case(rng, mac, rng.choice(["upper", "lower", "mixed"]))]
                labels.append("pairing-id")
            else:
                lab, members = gen_family(rng, rng.choice([1, 2, 3]))
                groups += members
                labels.append(lab)
        plans.append(("random:" + "|".join(labels), groups))
    for i, (label, keys) in enumerate(plans):
        keys = distinct([k for k in keys if len(k) < 20000])
        if not keys:
            continue
        ops = []
        for j in range(rng.randrange(len(keys), len(keys) + 4)):
            ki = j if j < len(keys) else rng.randrange(len(keys))
            if j >= len(keys) and rng.random() < 0.25:
                ops.append(["delete", ki])
            else:
                ops.append(["update", ki, rng.choice([1, 255, 65535, rng.randrange(1, 65536)]), "entry %d of key #%d" % (j, ki), rng.choice([None, "%064x" % rng.getrandbits(256)]), rng.choice([None, 1, rng.randrange(1, 65536)])])
        case = {"stream": "cache-keys", "label": label, "keys": keys, "ops": ops, "fname": "charmap.json" if rng.random() < 0.5 else fs_component(gen_string(rng)[1], "c") + ".json"}
        out = Collector()
        steps = cache_keys_trial(out, tmpdir, case)
        ctx.evaluations += steps
        ctx.nontrivial.add(("cache-keys", label[:80], len(keys), tuple(o[0] for o in ops)))
        ctx.dist["cache-keys:" + label.split(":")[0]] += 1
        ctx.dist["cache-keys:keys"] += len(keys)
        for sig, what, c in out.found[:2]:
            ctx.violation(sig, what, c)
        if i == 0:
            ctx.sample(case)


KEEP = ("type", "iid", "perms", "format", "value", "minValue", "maxValue", "minStep", "valid-values", "maxLen", "unit")


def proj(ser):
    """the fields the property lists, of a serialized accessory database"""
    return [{"aid": a["aid"], "services": [{"iid": s["iid"], "type": s["type"], "linked": s.get("linked", []),
                                            "characteristics": [{k: c[k] for k in KEEP if k in c} for c in s["characteristics"]]} for s in a["services"]]} for a in ser]


def entity_roundtrip(ctx, rng):
    fixtures = sorted(pathlib.Path(REPO, "tests", "fixtures").glob("*.json"))
    fields = ["type", "iid", "perms", "format", "minValue", "maxValue", "minStep", "valid_values", "unit", "maxLen"]
    for fx in fixtures:
        try:
            data = json.loads(fx.read_text())
        except Exception:  # noqa: BLE001
            continue
        if not (isinstance(data, list) and data and isinstance(data[0], dict) and "services" in data[0]):
            continue
        ctx.evaluations += 1
        ctx.nontrivial.add(("fixture", fx.name))
        case = {"stream": "entity", "fixture": fx.name}
        try:
            a = Accessories.from_list(data)
            s1 = a.serialize()
            b = Accessories.from_list(json.loads(json.dumps(s1)))
            s2 = b.serialize()
        except Exception as e:  # noqa: BLE001 - a database the library's own test suite loads: serialising / loading it again must not raise
            ctx.violation(f"entity/raised/{type(e).__name__}", f"{fx.name}: serialize -> from_list -> serialize raised {type(e).__name__}: {str(e)[:200]}", case)
            continue
        if proj(s1) != proj(s2):
            ctx.violation("entity/not-stable", f"{fx.name}: the listed fields differ after serialize -> from_list -> serialize", case)
        for acc_a, acc_b in zip(a, b):
            for sa, sb in zip(acc_a.services, acc_b.services):
                if (sa.iid, sa.type, [x.iid for x in sa.linked]) != (sb.iid, sb.type, [x.iid for x in sb.linked]):
                    ctx.violation("entity/service", f"{fx.name}: service {sa.iid} differs after reload (type/links)", case)
                for ca, cb in zip(sa.characteristics, sb.characteristics):
                    for f in fields:
                        if getattr(ca, f, None) != getattr(cb, f, None):
                            ctx.violation("entity/char-field", f"{fx.name}: characteristic {ca.iid} field {f}: {getattr(ca, f, None)!r} -> {getattr(cb, f, None)!r}", case)
                    if "pr" in ca.perms and ca._value is not None and ca._value != cb._value:
                        ctx.violation("entity/char-value", f"{fx.name}: characteristic {ca.iid} value {ca._value!r} -> {cb._value!r}", case)
        # through the cache entry (config/state numbers, broadcast key)
        try:
            mem = CharacteristicCacheMemory()
            mem.async_create_or_update_map("id", 7, s1, "ab" * 32, 42)
            e = json.loads(json.dumps(mem.get_map("id")))
            if (e["config_num"], e["state_num"], e["broadcast_key"]) != (7, 42, "ab" * 32) or proj(Accessories.from_list(e["accessories"]).serialize()) != proj(s1):
                ctx.violation("entity/cache-entry", f"{fx.name}: cache entry does not round-trip", case)
        except Exception as e:  # noqa: BLE001
            ctx.violation(f"entity/cache-entry-raised/{type(e).__name__}", f"{fx.name}: the cache entry round trip raised {type(e).__name__}: {str(e)[:200]}", case)
        ctx.dist["entity:fixture"] += 1


def cache_histories(ctx, rng, tmpdir):
    """write-through histories on the file-backed cache: whatever sequence of updates was made (several pairings; the
    entity map, the configuration number, the state number and the broadcast key changing together or one at a time,
    removals), a restart - a new CharacteristicCacheFile on the same file - gives back exactly the live view"""
    fixtures = [f for f in sorted(pathlib.Path(REPO, "tests", "fixtures").glob("*.json"))]
    maps = []
    for fx in fixtures:
        try:
            data = json.loads(fx.read_text())
            if isinstance(data, list) and data and isinstance(data[0], dict) and "services" in data[0]:
                maps.append((fx.name, Accessories.from_list(data).serialize()))
        except Exception:  # noqa: BLE001
            continue
        if len(maps) >= 3:
            break
    loc = pathlib.Path(tmpdir, "cache-hist.json")
    for trial in range(ctx.budget(12, 150)):
        if loc.exists():
            loc.unlink()
        cf = CharacteristicCacheFile(loc)
        live = {}
        hist = []
        ids = ["aa:bb", "cc:dd"]
        for _ in range(rng.randrange(2, 7)):
            pid = rng.choice(ids)
            prev = live.get(pid)
            r = rng.random()
            if prev is not None and r < 0.1:
                cf.async_delete_map(pid)
                live.pop(pid)
                hist.append(f"delete({pid})")
            else:
                if prev is None or r < 0.3:
                    name, m = rng.choice(maps)
                    new = {"config_num": rng.randrange(1, 9), "accessories": m, "broadcast_key": rng.choice([None, "ab" * 32]), "state_num": rng.choice([None, 1, 7])}
                else:
                    # only ONE thing changes: the state number advances, the key is regenerated, or the configuration number moves
                    new = dict(prev)
                    what = rng.choice(["state_num", "state_num", "broadcast_key", "config_num"])
                    if rng.random() < 0.5:
                        new[what] = {"state_num": (prev["state_num"] or 0) + rng.randrange(1, 4), "broadcast_key": "%064x" % rng.getrandbits(256), "config_num": prev["config_num"] + 1}[what]
                    else:
                        # ... in any direction: a number that goes down / rolls over / jumps / sits on a boundary, a key that is cleared
                        new[what] = {"state_num": next_number(rng, prev["state_num"], 65535, SN_EDGES)[1], "broadcast_key": rng.choice([None, "%064x" % rng.getrandbits(256)]),
                                     "config_num": next_number(rng, prev["config_num"], 65535, CN_EDGES["IP"])[1]}[what]
                cf.async_create_or_update_map(pid, new["config_num"], new["accessories"], new["broadcast_key"], new["state_num"])
                live[pid] = new
                hist.append(f"update({pid}, c#={new['config_num']}, key={'-' if new['broadcast_key'] is None else new['broadcast_key'][:6]}, s#={new['state_num']})")
            # restart after every step
            ctx.evaluations += 1
            again = CharacteristicCacheFile(loc)
            for q in ids:
                got = again.get_map(q)
                want = live.get(q)
                bad = None
                if (got is None) != (want is None):
                    bad = f"{'missing' if got is None else 'still present'} after the restart"
                elif got is not None:
                    for fld in ("config_num", "accessories", "broadcast_key", "state_num"):
                        if got.get(fld) != want[fld]:
                            bad = f"{fld} is {str(got.get(fld))[:40]!r} after the restart, {str(want[fld])[:40]!r} before it"
                            break
                if bad:
                    ctx.violation("cache/history-not-persisted", f"pairing {q}: {bad}; history: {hist}", {"stream": "cache-history", "history": hist})
                    break
            else:
                continue
            break
        ctx.nontrivial.add(("cache-history", len(hist), tuple(h.split("(")[0] for h in hist)))
        ctx.dist["cache-history"] += 1


def cache_prefixes(ctx, rng, tmpdir):
    fixtures = sorted(pathlib.Path(REPO, "tests", "fixtures").glob("*.json"))
    loc = pathlib.Path(tmpdir, "cache.json")
    done = 0
    for fx in fixtures:
        try:
            data = json.loads(fx.read_text())
        except Exception:  # noqa: BLE001
            continue
        if not (isinstance(data, list) and data and isinstance(data[0], dict) and "services" in data[0]):
            continue
        if done >= ctx.budget(2, 6):
            break
        done += 1
        if loc.exists():
            loc.unlink()
        try:
            cf = CharacteristicCacheFile(loc)
            cf.async_create_or_update_map("aa:bb", 3, Accessories.from_list(data).serialize(), "cd" * 32, 9)
            full = loc.read_bytes()
        except Exception as e:  # noqa: BLE001 - writing a database of the library's own fixtures through to the cache must not raise
            ctx.violation(f"cache/write-through-raised/{type(e).__name__}", f"{fx.name}: writing the database through to the cache file raised {type(e).__name__}: {str(e)[:200]}",
                          {"stream": "cache", "fixture": fx.name})
            continue
        # restart with the complete file
        ctx.evaluations += 1
        if CharacteristicCacheFile(loc).get_map("aa:bb") != json.loads(full)["pairings"]["aa:bb"]:
            ctx.violation("cache/roundtrip", f"{fx.name}: cache file does not read back", {"stream": "cache", "fixture": fx.name})
        step = max(len(full) // ctx.budget(250, 2500), 1)
        ks = sorted(set(range(0, len(full), step)) | set(range(0, min(len(full), 64))) | set(range(max(len(full) - 64, 0), len(full))))
        for k in ks:
            loc.write_bytes(full[:k])
            ctx.evaluations += 1
            ctx.nontrivial.add(("cache-prefix", fx.name, k))
            try:
                c2 = CharacteristicCacheFile(loc)
                if c2.storage_data:
                    ctx.violation("cache/prefix-not-empty", f"{fx.name}: {k}-byte prefix of the cache loads as non-empty", {"stream": "cache", "fixture": fx.name, "k": k})
            except Exception as e:  # noqa: BLE001
                ctx.violation("cache/prefix-raises", f"{fx.name}: {k}-byte prefix of the cache makes start-up fail with {type(e).__name__}", {"stream": "cache", "fixture": fx.name, "k": k})
        for _ in range(ctx.budget(40, 400)):
            b = bytearray(full)
            i = rng.randrange(len(b))
            b[i] = rng.choice(b'{}[]",:x\x00\xff ')
            loc.write_bytes(bytes(b))
            ctx.evaluations += 1
            try:
                CharacteristicCacheFile(loc)
            except (KeyError, TypeError, AttributeError):
                pass  # parsable but of another shape: outside "truncated or unparsable"
            except Exception as e:  # noqa: BLE001
                ctx.violation("cache/corrupt-raises", f"{fx.name}: corrupted cache (byte {i}) makes start-up fail with {type(e).__name__}", {"stream": "cache", "fixture": fx.name, "i": i})
        ctx.dist["cache:fixture"] += 1
    if loc.exists():
        loc.unlink()


def replay(ctx, driver, c):
    """re-runs a recorded case of the whole-life streams; returns the violations it reproduces (empty = not reproduced)"""
    if isinstance(c, dict) and c.get("stream") in ("em-char", "em-acc", "em-cache"):
        return replay_entity(ctx, driver, c)
    if isinstance(c, dict) and c.get("stream") in ("real-fs", "save") and "alias" in c and "pairing" in c:
        loop = asyncio.new_event_loop()
        asyncio.set_event_loop(loop)
        out = Collector()
        try:
            build_controller(out, loop, {c["alias"]: c["pairing"]}, {"stream": c["stream"]})
        finally:
            loop.close()
        return [f"{sig}: {what}" for sig, what, _ in out.found] or None
    if not isinstance(c, dict) or c.get("stream") not in ("toplevel-restart", "toplevel-cache", "cache-numbers", "cache-quiet", "key-strings", "cache-keys"):
        return None
    loop = asyncio.new_event_loop()
    asyncio.set_event_loop(loop)
    tmpdir = tempfile.mkdtemp(prefix="c20_replay_", dir="/tmp")
    out = Collector()
    try:
        if c["stream"] == "toplevel-restart":
            restart_trial(out, loop, tmpdir, c)
        elif c["stream"] == "key-strings":
            keys_trial(out, loop, tmpdir, c)
        elif c["stream"] == "cache-keys":
            cache_keys_trial(out, tmpdir, c)
        else:
            cache_trial(out, None if c["stream"] in ("cache-numbers", "cache-quiet") else loop, tmpdir, accessory_dbs(), c)
    finally:
        shutil.rmtree(tmpdir, ignore_errors=True)
        loop.close()
    return [f"{sig}: {what}" for sig, what, _ in out.found] or None
