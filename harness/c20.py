"""C20 - saved pairings and accessory cache survive restart and interrupted saves."""
from __future__ import annotations

import asyncio
import builtins
import io
import json
import os
import pathlib
import shutil
import tempfile
from unittest import mock
from unittest.mock import MagicMock

try:
    import bleak  # noqa: F401  (BLE support is decided at import time of aiohomekit)
except Exception:  # noqa: BLE001
    pass

from harness.common import REPO, Ctx, Driver, compare_with_model, hx

import aiohomekit.controller.controller as ctlmod
from aiohomekit.characteristic_cache import CharacteristicCacheFile, CharacteristicCacheMemory
from aiohomekit.controller import Controller
from aiohomekit.controller.abstract import TransportType
from aiohomekit.model import Accessories

ID = "C20"
RULE = ("pairing sets over all loaded transports (IP with/without Connection key, CoAP, BLE), unicode aliases, optional fields; for EVERY crash point of save_data (each recorded primitive "
        "effect, and every prefix of the written bytes in steps of 1 byte near structural characters / 17 bytes elsewhere) the pairing file is reloaded by a fresh Controller; accessory "
        "database round trip for every fixture under tests/fixtures and random well-formed maps; EVERY prefix of cache files and corruptions. "
        "non-trivial = distinct (pairing-set shape, crash point) / (fixture, check) / prefix length")
TRUSTED = ["POSIX rename atomicity of os.replace for a process crash", "orjson/commentjson parse what they wrote; a strict prefix of an object's encoding does not parse (checked exhaustively on this run's files)"]
ASSUMPTIONS = ["file effects are observed by replacing open/os.replace/os.fsync in the namespace of aiohomekit.controller.controller with a recording virtual file system; "
               "crash states are materialised in a temporary directory outside /repo and /verif",
               "transports are instantiated without starting their scanners/browsers",
               "the accessory-database round trip and cache-prefix behaviour are checked on the implementation, not proved (not modelled)"]
EXPLANATION = "Lean theorem C20_save_crash_safe over a crash-point file-system model of the (repaired) atomic save; tie: the op sequence recorded from the real save_data is replayed on the model for every crash point; reload oracle with a fresh Controller"


class VFS:
    """records the primitive file effects of one save"""

    def __init__(self, files):
        self.files = dict(files)  # path -> bytes
        self.ops = []

    def open(self, path, mode="r", encoding=None, **kw):
        path = str(path)
        vfs = self
        if "w" in mode:
            vfs.files[path] = b""
            vfs.ops.append(("open", path))

            class W(io.StringIO):
                def write(s, data):  # noqa: N805
                    b = data.encode(encoding or "utf-8")
                    vfs.files[path] += b
                    vfs.ops.append(("write", path, b))
                    return len(data)

                def fileno(s):  # noqa: N805
                    return 99

                def flush(s):  # noqa: N805
                    vfs.ops.append(("flush", path))

                def close(s):  # noqa: N805
                    vfs.ops.append(("close", path))
            return W()
        if path not in vfs.files:
            raise FileNotFoundError(path)
        return io.StringIO(vfs.files[path].decode(encoding or "utf-8"))

    def replace(self, a, b):
        if str(a) not in self.files:
            raise FileNotFoundError(str(a))
        self.ops.append(("replace", str(a), str(b)))
        self.files[str(b)] = self.files.pop(str(a))

    def fsync(self, fd):
        self.ops.append(("fsync",))


def crash_states(files0, ops, target):
    """all file-system states a crash can leave: after each op, and after every prefix of every write (sampled)"""
    out = []
    files = dict(files0)
    out.append(("before", 0, None, dict(files)))
    for i, op in enumerate(ops):
        if op[0] == "open":
            files[op[1]] = b""
        elif op[0] == "write":
            data = op[2]
            base = files.get(op[1], b"")
            ks = set(range(0, len(data), 17)) | {k for k in range(len(data)) if data[k:k + 1] in b'{}[]",:\n' or data[max(k - 1, 0):k] in (b"}", b"{")} | {len(data) - 1, 1}
            for k in sorted(x for x in ks if 0 <= x < len(data)):
                f2 = dict(files)
                f2[op[1]] = base + data[:k]
                out.append(("partial", i, k, f2))
            files[op[1]] = base + data
        elif op[0] == "replace":
            files[op[2]] = files.pop(op[1])
        out.append(("after", i + 1, None, dict(files)))
    return out


def mk_controller(loop):
    from aiohomekit.controller.ble.controller import BleController
    from aiohomekit.controller.coap.controller import CoAPController
    from aiohomekit.controller.ip.controller import IpController
    c = Controller(async_zeroconf_instance=MagicMock(), char_cache=CharacteristicCacheMemory())
    with mock.patch("aiohomekit.zeroconf.AsyncServiceBrowser", MagicMock()):
        c.transports[TransportType.IP] = IpController(char_cache=c._char_cache, zeroconf_instance=MagicMock())
        c.transports[TransportType.COAP] = CoAPController(char_cache=c._char_cache, zeroconf_instance=MagicMock())
    c.transports[TransportType.BLE] = BleController(char_cache=c._char_cache)
    return c


def pairing_sets(rng):
    def ip(i, conn=True):
        d = {"AccessoryPairingID": f"AA:BB:CC:00:00:{i:02X}", "AccessoryLTPK": "ab" * 32, "iOSPairingId": f"ctl-{i}", "iOSDeviceLTSK": "cd" * 32, "iOSDeviceLTPK": "ef" * 32,
             "AccessoryIP": f"10.0.0.{i}", "AccessoryIPs": [f"10.0.0.{i}", "fe80::1"], "AccessoryPort": 80 + i}
        if conn:
            d["Connection"] = "IP"
        return d

    def coap(i):
        return {"AccessoryPairingID": f"CC:00:00:00:00:{i:02X}", "AccessoryLTPK": "11" * 32, "iOSPairingId": f"ctl-{i}", "iOSDeviceLTSK": "22" * 32, "iOSDeviceLTPK": "33" * 32,
                "AccessoryIP": "fd00::5", "AccessoryPort": 5683, "Connection": "CoAP"}

    def ble(i):
        return {"AccessoryPairingID": f"DD:00:00:00:00:{i:02X}", "AccessoryLTPK": "44" * 32, "iOSPairingId": f"ctl-{i}", "iOSDeviceLTSK": "55" * 32, "iOSDeviceLTPK": "66" * 32,
                "AccessoryAddress": f"DD:00:00:00:00:{i:02X}", "Connection": "BLE"}
    yield "empty", {}
    yield "one-ip", {"alias": ip(1)}
    yield "ip-noconn", {"a": ip(2, conn=False)}
    yield "unicode", {"Küche ☕ 灯": ip(3), "b\"q\\uote": coap(4)}
    yield "all", {"ip": ip(5), "coap": coap(6), "ble": ble(7), "x y": ip(8)}
    yield "many", {f"alias{i}": rng.choice([ip, coap, ble])(10 + i) for i in range(12)}


def run(ctx: Ctx, driver: Driver):
    rng = ctx.rng
    loop = asyncio.new_event_loop()
    asyncio.set_event_loop(loop)
    tmpdir = tempfile.mkdtemp(prefix="c20_", dir="/tmp")
    try:
        save_crash(ctx, driver, rng, loop, tmpdir)
        real_fs_histories(ctx, rng, loop, tmpdir)
        entity_roundtrip(ctx, rng)
        cache_prefixes(ctx, rng, tmpdir)
        cache_histories(ctx, rng, tmpdir)
    finally:
        shutil.rmtree(tmpdir, ignore_errors=True)
        loop.close()


def load_pairings(loop, path):
    async def go():
        c = mk_controller(loop)
        c.load_data(path)
        return {alias: dict(p.pairing_data) for alias, p in c.aliases.items()}
    return loop.run_until_complete(go())


def real_fs_histories(ctx, rng, loop, tmpdir):
    """histories on the REAL file system (nothing patched): a save that was interrupted earlier left files behind
    (<file>.tmp of any length and content, <file>.bak, a zero-length <file>.tmp); the next complete save must still
    produce exactly the new pairing set, and a restart must read it back"""
    target = os.path.join(tmpdir, "pairings.json")
    sets = list(pairing_sets(rng))

    async def build(pairs):
        c = mk_controller(loop)
        for alias, pd in pairs.items():
            c.load_pairing(alias, dict(pd))
        return c
    pairs = [(a, b) for a in sets for b in sets if a[0] != b[0]]
    rng.shuffle(pairs)
    n = 0
    for (oname, old), (nname, new) in pairs[: ctx.budget(10, 60)]:
        for f in os.listdir(tmpdir):
            os.unlink(os.path.join(tmpdir, f))
        c_old = loop.run_until_complete(build(old))
        c_old.save_data(target)
        with builtins.open(target, "rb") as fp:
            old_bytes = fp.read()
        # leftovers of an interrupted save: usually LONGER than what the next save will write
        c_big = loop.run_until_complete(build({**old, **new, "zz-extra": list(old.values())[0] if old else list(new.values())[0]}))
        big_path = os.path.join(tmpdir, "big.json")
        c_big.save_data(big_path)
        with builtins.open(big_path, "rb") as fp:
            big = fp.read()
        os.unlink(big_path)
        for f in os.listdir(tmpdir):
            if f not in ("pairings.json",):
                os.unlink(os.path.join(tmpdir, f))
        leftover = rng.choice(["long", "long-prefix", "empty", "garbage"])
        stale = {"long": big, "long-prefix": big[: max(len(big) - rng.randrange(1, 40), 1)], "empty": b"", "garbage": bytes(rng.randrange(256) for _ in range(len(big) + 50))}[leftover]
        for suffix in (".tmp", ".new", ".bak", "~"):
            with builtins.open(target + suffix, "wb") as fp:
                fp.write(stale)
        c_new = loop.run_until_complete(build(new))
        case = {"stream": "real-fs", "old": oname, "new": nname, "leftover": leftover}
        ctx.evaluations += 1
        n += 1
        ctx.nontrivial.add(("real-fs", oname, nname, leftover))
        try:
            c_new.save_data(target)
        except Exception as e:  # noqa: BLE001
            ctx.violation("save/leftover-save-raises", f"saving '{nname}' over '{oname}' with a stale temporary file ({leftover}) raised {type(e).__name__}", case)
            continue
        try:
            got = load_pairings(loop, target)
        except Exception as e:  # noqa: BLE001
            ctx.violation("save/leftover-unloadable", f"after saving '{nname}' over '{oname}' with a stale temporary file ({leftover}, {len(stale)} bytes) the pairing file cannot be loaded: {type(e).__name__}", case)
            continue
        want = {a: {**pd, "Connection": pd.get("Connection", "IP")} for a, pd in new.items()}
        if got != want:
            ctx.violation("save/leftover-lost-data", f"after saving '{nname}' over '{oname}' with a stale temporary file ({leftover}) a restart reads {sorted(got)} instead of {sorted(want)}", case)
    ctx.dist["real-fs-histories"] += n


def save_crash(ctx, driver, rng, loop, tmpdir):
    target = os.path.join(tmpdir, "pairings.json")
    sets = list(pairing_sets(rng))
    cases, outs, lines = [], [], []
    opseqs = set()
    n_pairs = 0
    for (oname, old), (nname, new) in [(a, b) for a in sets for b in sets if a[0] != b[0]][: ctx.budget(8, 30)]:
        n_pairs += 1

        async def build(pairs):
            c = mk_controller(loop)
            for alias, pd in pairs.items():
                c.load_pairing(alias, dict(pd))
            return c
        # write the old file for real (no crash), read its bytes
        c_old = loop.run_until_complete(build(old))
        v0 = VFS({})
        for f in os.listdir(tmpdir):
            os.unlink(os.path.join(tmpdir, f))
        with mock.patch.object(ctlmod, "open", v0.open, create=True), mock.patch.object(os, "replace", v0.replace), mock.patch.object(os, "fsync", v0.fsync):
            c_old.save_data(target)
        old_bytes = v0.files.get(target)
        if old_bytes is None:
            ctx.violation("save/no-file", "save_data produced no pairing file", {"stream": "save", "old": oname})
            continue
        # now the save under test, recorded
        c_new = loop.run_until_complete(build(new))
        v = VFS({target: old_bytes})
        # the old file also exists on the real disk, so that code which looks before it leaps (exists(), stat()) sees it
        for f in os.listdir(tmpdir):
            os.unlink(os.path.join(tmpdir, f))
        with builtins.open(target, "wb") as fp:
            fp.write(old_bytes)
        with mock.patch.object(ctlmod, "open", v.open, create=True), mock.patch.object(os, "replace", v.replace), mock.patch.object(os, "rename", v.replace), mock.patch.object(os, "fsync", v.fsync):
            c_new.save_data(target)
        new_bytes = v.files[target]
        shape = tuple((op[0], "tmp" if len(op) > 1 and op[1] != target else "target") for op in v.ops if op[0] in ("open", "write", "replace"))
        opseqs.add(shape)
        want_old = json.loads(old_bytes)
        want_new = json.loads(new_bytes)
        # model tie: compact the recorded ops into the model's alphabet
        model_ops = []
        for op in v.ops:
            if op[0] == "open":
                model_ops.append("open-tmp" if op[1] != target else "open-target")
            elif op[0] == "write":
                if model_ops and model_ops[-1].startswith("write"):
                    continue
                model_ops.append("write-tmp" if op[1] != target else "write-target")
            elif op[0] == "replace":
                model_ops.append("replace")
        cases.append({"stream": "ops", "old": oname, "new": nname})
        outs.append(" ".join(model_ops))
        lines.append("st.ops")
        for kind, i, k, files in crash_states({target: old_bytes}, v.ops, target):
            ctx.evaluations += 1
            ctx.nontrivial.add((oname, nname, kind, i, k))
            case = {"stream": "crash", "old": oname, "new": nname, "point": [kind, i, k]}
            # materialise
            for f in os.listdir(tmpdir):
                os.unlink(os.path.join(tmpdir, f))
            for pth, data in files.items():
                with builtins.open(pth, "wb") as fp:
                    fp.write(data)
            try:
                got = load_pairings(loop, target)
            except Exception as e:  # noqa: BLE001
                ctx.violation("save/crash-unloadable", f"crash at {kind} op {i} byte {k} while saving '{nname}' over '{oname}': reload fails with {type(e).__name__} - the previously saved pairings are gone", case)
                continue
            norm = lambda d: {a: {kk: vv for kk, vv in p.items()} for a, p in d.items()}  # noqa: E731

            def same(g, w):
                # load adds a default Connection key
                return set(g) == set(w) and all({**w[a], "Connection": w[a].get("Connection", "IP")} == g[a] for a in w)
            if not (same(got, want_old) or same(got, want_new)):
                ctx.violation("save/crash-lost-data", f"crash at {kind} op {i} byte {k} while saving '{nname}' over '{oname}': reload gives {sorted(got)} - neither the old {sorted(want_old)} nor the new {sorted(want_new)} pairings", case)
            # model: the same crash point
            if kind == "partial":
                mi = ("write-tmp" in model_ops and model_ops.index("write-tmp")) or 0
                cases.append(case)
                outs.append(hx(files.get(target)) if files.get(target) is not None else "none")
                lines.append(f"st.crash {hx(old_bytes)} {hx(new_bytes)} {mi} {k}")
            ctx.dist["crash:" + kind] += 1
        # round trip of the completed save
        got = load_pairings(loop, None) if False else None
    ctx.notes.append(f"recorded save_data effect sequences: {sorted(opseqs)}")
    ctx.sample(cases[1])
    compare_with_model(ctx, "store", cases, outs, lines, driver)


KEEP = ("type", "iid", "perms", "format", "value", "minValue", "maxValue", "minStep", "valid-values", "maxLen", "unit")


def proj(ser):
    """the fields the property lists, of a serialized accessory database"""
    return [{"aid": a["aid"], "services": [{"iid": s["iid"], "type": s["type"], "linked": s.get("linked", []),
                                            "characteristics": [{k: c[k] for k in KEEP if k in c} for c in s["characteristics"]]} for s in a["services"]]} for a in ser]


def entity_roundtrip(ctx, rng):
    fixtures = sorted(pathlib.Path(REPO, "tests", "fixtures").glob("*.json"))
    fields = ["type", "iid", "perms", "format", "minValue", "maxValue", "minStep", "valid_values", "unit", "maxLen"]
    for fx in fixtures:
        try:
            data = json.loads(fx.read_text())
        except Exception:  # noqa: BLE001
            continue
        if not (isinstance(data, list) and data and isinstance(data[0], dict) and "services" in data[0]):
            continue
        ctx.evaluations += 1
        ctx.nontrivial.add(("fixture", fx.name))
        a = Accessories.from_list(data)
        s1 = a.serialize()
        b = Accessories.from_list(json.loads(json.dumps(s1)))
        s2 = b.serialize()
        case = {"stream": "entity", "fixture": fx.name}
        if proj(s1) != proj(s2):
            ctx.violation("entity/not-stable", f"{fx.name}: the listed fields differ after serialize -> from_list -> serialize", case)
        for acc_a, acc_b in zip(a, b):
            for sa, sb in zip(acc_a.services, acc_b.services):
                if (sa.iid, sa.type, [x.iid for x in sa.linked]) != (sb.iid, sb.type, [x.iid for x in sb.linked]):
                    ctx.violation("entity/service", f"{fx.name}: service {sa.iid} differs after reload (type/links)", case)
                for ca, cb in zip(sa.characteristics, sb.characteristics):
                    for f in fields:
                        if getattr(ca, f, None) != getattr(cb, f, None):
                            ctx.violation("entity/char-field", f"{fx.name}: characteristic {ca.iid} field {f}: {getattr(ca, f, None)!r} -> {getattr(cb, f, None)!r}", case)
                    if "pr" in ca.perms and ca._value is not None and ca._value != cb._value:
                        ctx.violation("entity/char-value", f"{fx.name}: characteristic {ca.iid} value {ca._value!r} -> {cb._value!r}", case)
        # through the cache entry (config/state numbers, broadcast key)
        mem = CharacteristicCacheMemory()
        mem.async_create_or_update_map("id", 7, s1, "ab" * 32, 42)
        e = json.loads(json.dumps(mem.get_map("id")))
        if (e["config_num"], e["state_num"], e["broadcast_key"]) != (7, 42, "ab" * 32) or proj(Accessories.from_list(e["accessories"]).serialize()) != proj(s1):
            ctx.violation("entity/cache-entry", f"{fx.name}: cache entry does not round-trip", case)
        ctx.dist["entity:fixture"] += 1


def cache_histories(ctx, rng, tmpdir):
    """write-through histories on the file-backed cache: whatever sequence of updates was made (several pairings; the
    entity map, the configuration number, the state number and the broadcast key changing together or one at a time,
    removals), a restart - a new CharacteristicCacheFile on the same file - gives back exactly the live view"""
    fixtures = [f for f in sorted(pathlib.Path(REPO, "tests", "fixtures").glob("*.json"))]
    maps = []
    for fx in fixtures:
        try:
            data = json.loads(fx.read_text())
            if isinstance(data, list) and data and isinstance(data[0], dict) and "services" in data[0]:
                maps.append((fx.name, Accessories.from_list(data).serialize()))
        except Exception:  # noqa: BLE001
            continue
        if len(maps) >= 3:
            break
    loc = pathlib.Path(tmpdir, "cache-hist.json")
    for trial in range(ctx.budget(12, 150)):
        if loc.exists():
            loc.unlink()
        cf = CharacteristicCacheFile(loc)
        live = {}
        hist = []
        ids = ["aa:bb", "cc:dd"]
        for _ in range(rng.randrange(2, 7)):
            pid = rng.choice(ids)
            prev = live.get(pid)
            r = rng.random()
            if prev is not None and r < 0.1:
                cf.async_delete_map(pid)
                live.pop(pid)
                hist.append(f"delete({pid})")
            else:
                if prev is None or r < 0.3:
                    name, m = rng.choice(maps)
                    new = {"config_num": rng.randrange(1, 9), "accessories": m, "broadcast_key": rng.choice([None, "ab" * 32]), "state_num": rng.choice([None, 1, 7])}
                else:
                    # only ONE thing changes: the state number advances, the key is regenerated, or the configuration number moves
                    new = dict(prev)
                    what = rng.choice(["state_num", "state_num", "broadcast_key", "config_num"])
                    new[what] = {"state_num": (prev["state_num"] or 0) + rng.randrange(1, 4), "broadcast_key": "%064x" % rng.getrandbits(256), "config_num": prev["config_num"] + 1}[what]
                cf.async_create_or_update_map(pid, new["config_num"], new["accessories"], new["broadcast_key"], new["state_num"])
                live[pid] = new
                hist.append(f"update({pid}, c#={new['config_num']}, key={'-' if new['broadcast_key'] is None else new['broadcast_key'][:6]}, s#={new['state_num']})")
            # restart after every step
            ctx.evaluations += 1
            again = CharacteristicCacheFile(loc)
            for q in ids:
                got = again.get_map(q)
                want = live.get(q)
                bad = None
                if (got is None) != (want is None):
                    bad = f"{'missing' if got is None else 'still present'} after the restart"
                elif got is not None:
                    for fld in ("config_num", "accessories", "broadcast_key", "state_num"):
                        if got.get(fld) != want[fld]:
                            bad = f"{fld} is {str(got.get(fld))[:40]!r} after the restart, {str(want[fld])[:40]!r} before it"
                            break
                if bad:
                    ctx.violation("cache/history-not-persisted", f"pairing {q}: {bad}; history: {hist}", {"stream": "cache-history", "history": hist})
                    break
            else:
                continue
            break
        ctx.nontrivial.add(("cache-history", len(hist), tuple(h.split("(")[0] for h in hist)))
        ctx.dist["cache-history"] += 1


def cache_prefixes(ctx, rng, tmpdir):
    fixtures = sorted(pathlib.Path(REPO, "tests", "fixtures").glob("*.json"))
    loc = pathlib.Path(tmpdir, "cache.json")
    done = 0
    for fx in fixtures:
        try:
            data = json.loads(fx.read_text())
        except Exception:  # noqa: BLE001
            continue
        if not (isinstance(data, list) and data and isinstance(data[0], dict) and "services" in data[0]):
            continue
        if done >= ctx.budget(2, 6):
            break
        done += 1
        if loc.exists():
            loc.unlink()
        cf = CharacteristicCacheFile(loc)
        cf.async_create_or_update_map("aa:bb", 3, Accessories.from_list(data).serialize(), "cd" * 32, 9)
        full = loc.read_bytes()
        # restart with the complete file
        ctx.evaluations += 1
        if CharacteristicCacheFile(loc).get_map("aa:bb") != json.loads(full)["pairings"]["aa:bb"]:
            ctx.violation("cache/roundtrip", f"{fx.name}: cache file does not read back", {"stream": "cache", "fixture": fx.name})
        step = max(len(full) // ctx.budget(250, 2500), 1)
        ks = sorted(set(range(0, len(full), step)) | set(range(0, min(len(full), 64))) | set(range(max(len(full) - 64, 0), len(full))))
        for k in ks:
            loc.write_bytes(full[:k])
            ctx.evaluations += 1
            ctx.nontrivial.add(("cache-prefix", fx.name, k))
            try:
                c2 = CharacteristicCacheFile(loc)
                if c2.storage_data:
                    ctx.violation("cache/prefix-not-empty", f"{fx.name}: {k}-byte prefix of the cache loads as non-empty", {"stream": "cache", "fixture": fx.name, "k": k})
            except Exception as e:  # noqa: BLE001
                ctx.violation("cache/prefix-raises", f"{fx.name}: {k}-byte prefix of the cache makes start-up fail with {type(e).__name__}", {"stream": "cache", "fixture": fx.name, "k": k})
        for _ in range(ctx.budget(40, 400)):
            b = bytearray(full)
            i = rng.randrange(len(b))
            b[i] = rng.choice(b'{}[]",:x\x00\xff ')
            loc.write_bytes(bytes(b))
            ctx.evaluations += 1
            try:
                CharacteristicCacheFile(loc)
            except (KeyError, TypeError, AttributeError):
                pass  # parsable but of another shape: outside "truncated or unparsable"
            except Exception as e:  # noqa: BLE001
                ctx.violation("cache/corrupt-raises", f"{fx.name}: corrupted cache (byte {i}) makes start-up fail with {type(e).__name__}", {"stream": "cache", "fixture": fx.name, "i": i})
        ctx.dist["cache:fixture"] += 1
    if loc.exists():
        loc.unlink()


def replay(ctx, driver, c):
    return None
