"""C08: the request slot across a reconnection - the Lean automaton `ReqConn.Queue` (theorems C08_queue_*) against the real
`HomeKitConnection.request()`.

Events (the same tokens go to the driver, `rq.queue g ...`):
  i:<id>  a caller's task starts `connection.request("GET", "/r/<id>")`; the loop runs until nothing is ready
  a       the response to the request on the wire arrives (its future is completed); the loop runs
  l       the session is lost: the future of the request on the wire gets AccessoryDisconnectedError, `transport` and `protocol`
          are cleared (what `connection_lost` + `_connection_lost` do); the loop does NOT run
  r       the supervisor installs the next connection (a new transport and protocol object); the loop does NOT run
  t       the loop runs

Only the protocol / transport objects are stand-ins (they record what is written on which connection); the semaphore, the two
guards and the whole body of `request()` are the library's.  Oracle (property text, harness bookkeeping): a request is written at
most once and only on the connection that was current when it was issued; a request issued on a connection that has been lost
since fails with a disconnection error."""
from __future__ import annotations

import asyncio
import itertools

from harness.common import Ctx, Driver, compare_with_model

import aiohomekit.controller.ip.connection as ipc
from aiohomekit.exceptions import AccessoryDisconnectedError


class _Resp:
    code = 200
    body = b"{}"


class _Proto:
    def __init__(self, world, conn):
        self.world, self.conn = world, conn
        self.pending = []

    async def send_bytes(self, data):
        rid = int(data.split(b" ")[1].rsplit(b"/", 1)[1])
        self.world.sent.append((rid, self.conn))
        fut = asyncio.get_running_loop().create_future()
        self.pending.append(fut)
        await fut
        return _Resp()


class _Transport:
    def __init__(self, conn):
        self.conn = conn

    def is_closing(self):
        return False

    def close(self):
        pass


class _World:
    def __init__(self):
        self.sent = []


async def settle():
    for _ in range(12):
        await asyncio.sleep(0)


async def scenario(events):
    w = _World()
    c = ipc.HomeKitConnection(None, ["10.0.0.1"], 80)
    c.host_header = "Host: 10.0.0.1"
    c.connected_host = "10.0.0.1"
    n = 0
    c.transport, c.protocol = _Transport(0), _Proto(w, 0)
    tasks, issued_on, finished = {}, {}, []

    async def caller(rid):
        try:
            await c.request("GET", f"/r/{rid}")
            finished.append((rid, "ok"))
        except AccessoryDisconnectedError:
            finished.append((rid, "disc"))
        except asyncio.CancelledError:
            finished.append((rid, "canc"))
            raise
        except Exception as e:  # noqa: BLE001
            finished.append((rid, "exc:" + type(e).__name__))

    for e in events + ["t"]:
        k = e.split(":")
        if k[0] == "i":
            rid = int(k[1])
            issued_on[rid] = n if c.protocol is not None else None
            tasks[rid] = asyncio.ensure_future(caller(rid))
            await settle()
        elif k[0] == "a":
            await settle()
            p = c.protocol
            if p is not None and p.pending:
                p.pending.pop(0).set_result(None)
            await settle()
        elif k[0] == "l":
            p = c.protocol
            if p is not None:
                for f in p.pending:
                    if not f.done():
                        f.set_exception(AccessoryDisconnectedError("Connection closed"))
                p.pending = []
                c.transport, c.protocol = None, None
        elif k[0] == "r":
            if c.protocol is None:
                n += 1
                c.transport, c.protocol = _Transport(n), _Proto(w, n)
        elif k[0] == "t":
            await settle()
    problems = []
    seen = set()
    for rid, conn in w.sent:
        if rid in seen:
            problems.append(("slot/written-twice", f"request {rid} was written twice"))
        seen.add(rid)
        if issued_on.get(rid) != conn:
            problems.append(("slot/written-on-another-connection", f"request {rid} was issued on connection {issued_on.get(rid)} but written on connection {conn}"))
    sent_on = dict(w.sent)
    log = []
    for rid, o in finished:
        if o == "ok":
            log.append(f"{rid}=ok@{sent_on.get(rid)}")
        else:
            log.append(f"{rid}={o}")
            if o not in ("disc",):
                problems.append(("slot/wrong-error", f"request {rid} ended with {o}"))
    for t in tasks.values():
        t.cancel()
    await asyncio.gather(*tasks.values(), return_exceptions=True)
    out = "sent=" + (",".join(f"{r}@{c_}" for r, c_ in w.sent) or "-") + " log=" + (",".join(log) or "-")
    return out, problems


def canon(s):
    """the order in which callers FINISH inside one loop run is asyncio's, not the property's: compare the outcomes as a set"""
    sent, log = s.split(" ")
    return sent + " log=" + ",".join(sorted(log[4:].split(",")))


def directed():
    """every history over {issue, answer, lose, reconnect, tick} of length <= 6 (ids assigned in order of appearance, <= 4 callers)"""
    out = []

    def rec(prefix, nid, depth):
        out.append(list(prefix))
        if depth == 0:
            return
        if nid < 4:
            rec(prefix + [f"i:{nid + 1}"], nid + 1, depth - 1)
        if nid:
            for a in ("a", "l", "r", "t"):
                rec(prefix + [a], nid, depth - 1)
    rec([], 0, 6)
    return out


def gen(rng):
    evs, nid = [], 0
    for _ in range(rng.randrange(4, 18)):
        r = rng.random()
        if r < 0.35 or nid == 0:
            nid += 1
            evs.append(f"i:{nid}")
        elif r < 0.55:
            evs.append("a")
        elif r < 0.72:
            evs.append("l")
        elif r < 0.88:
            evs.append("r")
        else:
            evs.append("t")
    return evs


def run_slot(ctx: Ctx, driver: Driver):
    loop = asyncio.new_event_loop()
    asyncio.set_event_loop(loop)
    rng = ctx.rng
    hist = directed()
    if not ctx.thorough():
        hist = [h for i, h in enumerate(hist) if len(h) <= 4 or i % 6 == ctx.seed % 6]
    hist += [gen(rng) for _ in range(ctx.budget(400, 8000))]
    cases, outs, lines = [], [], []
    try:
        for evs in hist:
            case = {"stream": "slot", "events": evs}
            try:
                out, problems = loop.run_until_complete(scenario(evs))
            except Exception as e:  # noqa: BLE001
                ctx.violation("slot/scenario-raised", f"{type(e).__name__}: {e} on {' '.join(evs)}", case)
                continue
            ctx.evaluations += 1
            ctx.nontrivial.add(("slot",) + tuple(evs))
            ctx.dist["slot"] += 1
            if "l" in evs and "r" in evs:
                ctx.dist["slot:loss-and-reconnection-in-one-history"] += 1
            for sig, what in problems[:2]:
                ctx.violation("plain/" + sig, what + f" [history: {' '.join(evs)}]", case)
            cases.append(case)
            outs.append(out)
            lines.append("rq.queue g " + " ".join(evs))
    finally:
        asyncio.set_event_loop(None)
        loop.close()
    compare_with_model(ctx, "slot", cases, outs, lines, driver, canon=canon)


def replay_slot(ctx: Ctx, driver: Driver, case):
    loop = asyncio.new_event_loop()
    asyncio.set_event_loop(loop)
    try:
        out, problems = loop.run_until_complete(scenario(case["events"]))
    finally:
        asyncio.set_event_loop(None)
        loop.close()
    compare_with_model(ctx, "slot", [case], [out], ["rq.queue g " + " ".join(case["events"])], driver, canon=canon)
    return "; ".join(f"{s}: {w}" for s, w in problems) or None
