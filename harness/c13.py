"""C13 - reads and writes report per-characteristic outcomes faithfully."""
from __future__ import annotations

import asyncio
import copy
import itertools
import json

from harness.c04 import unwrap
from harness.common import Ctx, Driver, compare_with_model, load_corpus

import aiohomekit.controller.coap.pdu as cp
from aiohomekit.controller.ble.client import PDUStatusError
from aiohomekit.controller.ble.pairing import BlePairing
from aiohomekit.controller.coap.connection import CoAPHomeKitConnection
from aiohomekit.controller.coap.pairing import CoAPPairing
from aiohomekit.controller.ip.pairing import IpPairing
from aiohomekit.model import Accessories, AccessoriesState, Accessory
from aiohomekit.model.characteristics import CharacteristicPermissions, CharacteristicsTypes
from aiohomekit.model.services import ServicesTypes
from aiohomekit.pdu import PDUStatus
from aiohomekit.protocol.statuscodes import HapStatusCode, to_status_code

ID = "C13"
RULE = ("request sets of 1..4 characteristics over 1..2 aids x permissions {pr+pw, pw, pr+pw+tw, pw+tw, pr}; replies: EVERY status vector over {0, a HAP code, the same code "
        "positive-signed, an unknown code} for <=3 items (exhaustive), 204 vs 207, request-wide status with full/partial/absent lists, duplicated, non-dict, id-less and status-less "
        "entries; IP read + IP/CoAP/BLE write. non-trivial = distinct (path, status vector, shape)")
TRUSTED = ["aiohomekit.model (Accessories/Characteristic.perms) as the source of permissions", "json for the line protocol"]
ASSUMPTIONS = ["reply JSON is an object; ids and statuses are integers (domain of the model)",
               "BLE: the GATT request layer is replaced by a stub that raises PDUStatusError for a rejected write (C17 covers the PDU layer)"]
EXPLANATION = "Lean theorems C13_* over models of format_characteristic_list / to_status_code / put paths (status table regenerated from source); differential tie on the public pairing methods"

CODES = [0, -70402, 70410, 12345]
ALLCODES = [0] + [c.value for c in HapStatusCode if c.value not in (0, -1)] + [70401, 70409, 5, -99999, 12345]


def J(x):
    return json.dumps(x, separators=(",", ":"), sort_keys=False)


def canon_result(d):
    rows = []
    for k in sorted(d):
        v = d[k]
        if isinstance(v, dict):
            v = {kk: (vv.value if isinstance(vv, HapStatusCode) else vv) for kk, vv in v.items()}
        rows.append(f"{k[0]}.{k[1]}=" + json.dumps(v, separators=(",", ":"), sort_keys=True))
    return ";".join(rows) or "-"


def keys_str(ks):
    return ",".join(f"{a}.{i}" for a, i in sorted(ks)) or "-"


PERMS = {
    "rw": [CharacteristicPermissions.paired_read, CharacteristicPermissions.paired_write],
    "w": [CharacteristicPermissions.paired_write],
    "trw": [CharacteristicPermissions.paired_read, CharacteristicPermissions.paired_write, CharacteristicPermissions.timed_write],
    "tw": [CharacteristicPermissions.paired_write, CharacteristicPermissions.timed_write],
    "r": [CharacteristicPermissions.paired_read],
}


def build_accessories(layout):
    """layout: {(aid, iid): perm name} -> Accessories with real Characteristic objects (explicit iids)"""
    by_aid = {}
    for (aid, iid), perm in sorted(layout.items()):
        by_aid.setdefault(aid, []).append({"iid": iid, "type": CharacteristicsTypes.ON, "perms": [str(x.value) if hasattr(x, "value") else str(x) for x in PERMS[perm]], "format": "bool", "value": False})
    lst = []
    for aid, chars in sorted(by_aid.items()):
        lst.append({"aid": aid, "services": [{"iid": 1000, "type": ServicesTypes.LIGHTBULB, "characteristics": chars}]})
    return Accessories.from_list(lst)


def malformed(rng):
    return rng.choice([True, 5, "x", None, [], {"iid": 4}, {"aid": 1}, {"value": 3}])


def wellformed(k, status):
    e = {"aid": k[0], "iid": k[1]}
    if status is not None:
        e["status"] = status
    return e


async def _noop(*a, **k):
    return None


def run(ctx: Ctx, driver: Driver):
    rng = ctx.rng
    loop = asyncio.new_event_loop()
    for c in load_corpus(ID):
        replay(ctx, driver, c)
    status_stream(ctx, driver)
    ip_read(ctx, driver, rng, loop)
    ip_write(ctx, driver, rng, loop)
    coap_write(ctx, driver, rng, loop)
    ble_write(ctx, driver, rng, loop)
    loop.close()


def status_stream(ctx, driver):
    cases, outs, lines = [], [], []
    for s in sorted(set(ALLCODES + [-x for x in ALLCODES] + list(range(-3, 4)))):
        sc = to_status_code(s)
        ctx.evaluations += 1
        if (sc == HapStatusCode.SUCCESS) != (s == 0):
            ctx.violation("status/zero", f"status {s} normalises to {sc}", {"stream": "status", "s": s})
        if to_status_code(-s) != sc:
            ctx.violation("status/sign", f"status {s} and {-s} normalise differently", {"stream": "status", "s": s})
        cases.append({"stream": "status", "s": s})
        outs.append(f"{sc.value} {sc.description.replace(' ', '_')}")
        lines.append(f"cl.status {s}")
        ctx.nontrivial.add(("status", s))
    compare_with_model(ctx, "status", cases, outs, lines, driver)


def gen_requests(rng):
    n = rng.randint(1, 4)
    keys = set()
    while len(keys) < n:
        keys.add((rng.choice([1, 1, 2]), rng.randint(2, 12)))
    return sorted(keys)


def ip_read(ctx, driver, rng, loop):
    cases, outs, lines = [], [], []

    def one(req, data, shape):
        p = IpPairing.__new__(IpPairing)
        p._ensure_connected = _noop
        p._accessories_state = AccessoriesState(build_accessories({k: "rw" for k in req}), 1, None, 0)

        class Conn:
            async def get_json(self, url):
                return copy.deepcopy(data)
        p.connection = Conn()
        ctx.evaluations += 1
        case = {"stream": "ipread", "requested": req, "reply": data}
        try:
            r = loop.run_until_complete(p.get_characteristics(req))
        except Exception as e:  # noqa: BLE001
            ctx.violation("ipread/" + type(e).__name__, f"get_characteristics raised {type(e).__name__} on reply {J(data)[:200]}", case)
            return
        out = canon_result(r)
        # ---- oracle
        entries = data.get("characteristics", []) if isinstance(data.get("characteristics", []), list) else []
        g = data.get("status", 0)
        for k in req:
            last = None
            for e in entries:
                if isinstance(e, dict) and e.get("aid") == k[0] and e.get("iid") == k[1] and "aid" in e and "iid" in e:
                    last = e
            got = r.get(k)
            if last is not None:
                st = last.get("status", 0)
                if st != 0:
                    ok = got is not None and got.get("status") == st and "description" in got
                else:
                    ok = got is not None and "status" not in got and got.get("value", None) == last.get("value", None)
                if not ok:
                    ctx.violation("ipread/mentioned", f"read result for {k} is {got} but the accessory's last entry for it is {last}", case)
            elif g != 0:
                if not (got is not None and got.get("status") == g):
                    ctx.violation("ipread/global", f"request-wide status {g} not applied to unmentioned {k}: {got}", case)
            elif got is not None:
                ctx.violation("ipread/invented", f"result {got} invented for unmentioned {k}", case)
        ctx.nontrivial.add(("ipread", shape))
        cases.append(case)
        outs.append(out)
        lines.append(f"cl.format {keys_str(req)} {J(data)}")
        ctx.dist["ipread"] += 1

    # exhaustive status vectors for <= 3 items
    for n in (1, 2, 3):
        req = [(1, 2), (1, 3), (2, 4)][:n]
        for vec in itertools.product([None] + CODES, repeat=n):  # None = entry carries a value, no status
            entries = []
            for k, st in zip(req, vec):
                e = wellformed(k, st)
                if st in (None, 0):
                    e["value"] = k[1] * 10
                entries.append(e)
            for g in (None, 0, -70402, 70410, 777):
                data = {"characteristics": entries}
                if g is not None:
                    data["status"] = g
                one(req, data, ("vec", vec, g))
    for _ in range(ctx.budget(800, 20000)):
        req = gen_requests(rng)
        entries = []
        for k in req:
            r = rng.random()
            if r < 0.2:
                continue  # not mentioned
            st = rng.choice([None, 0] + ALLCODES)
            e = wellformed(k, st)
            if st in (None, 0):
                e["value"] = rng.choice([1, True, "on", None, 0])
            if rng.random() < 0.2:
                e["ev"] = True
            entries.append(e)
            if rng.random() < 0.15:
                entries.append(wellformed(k, rng.choice([0, -70409])))  # duplicate
        for _ in range(rng.choice([0, 0, 1, 2])):
            entries.insert(rng.randint(0, len(entries)), malformed(rng))
        if rng.random() < 0.1:
            entries.append(wellformed((9, 99), rng.choice([0, -70409])))  # not requested
        data = {}
        if rng.random() < 0.85:
            data["characteristics"] = entries
        if rng.random() < 0.4:
            data["status"] = rng.choice(ALLCODES)
        one(req, data, ("rand", len(req), len(entries), "status" in data, "characteristics" in data))
    ctx.sample({k: v for k, v in cases[37].items()})
    compare_with_model(ctx, "ipread", cases, outs, lines, driver)


def ip_write(ctx, driver, rng, loop):
    cases, outs, lines = [], [], []

    def one(layout, resp, shape):
        req = sorted(layout)
        p = IpPairing.__new__(IpPairing)
        p._ensure_connected = _noop
        p._accessories_state = AccessoriesState(build_accessories(layout), 1, None, 0)
        events = []
        p.listeners = {events.append}

        class Conn:
            async def put_json(self, url, body):
                return copy.deepcopy(resp) if resp is not None else {}
        p.connection = Conn()
        ctx.evaluations += 1
        case = {"stream": "ipwrite", "layout": {f"{a}.{i}": v for (a, i), v in layout.items()}, "reply": resp}
        try:
            r = loop.run_until_complete(p.put_characteristics([(a, i, True) for a, i in req]))
        except Exception as e:  # noqa: BLE001
            ctx.violation("ipwrite/" + type(e).__name__, f"put_characteristics raised {type(e).__name__} on reply {J(resp)[:200]}", case)
            return
        notified = {}
        for ev in events:
            notified.update(ev)
        readable = [k for k in req if "r" in layout[k]]
        entries = (resp or {}).get("characteristics", [])
        rejected = set()
        listed = {}
        for e in entries:
            if isinstance(e, dict) and "aid" in e and "iid" in e and "status" in e:
                listed.setdefault((e["aid"], e["iid"]), []).append(e["status"])
                if e["status"] != 0:
                    rejected.add((e["aid"], e["iid"]))
        want = {k for k in readable if k not in rejected}
        if set(notified) != want:
            fs = set(notified) - want
            ctx.violation("ipwrite/false-success" if fs else "ipwrite/accepted-not-notified",
                          f"listeners notified for {sorted(notified)} but accepted readable = {sorted(want)} (rejected {sorted(rejected)})", case)
        elif any(v != {"value": True} for v in notified.values()):
            ctx.violation("ipwrite/value", "listener update does not carry the written value", case)
        for k, sts in listed.items():
            if len(sts) == 1:
                got = r.get(k)
                if got is None or got.get("status") != sts[0]:
                    ctx.violation("ipwrite/status", f"{k}: accessory status {sts[0]} reported as {got}", case)
        for k in r:
            if k not in listed:
                ctx.violation("ipwrite/invented-status", f"{k} reported {r[k]} although the reply does not list it", case)
        ctx.nontrivial.add(("ipwrite", shape))
        cases.append(case)
        outs.append(f"{keys_str(notified)} | {canon_result(r)}")
        lines.append(f"cl.ipput {keys_str(readable)} {'204' if resp is None else J(resp)}")
        ctx.dist["ipwrite"] += 1

    def request_wide(layout, resp):
        """a write reply that carries only a request-wide non-zero status and lists no characteristic: nothing was written -
        the call fails or reports every characteristic with a non-zero status, and no listener hears of a new value"""
        req = sorted(layout)
        p = IpPairing.__new__(IpPairing)
        p._ensure_connected = _noop
        p._accessories_state = AccessoriesState(build_accessories(layout), 1, None, 0)
        events = []
        p.listeners = {events.append}

        class Conn:
            async def put_json(self, url, body):
                return copy.deepcopy(resp)
        p.connection = Conn()
        ctx.evaluations += 1
        case = {"stream": "ipwrite-request-wide", "layout": {f"{a}.{i}": v for (a, i), v in layout.items()}, "reply": resp}
        raised = None
        r = {}
        try:
            r = loop.run_until_complete(p.put_characteristics([(a, i, True) for a, i in req]))
        except Exception as e:  # noqa: BLE001
            raised = type(e).__name__
        notified = {}
        for ev in events:
            notified.update(ev)
        if notified:
            ctx.violation("ipwrite/false-success", f"write of {req} answered {J(resp)} (request-wide status, nothing listed): listeners were told {sorted(notified)} have the new value"
                          + ("" if raised else f" and the call returned {canon_result(r)}"), case)
        elif raised is None and any(r.get(k, {}).get("status", 0) == 0 for k in req):
            ctx.violation("ipwrite/false-success", f"write of {req} answered {J(resp)}: the call returned {canon_result(r)} - rejected characteristics presented as written", case)
        ctx.nontrivial.add(("ipwrite-request-wide", len(req), resp.get("status")))
        ctx.dist["ipwrite-request-wide"] += 1

    perms = ["rw", "w", "trw", "tw"]
    for n in (1, 2, 3):
        req = [(1, 2), (1, 3), (2, 4)][:n]
        for pv in itertools.product(["rw", "w"], repeat=n):
            for code in (-70401, -70403, -70410):
                request_wide(dict(zip(req, pv)), {"status": code})
    for n in (1, 2, 3):
        req = [(1, 2), (1, 3), (2, 4)][:n]
        for pv in itertools.product(["rw", "w"], repeat=n):
            layout = dict(zip(req, pv))
            one(layout, None, ("204", pv))
            for vec in itertools.product(["absent"] + CODES, repeat=n):
                entries = [wellformed(k, st) for k, st in zip(req, vec) if st != "absent"]
                one(layout, {"characteristics": entries}, ("vec", pv, vec))
    for _ in range(ctx.budget(600, 15000)):
        req = gen_requests(rng)
        layout = {k: rng.choice(perms) for k in req}
        if rng.random() < 0.15:
            one(layout, None, ("204r", len(req)))
            continue
        entries = []
        for k in req:
            if rng.random() < 0.25:
                continue
            entries.append(wellformed(k, rng.choice(ALLCODES + [0, 0])))
            if rng.random() < 0.1:
                entries.append(wellformed(k, rng.choice([0, -70410])))
        for _ in range(rng.choice([0, 0, 1, 2])):
            entries.insert(rng.randint(0, len(entries)), rng.choice([malformed(rng), {"aid": req[0][0], "iid": req[0][1]}]))
        one(layout, {"characteristics": entries}, ("rand", len(req), len(entries)))
    ctx.sample(cases[55])
    compare_with_model(ctx, "ipwrite", cases, outs, lines, driver)


def coap_write(ctx, driver, rng, loop):
    cases, outs, lines = [], [], []
    conn0 = CoAPHomeKitConnection.__new__(CoAPHomeKitConnection)
    statuses = [b"", cp.PDUStatus.INVALID_REQUEST, cp.PDUStatus.TID_MISMATCH, cp.PDUStatus.BAD_CONTROL, cp.PDUStatus.INSUFFICIENT_AUTHORIZATION]
    combos = []
    for n in (1, 2, 3):
        for vec in itertools.product(range(len(statuses)), repeat=n):
            for pv in itertools.product(["rw", "w"], repeat=n):
                combos.append((vec, pv))
    rng.shuffle(combos)
    for vec, pv in combos[:ctx.budget(600, len(combos))]:
        req = [(1, 2), (1, 3), (1, 4)][:len(vec)]
        layout = dict(zip(req, pv))
        results = [statuses[i] for i in vec]
        p = CoAPPairing.__new__(CoAPPairing)
        p._ensure_connected = _noop
        p._accessories_state = AccessoriesState(build_accessories(layout), 1, None, 0)
        events = []
        p.listeners = {events.append}

        class Conn:
            async def write_characteristics(self, chars):
                return conn0._write_characteristics_exit(list(chars), results)
        p.connection = Conn()
        ctx.evaluations += 1
        case = {"stream": "coapwrite", "perms": list(pv), "results": [r.value if not isinstance(r, bytes) else 0 for r in results]}
        try:
            r = loop.run_until_complete(p.put_characteristics([(a, i, True) for a, i in req]))
        except Exception as e:  # noqa: BLE001
            ctx.violation("coapwrite/" + type(e).__name__, f"raised {type(e).__name__}", case)
            continue
        notified = {}
        for ev in events:
            notified.update(ev)
        want = {k for k, res in zip(req, results) if isinstance(res, bytes) and "r" in layout[k]}
        rej = {k for k, res in zip(req, results) if not isinstance(res, bytes)}
        if set(notified) != want:
            ctx.violation("coapwrite/listeners", f"notified {sorted(notified)} but accepted readable = {sorted(want)}", case)
        if set(r) != rej or any(v.get("status", 0) == 0 for v in r.values()):
            ctx.violation("coapwrite/status", f"reported {r} but rejected = {sorted(rej)}", case)
        ctx.nontrivial.add(("coapwrite", vec, pv))
        cases.append(case)
        outs.append(f"{keys_str(notified)} | {keys_str(r)}")
        lines.append("cl.coapput " + " ".join(f"{a}.{i}:{'r' if 'r' in layout[(a, i)] else 'w'}:{0 if isinstance(res, bytes) else res.value}" for (a, i), res in zip(req, results)))
    compare_with_model(ctx, "coapwrite", cases, outs, lines, driver)


def ble_write(ctx, driver, rng, loop):
    cases, outs, lines = [], [], []
    inner = unwrap(BlePairing.put_characteristics, "put_characteristics")
    perms = ["rw", "w", "trw", "tw", "r"]
    combos = []
    for n in (1, 2, 3):
        for pv in itertools.product(perms, repeat=n):
            for acc in itertools.product([True, False], repeat=n):
                combos.append((pv, acc))
    rng.shuffle(combos)
    for pv, acc in combos[:ctx.budget(500, len(combos))]:
        req = [(1, 2), (1, 3), (1, 4)][:len(pv)]
        layout = dict(zip(req, pv))
        accepted = dict(zip(req, acc))
        p = BlePairing.__new__(BlePairing)
        p._accessories_state = AccessoriesState(build_accessories(layout), 1, None, 0)
        p._ble_request_lock = asyncio.Lock()
        p.description = None
        p.device = None
        p.id = "x"
        p.pairing_data = {"AccessoryAddress": "AA:BB"}
        p.ble_advertisement = None
        events = []
        p.listeners = {events.append}
        written = []

        async def req_fn(opcode, char, data=None, iid=None):
            written.append((char.iid, opcode.name))
            if not accepted[(1, char.iid)] and opcode.name != "CHAR_EXEC_WRITE":
                raise PDUStatusError(PDUStatus.INVALID_REQUEST.value, "rejected")
            return b""
        p._async_request_under_lock = req_fn
        ctx.evaluations += 1
        case = {"stream": "blewrite", "perms": list(pv), "accepted": list(acc)}
        raised = False
        r = {}
        try:
            r = loop.run_until_complete(inner(p, [(a, i, True) for a, i in req]))
        except PDUStatusError:
            raised = True
        except Exception as e:  # noqa: BLE001
            ctx.violation("blewrite/" + type(e).__name__, f"raised {type(e).__name__}", case)
            continue
        notified = {}
        for ev in events:
            notified.update(ev)
        # oracle: first rejected writable one raises; before it: notified = accepted readable; read-only -> reported CANT_WRITE_READ_ONLY
        exp_notified, exp_err, exp_raise = [], [], False
        for k in req:
            if "w" not in layout[k]:
                exp_err.append(k)
                continue
            if not accepted[k]:
                exp_raise = True
                break
            if "r" in layout[k]:
                exp_notified.append(k)
        if raised != exp_raise or set(notified) != set(exp_notified) or (not raised and set(r) != set(exp_err)):
            ctx.violation("blewrite/outcome", f"perms {pv} accepted {acc}: raised={raised} notified={sorted(notified)} errors={sorted(r)}; expected raised={exp_raise} notified={exp_notified} errors={exp_err}", case)
        ctx.nontrivial.add(("blewrite", pv, acc))
        cases.append(case)
        outs.append(f"{keys_str(notified)} | {keys_str(r) if not raised else keys_str(exp_err)} | {'raised' if raised else 'returned'}")
        lines.append("cl.bleput " + " ".join(f"{a}.{i}:{layout[(a, i)]}:{1 if accepted[(a, i)] else 0}" for a, i in req))
    compare_with_model(ctx, "blewrite", cases, outs, lines, driver)


def replay(ctx, driver, c):
    loop = asyncio.new_event_loop()
    try:
        if c["stream"] == "ipwrite":
            layout = {tuple(int(x) for x in k.split(".")): v for k, v in c["layout"].items()}
            req = sorted(layout)
            p = IpPairing.__new__(IpPairing)
            p._ensure_connected = _noop
            p._accessories_state = AccessoriesState(build_accessories(layout), 1, None, 0)
            events = []
            p.listeners = {events.append}
            resp = c["reply"]

            class Conn:
                async def put_json(self, url, body):
                    return copy.deepcopy(resp) if resp is not None else {}
            p.connection = Conn()
            try:
                loop.run_until_complete(p.put_characteristics([(a, i, True) for a, i in req]))
            except Exception as e:  # noqa: BLE001
                return f"raised {type(e).__name__}"
            notified = set()
            for ev in events:
                notified.update(ev)
            rejected = {(e["aid"], e["iid"]) for e in (resp or {}).get("characteristics", []) if isinstance(e, dict) and "aid" in e and "iid" in e and e.get("status", 0) != 0}
            want = {k for k in req if "r" in layout[k] and k not in rejected}
            if notified != want:
                return f"notified {sorted(notified)} != accepted readable {sorted(want)}"
        return None
    finally:
        loop.close()
