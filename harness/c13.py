"""C13 - reads and writes report per-characteristic outcomes faithfully."""
from __future__ import annotations

import asyncio
import collections.abc
import copy
import enum
import itertools
import json
import struct
import types

from harness.c04 import unwrap
from harness.common import Ctx, Driver, compare_with_model, load_corpus

import aiohomekit.controller.coap.pdu as cp
from aiohomekit.controller.ble.client import PDUStatusError
from aiohomekit.controller.ble.pairing import BlePairing
from aiohomekit.controller.coap.connection import CoAPHomeKitConnection
from aiohomekit.controller.coap.pairing import CoAPPairing
from aiohomekit.controller.ip.pairing import IpPairing
from aiohomekit.model import Accessories, AccessoriesState, Accessory
from aiohomekit.model.characteristics import CharacteristicPermissions, CharacteristicsTypes
from aiohomekit.model.services import ServicesTypes
from aiohomekit.pdu import PDUStatus
from aiohomekit.protocol.statuscodes import HapStatusCode, to_status_code

ID = "C13"
RULE = ("request sets of 1..4 characteristics over 1..2 aids x permissions {pr+pw, pw, pr+pw+tw, pw+tw, pr}; replies: EVERY status vector over {0, a HAP code, the same code "
        "positive-signed, an unknown code} for <=3 items (exhaustive), 204 vs 207, request-wide status with full/partial/absent lists, duplicated, non-dict, id-less and status-less "
        "entries; IP read + IP/CoAP/BLE write; END TO END on all three transports (public put/get_characteristics, subscribe/unsubscribe over the real CoAPHomeKitConnection+"
        "EncryptionContext.post/post_all, the real BLE request/PDU-fragment/session-key code, the real IP secure framing + HTTP parser; only the aiocoap context / GATT client / TCP "
        "transport is an in-memory accessory that decrypts, decides per item and answers): requests of 1..4 items INCLUDING lone ones, every accept/reject vector for <=3 items "
        "(rejected first/middle/last/only), every PDU error status 1..6 resp. every HAP status, value formats bool/uint8/int/float/string, BLE timed writes refused at either stage, "
        "IP reply styles spec/positive-signed/terse/always-207/400, histories of 2..8 operations on one session; reads, subscriptions and writes over EVERY permission class "
        "(also none at all, hidden, the unsecured-only bits of the pairing-service characteristics, Identify) alone / paired with a readable one in both orders / requests made only "
        "of unreadable ones, a requested characteristic the accessory was never asked about must still get an error entry; IP: the reply's STATUS LINE varied independently of its "
        "body - every HTTP status {200,204,207,400,404,422,470,500,503} x body shape {none, {}, full list, failures only, request-wide status, request-wide status + partial list} "
        "x accept/reject vector an honest accessory can produce, for write/read/subscribe/unsubscribe/identify(), a refusal the body tells is never presented as done whatever the "
        "status line says; EVERY KIND OF ITERABLE the entry points' annotation allows (list, tuple, set, frozenset, dict keys view, generator expression, map, zip, iter(), a caller's "
        "own one-pass Iterable, a caller's own re-iterable Sequence) handed to every public read / write / subscribe / unsubscribe entry point of every transport, each crossed with "
        "the reply shapes above (per-item statuses in every accessory style; IP: status line x body shape incl. request-wide status with a partial / absent list; one or two "
        "accessories; the stubbed IP read / write streams re-run their replies - malformed, duplicated, id-less entries included - under every kind), judged against the list the "
        "harness itself put into the iterable. non-trivial = distinct (path, status vector, shape, kind of iterable)")
TRUSTED = ["aiohomekit.model (Accessories/Characteristic.perms) as the source of permissions", "json for the line protocol"]
ASSUMPTIONS = ["reply JSON is an object; ids and statuses are integers (domain of the model)",
               "BLE (stub stream): the GATT request layer is replaced by a stub that raises PDUStatusError for a rejected write (C17 covers the PDU layer)",
               "end-to-end streams: the session keys are given (pair-verify is C01's), the BLE pairing's model is built from the layout (the GATT database fetch is C16/C17's); the "
               "in-memory accessory is conformant (answers every item under the request's transaction id / in a well-formed HTTP reply); instance ids are unique over the database",
               "IP replies worded freely (status line varied independently of the body): the accessory is honest - what it accepted / refused is what its log says and, where the "
               "reply has a body, what the body says; the call may FAIL on a reply whose status line and body contradict each other; a refusal that no body tells (no body, {}, "
               "bytes after a 204 status line), a request-wide status or a 4xx status line in the reply to a SUBSCRIPTION request are noted in the evidence, not judged",
               "iterables: entry points of the unchanged library that walk / index their argument more than once (CoAP get / put / unsubscribe) FAIL when handed an iterable that "
               "does not survive that (one-pass; for put / unsubscribe also set-like): that failure (and the listeners not being told by a failed call) is counted and noted in the "
               "evidence with an input, not judged; every other clause is judged there too, and every other (entry point, kind of iterable) is judged in full",
               "BLE reads: a characteristic the accessory refused to read is left out of the result by the unchanged library (open known finding ble-e2e/read-refused-item-omitted); it must never be given a value"]
EXPLANATION = "Lean theorems C13_* over models of format_characteristic_list / to_status_code / put paths (status table regenerated from source); differential tie on the public pairing methods"

CODES = [0, -70402, 70410, 12345]
ALLCODES = [0] + [c.value for c in HapStatusCode if c.value not in (0, -1)] + [70401, 70409, 5, -99999, 12345]


def J(x):
    return json.dumps(x, separators=(",", ":"), sort_keys=False)


def canon_result(d):
    rows = []
    for k in sorted(d):
        v = d[k]
        if isinstance(v, dict):
            v = {kk: (vv.value if isinstance(vv, HapStatusCode) else vv) for kk, vv in v.items()}
        rows.append(f"{k[0]}.{k[1]}=" + json.dumps(v, separators=(",", ":"), sort_keys=True))
    return ";".join(rows) or "-"


def keys_str(ks):
    return ",".join(f"{a}.{i}" for a, i in sorted(ks)) or "-"


PERMS = {
    "rw": [CharacteristicPermissions.paired_read, CharacteristicPermissions.paired_write],
    "w": [CharacteristicPermissions.paired_write],
    "trw": [CharacteristicPermissions.paired_read, CharacteristicPermissions.paired_write, CharacteristicPermissions.timed_write],
    "tw": [CharacteristicPermissions.paired_write, CharacteristicPermissions.timed_write],
    "r": [CharacteristicPermissions.paired_read],
}


def build_accessories(layout):
    """layout: {(aid, iid): perm name} -> Accessories with real Characteristic objects (explicit iids)"""
    by_aid = {}
    for (aid, iid), perm in sorted(layout.items()):
        by_aid.setdefault(aid, []).append({"iid": iid, "type": CharacteristicsTypes.ON, "perms": [str(x.value) if hasattr(x, "value") else str(x) for x in PERMS[perm]], "format": "bool", "value": False})
    lst = []
    for aid, chars in sorted(by_aid.items()):
        lst.append({"aid": aid, "services": [{"iid": 1000, "type": ServicesTypes.LIGHTBULB, "characteristics": chars}]})
    return Accessories.from_list(lst)


def malformed(rng):
    return rng.choice([True, 5, "x", None, [], {"iid": 4}, {"aid": 1}, {"value": 3}])


def wellformed(k, status):
    e = {"aid": k[0], "iid": k[1]}
    if status is not None:
        e["status"] = status
    return e


async def _noop(*a, **k):
    return None


# ---------------------------------------------------------------------------------------------------------------------
# The read / write / subscribe entry points take an Iterable (that is their annotation): every kind of iterable a caller
# may hand in.  The harness builds the iterable from ITS OWN list of rows, so it always knows what the caller named.
# ---------------------------------------------------------------------------------------------------------------------
class OnePass(collections.abc.Iterable):
    """a caller's own Iterable that can be walked ONCE (a cursor over a query result): every __iter__ hands out the same underlying iterator"""

    def __init__(self, rows):
        self._it = iter(list(rows))

    def __iter__(self):
        return self._it


class Rows(collections.abc.Sequence):
    """a caller's own re-iterable, indexable Sequence that is not a list / tuple"""

    def __init__(self, rows):
        self._rows = list(rows)

    def __getitem__(self, i):
        return self._rows[i]

    def __len__(self):
        return len(self._rows)


ITER_KINDS = ["list", "tuple", "set", "frozenset", "keys", "gen", "map", "zip", "iter", "onepass", "seq"]
ONE_PASS = frozenset(["gen", "map", "zip", "iter", "onepass"])  # a second walk over these is empty
NOT_INDEXABLE = frozenset(["set", "frozenset", "keys"]) | ONE_PASS  # x[i] is a TypeError on these


def make_iterable(kind, rows):
    rows = [tuple(r) for r in rows]
    if kind == "tuple":
        return tuple(rows)
    if kind == "set":
        return set(rows)
    if kind == "frozenset":
        return frozenset(rows)
    if kind == "keys":
        return dict.fromkeys(rows).keys()
    if kind == "gen":
        return (r for r in rows)
    if kind == "map":
        return map(tuple, [list(r) for r in rows])
    if kind == "zip":
        return zip(*[[r[j] for r in rows] for j in range(len(rows[0]))]) if rows else zip()
    if kind == "iter":
        return iter(rows)
    if kind == "onepass":
        return OnePass(rows)
    if kind == "seq":
        return Rows(rows)
    return list(rows)


def run(ctx: Ctx, driver: Driver):
    rng = ctx.rng
    loop = asyncio.new_event_loop()
    for c in load_corpus(ID):
        replay(ctx, driver, c)
    status_stream(ctx, driver)
    ip_read(ctx, driver, rng, loop)
    ip_write(ctx, driver, rng, loop)
    coap_write(ctx, driver, rng, loop)
    ble_write(ctx, driver, rng, loop)
    loop.close()
    e2e_streams(ctx, driver, rng)


def status_stream(ctx, driver):
    cases, outs, lines = [], [], []
    for s in sorted(set(ALLCODES + [-x for x in ALLCODES] + list(range(-3, 4)))):
        sc = to_status_code(s)
        ctx.evaluations += 1
        if (sc == HapStatusCode.SUCCESS) != (s == 0):
            ctx.violation("status/zero", f"status {s} normalises to {sc}", {"stream": "status", "s": s})
        if to_status_code(-s) != sc:
            ctx.violation("status/sign", f"status {s} and {-s} normalise differently", {"stream": "status", "s": s})
        cases.append({"stream": "status", "s": s})
        outs.append(f"{sc.value} {sc.description.replace(' ', '_')}")
        lines.append(f"cl.status {s}")
        ctx.nontrivial.add(("status", s))
    compare_with_model(ctx, "status", cases, outs, lines, driver)


def gen_requests(rng):
    n = rng.randint(1, 4)
    keys = set()
    while len(keys) < n:
        keys.add((rng.choice([1, 1, 2]), rng.randint(2, 12)))
    return sorted(keys)


def ipread_call(loop, req, data, as_kind="list"):
    """IpPairing.get_characteristics(<iterable of kind as_kind over req>) with the accessory's reply being `data` -> result dict (raises what the call raises)"""
    p = IpPairing.__new__(IpPairing)
    p._ensure_connected = _noop
    p._accessories_state = AccessoriesState(build_accessories({tuple(k): "rw" for k in req}), 1, None, 0)

    class Conn:
        async def get_json(self, url):
            return copy.deepcopy(data)
    p.connection = Conn()
    return loop.run_until_complete(p.get_characteristics(make_iterable(as_kind, req)))


def ipread_problems(req, data, r):
    """the per-characteristic oracle of a read: req = what the CALLER named (the harness's own list), data = the accessory's reply, r = the result"""
    P = []
    entries = data.get("characteristics", []) if isinstance(data.get("characteristics", []), list) else []
    g = data.get("status", 0)
    for k in req:
        k = tuple(k)
        last = None
        for e in entries:
            if isinstance(e, dict) and e.get("aid") == k[0] and e.get("iid") == k[1] and "aid" in e and "iid" in e:
                last = e
        got = r.get(k)
        if last is not None:
            st = last.get("status", 0)
            if st != 0:
                ok = got is not None and got.get("status") == st and "description" in got
            else:
                ok = got is not None and "status" not in got and got.get("value", None) == last.get("value", None)
            if not ok:
                P.append(("ipread/mentioned", f"read result for {k} is {got} but the accessory's last entry for it is {last}"))
        elif g != 0:
            if not (got is not None and got.get("status") == g):
                P.append(("ipread/global", f"request-wide status {g} not applied to unmentioned {k}: {got}"))
        elif got is not None:
            P.append(("ipread/invented", f"result {got} invented for unmentioned {k}"))
    return P


def ip_read(ctx, driver, rng, loop):
    cases, outs, lines = [], [], []
    done = []

    def one(req, data, shape, as_kind="list"):
        ctx.evaluations += 1
        case = {"stream": "ipread", "requested": req, "reply": data}
        how = ""
        if as_kind != "list":
            case["as"] = as_kind
            how = f" [requested characteristics handed in as a {as_kind}]"
        try:
            r = ipread_call(loop, req, data, as_kind)
        except Exception as e:  # noqa: BLE001
            ctx.violation("ipread/" + type(e).__name__, f"get_characteristics raised {type(e).__name__} on reply {J(data)[:200]}" + how, case)
            return
        out = canon_result(r)
        # ---- oracle
        for sig, what in ipread_problems(req, data, r):
            ctx.violation(sig, what + how, case)
        ctx.nontrivial.add(("ipread", shape) if as_kind == "list" else ("ipread", shape, as_kind))
        cases.append(case)
        outs.append(out)
        lines.append(f"cl.format {keys_str(req)} {J(data)}")
        ctx.dist["ipread"] += 1
        if as_kind == "list":
            done.append((req, data, shape))
        else:
            ctx.dist[f"ipread: requested characteristics handed in as a {as_kind}"] += 1

    # exhaustive status vectors for <= 3 items
    for n in (1, 2, 3):
        req = [(1, 2), (1, 3), (2, 4)][:n]
        for vec in itertools.product([None] + CODES, repeat=n):  # None = entry carries a value, no status
            entries = []
            for k, st in zip(req, vec):
                e = wellformed(k, st)
                if st in (None, 0):
                    e["value"] = k[1] * 10
                entries.append(e)
            for g in (None, 0, -70402, 70410, 777):
                data = {"characteristics": entries}
                if g is not None:
                    data["status"] = g
                one(req, data, ("vec", vec, g))
    for _ in range(ctx.budget(800, 20000)):
        req = gen_requests(rng)
        entries = []
        for k in req:
            r = rng.random()
            if r < 0.2:
                continue  # not mentioned
            st = rng.choice([None, 0] + ALLCODES)
            e = wellformed(k, st)
            if st in (None, 0):
                e["value"] = rng.choice([1, True, "on", None, 0])
            if rng.random() < 0.2:
                e["ev"] = True
            entries.append(e)
            if rng.random() < 0.15:
                entries.append(wellformed(k, rng.choice([0, -70409])))  # duplicate
        for _ in range(rng.choice([0, 0, 1, 2])):
            entries.insert(rng.randint(0, len(entries)), malformed(rng))
        if rng.random() < 0.1:
            entries.append(wellformed((9, 99), rng.choice([0, -70409])))  # not requested
        data = {}
        if rng.random() < 0.85:
            data["characteristics"] = entries
        if rng.random() < 0.4:
            data["status"] = rng.choice(ALLCODES)
        one(req, data, ("rand", len(req), len(entries), "status" in data, "characteristics" in data))
    # the same replies with the requested characteristics handed in as every other kind of iterable the annotation allows (no randomness: every k-th reply,
    # request-wide statuses with partial / absent lists first)
    base = list(done)
    is_wide = [isinstance(x[1].get("status"), int) and not isinstance(x[1].get("status"), bool) and x[1].get("status") != 0 for x in base]
    wide = [x for x, w in zip(base, is_wide) if w]
    rest = [x for x, w in zip(base, is_wide) if not w]
    n_wide, n_rest = ctx.budget(60, 1500), ctx.budget(30, 1500)
    picked = wide[::max(1, len(wide) // n_wide)][:n_wide] + rest[::max(1, len(rest) // n_rest)][:n_rest]
    for as_kind in ITER_KINDS[1:]:
        for req, data, shape in picked:
            one(req, data, shape, as_kind)
    ctx.sample({k: v for k, v in cases[37].items()})
    compare_with_model(ctx, "ipread", cases, outs, lines, driver)


def ip_write(ctx, driver, rng, loop):
    cases, outs, lines = [], [], []

    done = []

    def one(layout, resp, shape, as_kind="list"):
        req = sorted(layout)
        p = IpPairing.__new__(IpPairing)
        p._ensure_connected = _noop
        p._accessories_state = AccessoriesState(build_accessories(layout), 1, None, 0)
        events = []
        p.listeners = {events.append}

        class Conn:
            async def put_json(self, url, body):
                return copy.deepcopy(resp) if resp is not None else {}
        p.connection = Conn()
        ctx.evaluations += 1
        case = {"stream": "ipwrite", "layout": {f"{a}.{i}": v for (a, i), v in layout.items()}, "reply": resp}
        if as_kind == "list":
            done.append((layout, resp, shape))
        else:
            case["as"] = as_kind
            shape = shape + (as_kind,)
            ctx.dist[f"ipwrite: written characteristics handed in as a {as_kind}"] += 1
        try:
            r = loop.run_until_complete(p.put_characteristics(make_iterable(as_kind, [(a, i, True) for a, i in req])))
        except Exception as e:  # noqa: BLE001
            ctx.violation("ipwrite/" + type(e).__name__, f"put_characteristics raised {type(e).__name__} on reply {J(resp)[:200]}", case)
            return
        notified = {}
        for ev in events:
            notified.update(ev)
        readable = [k for k in req if "r" in layout[k]]
        entries = (resp or {}).get("characteristics", [])
        rejected = set()
        listed = {}
        for e in entries:
            if isinstance(e, dict) and "aid" in e and "iid" in e and "status" in e:
                listed.setdefault((e["aid"], e["iid"]), []).append(e["status"])
                if e["status"] != 0:
                    rejected.add((e["aid"], e["iid"]))
        want = {k for k in readable if k not in rejected}
        if set(notified) != want:
            fs = set(notified) - want
            ctx.violation("ipwrite/false-success" if fs else "ipwrite/accepted-not-notified",
                          f"listeners notified for {sorted(notified)} but accepted readable = {sorted(want)} (rejected {sorted(rejected)})", case)
        elif any(v != {"value": True} for v in notified.values()):
            ctx.violation("ipwrite/value", "listener update does not carry the written value", case)
        for k, sts in listed.items():
            if len(sts) == 1:
                got = r.get(k)
                if got is None or got.get("status") != sts[0]:
                    ctx.violation("ipwrite/status", f"{k}: accessory status {sts[0]} reported as {got}", case)
        for k in r:
            if k not in listed:
                ctx.violation("ipwrite/invented-status", f"{k} reported {r[k]} although the reply does not list it", case)
        ctx.nontrivial.add(("ipwrite", shape))
        cases.append(case)
        outs.append(f"{keys_str(notified)} | {canon_result(r)}")
        lines.append(f"cl.ipput {keys_str(readable)} {'204' if resp is None else J(resp)}")
        ctx.dist["ipwrite"] += 1

    def request_wide(layout, resp):
        """a write reply that carries only a request-wide non-zero status and lists no characteristic: nothing was written -
        the call fails or reports every characteristic with a non-zero status, and no listener hears of a new value"""
        req = sorted(layout)
        p = IpPairing.__new__(IpPairing)
        p._ensure_connected = _noop
        p._accessories_state = AccessoriesState(build_accessories(layout), 1, None, 0)
        events = []
        p.listeners = {events.append}

        class Conn:
            async def put_json(self, url, body):
                return copy.deepcopy(resp)
        p.connection = Conn()
        ctx.evaluations += 1
        case = {"stream": "ipwrite-request-wide", "layout": {f"{a}.{i}": v for (a, i), v in layout.items()}, "reply": resp}
        raised = None
        r = {}
        try:
            r = loop.run_until_complete(p.put_characteristics([(a, i, True) for a, i in req]))
        except Exception as e:  # noqa: BLE001
            raised = type(e).__name__
        notified = {}
        for ev in events:
            notified.update(ev)
        if notified:
            ctx.violation("ipwrite/false-success", f"write of {req} answered {J(resp)} (request-wide status, nothing listed): listeners were told {sorted(notified)} have the new value"
                          + ("" if raised else f" and the call returned {canon_result(r)}"), case)
        elif raised is None and any(r.get(k, {}).get("status", 0) == 0 for k in req):
            ctx.violation("ipwrite/false-success", f"write of {req} answered {J(resp)}: the call returned {canon_result(r)} - rejected characteristics presented as written", case)
        ctx.nontrivial.add(("ipwrite-request-wide", len(req), resp.get("status")))
        ctx.dist["ipwrite-request-wide"] += 1

    perms = ["rw", "w", "trw", "tw"]
    for n in (1, 2, 3):
        req = [(1, 2), (1, 3), (2, 4)][:n]
        for pv in itertools.product(["rw", "w"], repeat=n):
            for code in (-70401, -70403, -70410):
                request_wide(dict(zip(req, pv)), {"status": code})
    for n in (1, 2, 3):
        req = [(1, 2), (1, 3), (2, 4)][:n]
        for pv in itertools.product(["rw", "w"], repeat=n):
            layout = dict(zip(req, pv))
            one(layout, None, ("204", pv))
            for vec in itertools.product(["absent"] + CODES, repeat=n):
                entries = [wellformed(k, st) for k, st in zip(req, vec) if st != "absent"]
                one(layout, {"characteristics": entries}, ("vec", pv, vec))
    for _ in range(ctx.budget(600, 15000)):
        req = gen_requests(rng)
        layout = {k: rng.choice(perms) for k in req}
        if rng.random() < 0.15:
            one(layout, None, ("204r", len(req)))
            continue
        entries = []
        for k in req:
            if rng.random() < 0.25:
                continue
            entries.append(wellformed(k, rng.choice(ALLCODES + [0, 0])))
            if rng.random() < 0.1:
                entries.append(wellformed(k, rng.choice([0, -70410])))
        for _ in range(rng.choice([0, 0, 1, 2])):
            entries.insert(rng.randint(0, len(entries)), rng.choice([malformed(rng), {"aid": req[0][0], "iid": req[0][1]}]))
        one(layout, {"characteristics": entries}, ("rand", len(req), len(entries)))
    # the same replies with the written characteristics handed in as every other kind of iterable the annotation allows (no randomness: every k-th reply)
    base = list(done)
    n_pick = ctx.budget(40, 1500)
    picked = base[::max(1, len(base) // n_pick)][:n_pick]
    for as_kind in ITER_KINDS[1:]:
        for layout, resp, shape in picked:
            one(layout, resp, shape, as_kind)
    ctx.sample(cases[55])
    compare_with_model(ctx, "ipwrite", cases, outs, lines, driver)


def coap_write(ctx, driver, rng, loop):
    cases, outs, lines = [], [], []
    conn0 = CoAPHomeKitConnection.__new__(CoAPHomeKitConnection)
    statuses = [b"", cp.PDUStatus.INVALID_REQUEST, cp.PDUStatus.TID_MISMATCH, cp.PDUStatus.BAD_CONTROL, cp.PDUStatus.INSUFFICIENT_AUTHORIZATION]
    combos = []
    for n in (1, 2, 3):
        for vec in itertools.product(range(len(statuses)), repeat=n):
            for pv in itertools.product(["rw", "w"], repeat=n):
                combos.append((vec, pv))
    rng.shuffle(combos)
    for vec, pv in combos[:ctx.budget(600, len(combos))]:
        req = [(1, 2), (1, 3), (1, 4)][:len(vec)]
        layout = dict(zip(req, pv))
        results = [statuses[i] for i in vec]
        p = CoAPPairing.__new__(CoAPPairing)
        p._ensure_connected = _noop
        p._accessories_state = AccessoriesState(build_accessories(layout), 1, None, 0)
        events = []
        p.listeners = {events.append}

        class Conn:
            async def write_characteristics(self, chars):
                return conn0._write_characteristics_exit(list(chars), results)
        p.connection = Conn()
        ctx.evaluations += 1
        case = {"stream": "coapwrite", "perms": list(pv), "results": [r.value if not isinstance(r, bytes) else 0 for r in results]}
        try:
            r = loop.run_until_complete(p.put_characteristics([(a, i, True) for a, i in req]))
        except Exception as e:  # noqa: BLE001
            ctx.violation("coapwrite/" + type(e).__name__, f"raised {type(e).__name__}", case)
            continue
        notified = {}
        for ev in events:
            notified.update(ev)
        want = {k for k, res in zip(req, results) if isinstance(res, bytes) and "r" in layout[k]}
        rej = {k for k, res in zip(req, results) if not isinstance(res, bytes)}
        if set(notified) != want:
            ctx.violation("coapwrite/listeners", f"notified {sorted(notified)} but accepted readable = {sorted(want)}", case)
        if set(r) != rej or any(v.get("status", 0) == 0 for v in r.values()):
            ctx.violation("coapwrite/status", f"reported {r} but rejected = {sorted(rej)}", case)
        ctx.nontrivial.add(("coapwrite", vec, pv))
        cases.append(case)
        outs.append(f"{keys_str(notified)} | {keys_str(r)}")
        lines.append("cl.coapput " + " ".join(f"{a}.{i}:{'r' if 'r' in layout[(a, i)] else 'w'}:{0 if isinstance(res, bytes) else res.value}" for (a, i), res in zip(req, results)))
    compare_with_model(ctx, "coapwrite", cases, outs, lines, driver)


def ble_write(ctx, driver, rng, loop):
    cases, outs, lines = [], [], []
    inner = unwrap(BlePairing.put_characteristics, "put_characteristics")
    perms = ["rw", "w", "trw", "tw", "r"]
    combos = []
    for n in (1, 2, 3):
        for pv in itertools.product(perms, repeat=n):
            for acc in itertools.product([True, False], repeat=n):
                combos.append((pv, acc))
    rng.shuffle(combos)
    for pv, acc in combos[:ctx.budget(500, len(combos))]:
        req = [(1, 2), (1, 3), (1, 4)][:len(pv)]
        layout = dict(zip(req, pv))
        accepted = dict(zip(req, acc))
        p = BlePairing.__new__(BlePairing)
        p._accessories_state = AccessoriesState(build_accessories(layout), 1, None, 0)
        p._ble_request_lock = asyncio.Lock()
        p.description = None
        p.device = None
        p.id = "x"
        p.pairing_data = {"AccessoryAddress": "AA:BB"}
        p.ble_advertisement = None
        events = []
        p.listeners = {events.append}
        written = []

        async def req_fn(opcode, char, data=None, iid=None):
            written.append((char.iid, opcode.name))
            if not accepted[(1, char.iid)] and opcode.name != "CHAR_EXEC_WRITE":
                raise PDUStatusError(PDUStatus.INVALID_REQUEST.value, "rejected")
            return b""
        p._async_request_under_lock = req_fn
        ctx.evaluations += 1
        case = {"stream": "blewrite", "perms": list(pv), "accepted": list(acc)}
        raised = False
        r = {}
        try:
            r = loop.run_until_complete(inner(p, [(a, i, True) for a, i in req]))
        except PDUStatusError:
            raised = True
        except Exception as e:  # noqa: BLE001
            ctx.violation("blewrite/" + type(e).__name__, f"raised {type(e).__name__}", case)
            continue
        notified = {}
        for ev in events:
            notified.update(ev)
        # oracle: first rejected writable one raises; before it: notified = accepted readable; read-only -> reported CANT_WRITE_READ_ONLY
        exp_notified, exp_err, exp_raise = [], [], False
        for k in req:
            if "w" not in layout[k]:
                exp_err.append(k)
                continue
            if not accepted[k]:
                exp_raise = True
                break
            if "r" in layout[k]:
                exp_notified.append(k)
        if raised != exp_raise or set(notified) != set(exp_notified) or (not raised and set(r) != set(exp_err)):
            ctx.violation("blewrite/outcome", f"perms {pv} accepted {acc}: raised={raised} notified={sorted(notified)} errors={sorted(r)}; expected raised={exp_raise} notified={exp_notified} errors={exp_err}", case)
        ctx.nontrivial.add(("blewrite", pv, acc))
        cases.append(case)
        outs.append(f"{keys_str(notified)} | {keys_str(r) if not raised else keys_str(exp_err)} | {'raised' if raised else 'returned'}")
        lines.append("cl.bleput " + " ".join(f"{a}.{i}:{layout[(a, i)]}:{1 if accepted[(a, i)] else 0}" for a, i in req))
    compare_with_model(ctx, "blewrite", cases, outs, lines, driver)


# =====================================================================================================================
# End-to-end streams.  The public pairing methods (put_characteristics / get_characteristics / subscribe / unsubscribe)
# run over the REAL connection, session and PDU / HTTP code of each transport:
#   CoAP: CoAPPairing -> CoAPHomeKitConnection -> EncryptionContext.post / post_all (real ChaCha20-Poly1305, real PDU
#         encode / decode, database fetched with the real UNK_09 request); only the aiocoap client context is replaced
#   BLE : BlePairing (public, decorated methods) -> _async_request_under_lock -> ble_request -> PDU fragmentation and
#         EncryptionKey / DecryptionKey; only the GATT client (the radio) is replaced
#   IP  : IpPairing -> HomeKitConnection.put_json / get_json -> request -> SecureHomeKitProtocol (real framing and HTTP
#         response parser, accessory model fetched with the real GET /accessories); only the TCP transport is replaced
# Behind the fake network sits ONE in-memory accessory that decrypts the request, decides item by item (accept, or one of
# the transport's error statuses - scripted per operation) and answers in the transport's own format.  The oracle reads
# the ACCESSORY'S OWN LOG of what it accepted / rejected / returned, never the library's state.
# A case is a history: a layout plus a list of operations executed in order on one session (so session counters, the
# connection's value cache and the subscription set carry over from one operation to the next).
# =====================================================================================================================
K_C2A, K_A2C, K_EVT = bytes(range(32)), bytes(range(32, 64)), bytes(range(64, 96))

E2E_FMT = {  # format -> (GATT presentation format, short HAP type used for it, struct code)
    "bool": (0x01, 0x25, "<?"), "uint8": (0x04, 0x08, "<B"), "int": (0x10, 0xCE, "<i"), "float": (0x14, 0x13, "<f"), "string": (0x19, 0x23, None)}
E2E_PERMS = ["rw", "rw", "rw", "w", "r", "trw", "tw"]
# the rest of the permission vocabulary (letters: r = paired read, w = paired write, t = timed write, h = hidden, o = only the UNSECURED read/write bits, as on
# the characteristics of the pairing service; "" = no permission at all).  Nothing but r / w / t changes what the accessory accepts.
E2E_PERMS_MORE = ["", "h", "wh", "rh", "rwh", "twh", "o"]
PAIRING_TYPES = [0x4C, 0x4E, 0x4F, 0x50]  # Pair Setup, Pair Verify, Pairing Features, Pairing Pairings
IDENTIFY_TYPE = 0x14
SVC_TYPES = {0: 0x43, 1: 0x49, 2: 0x3E, 3: 0x55}  # service number of a layout row -> Lightbulb, Switch, Accessory Information, Pairing
PDU_ERRORS = [1, 2, 3, 4, 5, 6]  # every non-success HAP PDU status (CoAP and BLE)
HAP_ERRORS = [c.value for c in HapStatusCode if c.value not in (0, -1)]  # every defined HAP status (IP)
TRANSPORTS = ("coap", "ble", "ip")
# the status line of an IP reply, varied independently of its body
HTTP_CODES = [200, 204, 207, 400, 404, 422, 470, 500, 503]
HTTP_REASONS = {200: "OK", 204: "No Content", 207: "Multi-Status", 400: "Bad Request", 404: "Not Found", 422: "Unprocessable Entity",
                470: "Connection Authorization Required", 500: "Internal Server Error", 503: "Service Unavailable"}
HTTP_SHAPES = {"write": ["none", "empty", "full", "failures", "global"], "read": ["none", "empty", "full", "partial", "global"]}
HTTP_SHAPES["subscribe"] = HTTP_SHAPES["unsubscribe"] = HTTP_SHAPES["identify"] = HTTP_SHAPES["write"]


def _nonce(n):
    return struct.pack("<4xQ", n)


def _aead(key):
    from cryptography.hazmat.primitives.ciphers.aead import ChaCha20Poly1305
    return ChaCha20Poly1305(key)


def raw_of(fmt, v):
    code = E2E_FMT[fmt][2]
    return v.encode("utf-8") if code is None else struct.pack(code, v)


def value_of(fmt, raw):
    code = E2E_FMT[fmt][2]
    if code is None:
        return bytes(raw).decode("utf-8")
    if len(raw) != struct.calcsize(code):
        raise ValueError("length")
    return struct.unpack(code, bytes(raw))[0]


def gen_value(rng, fmt, long_strings=False):
    if fmt == "bool":
        return rng.choice([True, False])
    if fmt == "uint8":
        return rng.choice([0, 1, 100, 255, rng.randint(0, 255)])
    if fmt == "int":
        return rng.choice([0, -1, 153, 2 ** 31 - 1, -2 ** 31, rng.randint(-100000, 100000)])
    if fmt == "float":
        return rng.randint(-1440, 1440) / 4  # exact in binary32
    n = rng.choice([1, 3, 12, 80, 200]) if long_strings else rng.choice([1, 3, 12])
    return "".join(rng.choice("abcXYZ 09-") for _ in range(n))


def _tlv8(tag, val):
    val = bytes(val)
    if not val:
        return bytes([tag, 0])
    return b"".join(bytes([tag, len(val[o:o + 255])]) + val[o:o + 255] for o in range(0, len(val), 255))


def _tlv8_parse(buf):
    out, off, last = [], 0, None
    while off + 2 <= len(buf):
        t, ln = buf[off], buf[off + 1]
        v = bytes(buf[off + 2:off + 2 + ln])
        if last is not None and last[0] == t and last[2] == 255:
            last[1] += v
            last[2] = ln
        else:
            last = [t, v, ln]
            out.append(last)
        off += 2 + ln
    return [(t, v) for t, v, _ in out]


def _grouped(layout):
    g = {}
    for c in layout:
        g.setdefault(c["aid"], {}).setdefault(c["svc"], []).append(c)
    return [(aid, [(s, g[aid][s]) for s in sorted(g[aid])]) for aid in sorted(g)]


def hap_perms(perm):
    out = []
    if "r" in perm:
        out += ["pr", "ev"]
    if "w" in perm:
        out.append("pw")
    if "t" in perm:
        out.append("tw")
    if "h" in perm:
        out.append("hd")
    return out


def model_perm(perm):
    """the permission vocabulary of the Lean model of the BLE write path (rw, w, trw, tw, r): only r / w / t matter to it; whatever cannot be written is
    refused locally like a read-only characteristic"""
    if "w" not in perm:
        return "r"
    return ("t" if "t" in perm else "") + ("r" if "r" in perm else "") + "w"


def type_of(c):
    return c.get("typ") or E2E_FMT[c["fmt"]][1]


def model_json(layout):
    """the accessory database in HAP JSON (what an IP accessory serves at /accessories; also the BLE pairing's model)"""
    out = []
    for aid, svcs in _grouped(layout):
        sv = []
        for s, chars in svcs:
            cs = []
            for c in chars:
                e = {"iid": c["iid"], "type": "%X" % type_of(c), "perms": hap_perms(c["perm"]), "format": c["fmt"]}
                if "r" in c["perm"]:
                    e["value"] = c["value"]
                cs.append(e)
            sv.append({"iid": 1000 + s, "type": "%X" % SVC_TYPES.get(s, 0x49), "characteristics": cs})
        out.append({"aid": aid, "services": sv})
    return out


def coap_database(layout):
    """the same database as the TLV8 body of a HAP-over-CoAP database read (encoded here, not by the library)"""
    accs = []
    for aid, svcs in _grouped(layout):
        sv = []
        for s, chars in svcs:
            cs = []
            for c in chars:
                p = c["perm"]
                props = ((0x10 if "r" in p else 0) | (0x20 if "w" in p else 0) | (0x08 if "t" in p else 0) | (0x80 if "r" in p else 0) | (0x40 if "h" in p else 0)
                         | (0x03 if "o" in p else 0))
                gatt, typ = E2E_FMT[c["fmt"]][0], type_of(c)
                cs.append(_tlv8(0x13, _tlv8(0x04, bytes([typ])) + _tlv8(0x05, struct.pack("<H", c["iid"])) + _tlv8(0x0A, struct.pack("<H", props))
                                + _tlv8(0x0C, struct.pack("<BbHBH", gatt, 0, 0x2700, 1, 0))))
            sv.append(_tlv8(0x15, _tlv8(0x07, struct.pack("<H", 1000 + s)) + _tlv8(0x06, bytes([SVC_TYPES.get(s, 0x49)])) + _tlv8(0x14, b"\x00\x00".join(cs))))
        accs.append(_tlv8(0x19, _tlv8(0x1A, struct.pack("<H", aid)) + _tlv8(0x16, b"\x00\x00".join(sv))))
    return _tlv8(0x18, b"\x00\x00".join(accs))


class Accessory:
    """transport-independent core of the in-memory accessory: state, the per-operation script and the log"""

    def __init__(self, layout, transport):
        self.by_iid = {c["iid"]: c for c in layout}  # instance ids are unique over the whole database by construction
        self.values = {c["iid"]: c["value"] for c in layout}
        self.default_error = -70409 if transport == "ip" else 6
        self.script = {}  # (kind, iid) -> status to answer with during the current operation
        self.log = []  # (kind, iid, status answered, value returned / stored)
        self.pending = {}  # iid -> value of a timed write waiting for its execute

    def decide(self, kind, iid):
        st = self.script.get((kind, iid))
        if st is None:  # not scripted (database sweep, or the library asks for something the operation did not name)
            c = self.by_iid.get(iid)
            need = "w" if kind in ("write", "twrite", "exec") else "r"
            st = 0 if c is not None and need in c["perm"] else self.default_error
        return st

    def note(self, kind, iid, st, value=None):
        self.log.append((kind, iid, st, value))
        return st

    # ---- HAP PDU semantics shared by CoAP and BLE (opcode numbers are the HAP ones)
    def pdu(self, opcode, iid, body, ble):
        """-> (status, response body)"""
        c = self.by_iid.get(iid)
        if opcode == 0x03:
            st = self.decide("read", iid)
            if st == 0 and c is None:
                st = 4
            if st:
                return self.note("read", iid, st), b""
            v = self.values[iid]
            self.note("read", iid, 0, v)
            return 0, _tlv8(0x01, raw_of(c["fmt"], v))
        if opcode in (0x02, 0x04):
            kind = "write" if opcode == 0x02 else "twrite"
            st = self.decide(kind, iid)
            v = None
            if st == 0:
                try:
                    tl = dict(_tlv8_parse(body[2:] if opcode == 0x04 else body))
                    v = value_of(c["fmt"], tl[0x01])
                except Exception:  # noqa: BLE001 - a body this accessory cannot make sense of is an invalid request
                    st = 6
            if st == 0:
                if kind == "write":
                    self.values[iid] = v
                else:
                    self.pending[iid] = v
            return self.note(kind, iid, st, v), b""
        if opcode == 0x05:
            st = self.decide("exec", iid)
            if st == 0 and iid not in self.pending:
                st = 6
            v = None
            if st == 0:
                v = self.values[iid] = self.pending.pop(iid)
            else:
                self.pending.pop(iid, None)
            return self.note("exec", iid, st, v), b""
        if opcode in (0x0B, 0x0C) and not ble:
            kind = "sub" if opcode == 0x0B else "unsub"
            return self.note(kind, iid, self.decide(kind, iid)), b""
        return 1, b""  # unsupported PDU


# ---------------------------------------------------------------------------------------------------------------- CoAP
class CoapNet:
    """stands for the aiocoap client context: a POST goes straight to the accessory, the reply comes straight back"""

    def __init__(self, acc, layout):
        self.acc = acc
        self.db = coap_database(layout)
        self.rx = self.tx = 0
        self.dec, self.enc = _aead(K_C2A), _aead(K_A2C)

    def request(self, msg):
        from aiocoap.numbers.codes import Code
        plain = self.dec.decrypt(_nonce(self.rx), bytes(msg.payload), b"")
        self.rx += 1
        out, off = b"", 0
        while off + 7 <= len(plain):
            _control, opcode, tid, iid, ln = struct.unpack("<BBBHH", plain[off:off + 7])
            body = plain[off + 7:off + 7 + ln]
            off += 7 + ln
            if opcode == 0x09:
                st, rb = 0, self.db
            else:
                st, rb = self.acc.pdu(opcode, iid, body, ble=False)
            out += struct.pack("<BBBH", 0x02, tid, st, len(rb)) + rb
        enc = self.enc.encrypt(_nonce(self.tx), out, b"")
        self.tx += 1
        fut = asyncio.get_running_loop().create_future()
        fut.set_result(types.SimpleNamespace(code=Code.CHANGED, payload=enc))
        return types.SimpleNamespace(response=fut)

    async def shutdown(self):
        pass


async def coap_world(case, acc):
    from aiohomekit.characteristic_cache import CharacteristicCacheMemory
    from aiohomekit.controller.coap.connection import EncryptionContext
    controller = types.SimpleNamespace(_char_cache=CharacteristicCacheMemory())
    p = CoAPPairing(controller, {"AccessoryPairingID": "aa:bb:cc:dd:ee:ff", "AccessoryIP": "fd00::1", "AccessoryPort": 5683, "Connection": "CoAP"})
    # an established session (what pair-verify produces); from here on everything is the library's own code
    p.connection.enc_ctx = EncryptionContext(_aead(K_A2C), _aead(K_C2A), _aead(K_EVT), "coap://[fd00::1]:5683/", CoapNet(acc, case["layout"]))
    await p.list_accessories_and_characteristics()
    return p, (lambda: p.connection.enc_ctx is not None and p.connection.enc_ctx.coap_ctx is not None)


# ----------------------------------------------------------------------------------------------------------------- BLE
class GattHandle:
    properties = ("read", "write")
    max_write_without_response_size = None

    def __init__(self, iid):
        self.iid = iid
        self.rx = None
        self.tx = []


class BleRadio:
    """stands for the GATT client: writes to / reads from a characteristic reach the accessory's HAP-BLE procedure layer"""
    address = "AA:BB:CC:DD:EE:FF"

    def __init__(self, acc, mtu, short_header):
        self.acc = acc
        self.mtu = mtu
        self.short_header = short_header
        self.is_connected = True
        self.handles = {}
        self.rx = self.tx = 0
        self.dec, self.enc = _aead(K_C2A), _aead(K_A2C)

    async def get_characteristic(self, service_uuid, characteristic_uuid, iid=None):
        return self.handles.setdefault(iid, GattHandle(iid))

    def determine_fragment_size(self, overhead, handle):
        return self.mtu - 3 - overhead

    async def write_gatt_char(self, handle, data, response=None):
        plain = self.dec.decrypt(_nonce(self.rx), bytes(data), b"")
        self.rx += 1
        if plain[0] & 0x80:
            if handle.rx is None or plain[1] != handle.rx["tid"]:
                raise RuntimeError("accessory: continuation without a request")
            handle.rx["body"] += plain[2:]
        else:
            _control, opcode, tid, iid = struct.unpack("<BBBH", plain[:5])
            ln = struct.unpack("<H", plain[5:7])[0] if len(plain) >= 7 else 0
            handle.rx = {"opcode": opcode, "tid": tid, "iid": iid, "len": ln, "body": bytearray(plain[7:])}
        req = handle.rx
        if len(req["body"]) >= req["len"]:
            handle.rx = None
            st, rb = self.acc.pdu(req["opcode"], req["iid"], bytes(req["body"][:req["len"]]), ble=True)
            size = self.mtu - 3 - 16
            if not rb and self.short_header:
                handle.tx = [struct.pack("<BBB", 0x02, req["tid"], st)]
            else:
                handle.tx = [struct.pack("<BBBH", 0x02, req["tid"], st, len(rb)) + rb[:size - 5]]
                rest = rb[size - 5:]
                for o in range(0, len(rest), size - 2):
                    handle.tx.append(struct.pack("<BB", 0x82, req["tid"]) + rest[o:o + size - 2])

    async def read_gatt_char(self, handle):
        if not handle.tx:
            raise RuntimeError("accessory: read without a pending response")
        out = self.enc.encrypt(_nonce(self.tx), handle.tx.pop(0), b"")
        self.tx += 1
        return bytearray(out)

    async def disconnect(self):
        self.is_connected = False

    async def clear_cache(self):
        pass


async def ble_world(case, acc):
    from aiohomekit.characteristic_cache import CharacteristicCacheMemory
    from aiohomekit.controller.ble.key import DecryptionKey, EncryptionKey
    controller = types.SimpleNamespace(_char_cache=CharacteristicCacheMemory())
    radio = BleRadio(acc, case.get("mtu", 158), case.get("short_header", False))
    p = BlePairing(controller, {"AccessoryPairingID": "aa:bb:cc:dd:ee:ff", "AccessoryAddress": "AA:BB:CC:DD:EE:FF", "Connection": "BLE"}, client=radio)
    # a connected, pair-verified session with the database known (connection set-up and the GATT database fetch are other properties' business)
    p._accessories_state = AccessoriesState(Accessories.from_list(model_json(case["layout"])), 1, None, 0)
    p._encryption_key = EncryptionKey(K_C2A)
    p._decryption_key = DecryptionKey(K_A2C)
    return p, (lambda: p.client is radio and radio.is_connected and p._encryption_key is not None)


# ------------------------------------------------------------------------------------------------------------------ IP
class IpWire:
    """stands for the TCP transport: bytes written reach the accessory's HAP HTTP server, its reply is fed to the protocol"""

    def __init__(self, acc, layout, cuts, chunked, style="spec"):
        self.acc = acc
        self.layout = layout
        self.cuts = list(cuts)
        self.chunked = chunked
        # how this accessory words its replies: "spec" = 204 when everything succeeded, else 207 listing every item;
        # "positive" = the same with positive-signed status codes (seen in the field); "terse" = the 207 lists only the
        # failed items; "verbose" = always 207 with the full list, even when everything succeeded; "400" = a write
        # request of which EVERY item failed is answered 400 Bad Request (with the full list; value writes only - what the
        # library makes of a refused subscription request is not this property's business)
        self.style = style
        self.protocol = None
        self.closed = False
        self.buf = bytearray()
        self.http = b""
        self.rx = self.tx = 0
        self.dec, self.enc = _aead(K_C2A), _aead(K_A2C)
        self.replies = []  # (status code, parsed body or None) of every /characteristics request
        # per-operation override of HOW the reply is worded (set by the history runner from op["http"]): {"code": HTTP status, "shape": shape of the body,
        # "cl0": a reply without a body carries "Content-Length: 0"}.  The status line is whatever the operation says - an honest accessory that is sloppy
        # about status lines; WHAT was accepted / rejected is decided item by item as always and told by the body in the given shape:
        #   none = no body, empty = {}, full = every item with its status (reads: value, or status), failures = only the rejected items (writes),
        #   partial = request-wide status + the successfully read items (reads), global = request-wide status alone.
        # A shape that cannot tell items apart (none, empty, global; partial with different statuses) makes the accessory refuse the request AS A WHOLE as soon
        # as one item is to be refused: nothing is applied, every item is logged as rejected with that status.
        self.op_http = None

    def is_closing(self):
        return self.closed

    def close(self):
        self.closed = True

    def write_eof(self):
        pass

    def get_extra_info(self, *a, **k):
        return None

    def write(self, data):
        self.writelines([data])

    def writelines(self, chunks):
        self.buf += b"".join(bytes(c) for c in chunks)
        while len(self.buf) >= 2:
            ln = struct.unpack("<H", self.buf[:2])[0]
            if len(self.buf) < 2 + ln + 16:
                break
            self.http += self.dec.decrypt(_nonce(self.rx), bytes(self.buf[2:2 + ln + 16]), bytes(self.buf[:2]))
            self.rx += 1
            del self.buf[:2 + ln + 16]
        while True:
            head, sep, rest = self.http.partition(b"\r\n\r\n")
            if not sep:
                return
            lines = head.split(b"\r\n")
            method, target = lines[0].split(b" ")[:2]
            hdrs = {ln.split(b":", 1)[0].strip().lower(): ln.split(b":", 1)[1].strip() for ln in lines[1:] if b":" in ln}
            n = int(hdrs.get(b"content-length", b"0"))
            if len(rest) < n:
                return
            self.http = rest[n:]
            self.send(self.serve(method.decode(), target.decode(), rest[:n]))

    def send(self, resp):
        frames = b""
        for o in range(0, len(resp), 1024):
            chunk = resp[o:o + 1024]
            lb = struct.pack("<H", len(chunk))
            frames += lb + self.enc.encrypt(_nonce(self.tx), chunk, lb)
            self.tx += 1
        loop = asyncio.get_running_loop()
        step = self.cuts.pop(0) if self.cuts else 0
        segs = [frames[o:o + step] for o in range(0, len(frames), step)] if step else [frames]
        for seg in segs:
            loop.call_soon(self.protocol.data_received, seg)

    def http_reply(self, code, reason, obj, cl0=False):
        if obj is None:
            return f"HTTP/1.1 {code} {reason}\r\n{'Content-Length: 0' + chr(13) + chr(10) if cl0 else ''}\r\n".encode()
        body = json.dumps(obj, separators=(",", ":")).encode()
        head = f"HTTP/1.1 {code} {reason}\r\nContent-Type: application/hap+json\r\n"
        if self.chunked:
            half = max(1, len(body) // 2)
            parts = [body[:half], body[half:]]
            return (head + "Transfer-Encoding: chunked\r\n\r\n").encode() + b"".join(b"%x\r\n%s\r\n" % (len(x), x) for x in parts if x) + b"0\r\n\r\n"
        return (head + f"Content-Length: {len(body)}\r\n\r\n").encode() + body

    def serve_worded(self, method, target, body):
        """the /characteristics requests of an operation that says how its reply is to be worded (op["http"])"""
        acc, http = self.acc, self.op_http
        code, shape = http["code"], http["shape"]
        if method == "GET":
            todo = [(aid, iid, "read", None) for aid, iid in (tuple(int(x) for x in t.split(".")) for t in target.split("=", 1)[1].split("&")[0].split(","))]
            if shape == "failures":
                shape = "full"  # a read reply has to carry the values
        else:
            todo = [(e["aid"], e["iid"], "write" if "value" in e else ("sub" if e.get("ev") else "unsub"), e.get("value")) for e in json.loads(body)["characteristics"]]
            if shape == "partial":
                shape = "failures"
        sts = []
        for aid, iid, kind, _v in todo:
            c = acc.by_iid.get(iid)
            st = acc.decide(kind, iid)
            if st == 0 and (c is None or c["aid"] != aid):
                st = -70409
            sts.append(st)
        bad = [st for st in sts if st != 0]
        g = bad[0] if bad else 0
        if bad and (shape in ("none", "empty", "global") or (shape == "partial" and len(set(bad)) > 1)):
            sts = [g] * len(sts)  # this reply cannot tell the items apart: the request is refused as a whole
        if not bad and method == "GET" and shape in ("none", "empty"):
            shape = "full"  # values have to be carried by something
        rows = []
        for (aid, iid, kind, v), st in zip(todo, sts):
            if st == 0 and kind == "write":
                acc.values[iid] = v
            if kind == "read":
                acc.note("read", iid, st, acc.values[iid] if st == 0 else None)
                rows.append({"aid": aid, "iid": iid, "value": acc.values[iid]} if st == 0 else {"aid": aid, "iid": iid, "status": st})
            else:
                acc.note(kind, iid, st, v)
                rows.append({"aid": aid, "iid": iid, "status": st})
        if method == "GET" and bad and shape == "full":
            for r in rows:
                r.setdefault("status", 0)
        if shape == "none":
            obj = None
        elif shape == "empty":
            obj = {}
        elif shape == "full":
            obj = {"characteristics": rows}
        elif shape == "failures":
            obj = {"characteristics": [r for r in rows if r["status"] != 0]}
        elif shape == "partial":
            obj = {"status": g, "characteristics": [r for r in rows if "value" in r]}
        elif method == "GET" and not bad:
            obj = {"status": 0, "characteristics": rows}
        else:
            obj = {"status": g}
        self.replies.append((code, obj))
        return self.http_reply(code, HTTP_REASONS.get(code, "Status"), obj, http.get("cl0", False))

    def serve(self, method, target, body):
        acc = self.acc
        if method == "GET" and target == "/accessories":
            return self.http_reply(200, "OK", {"accessories": model_json(self.layout)})
        if self.op_http is not None and (method, target.split("?")[0]) in (("GET", "/characteristics"), ("PUT", "/characteristics")):
            return self.serve_worded(method, target, body)
        if method == "GET" and target.startswith("/characteristics?id="):
            ids = [tuple(int(x) for x in t.split(".")) for t in target.split("=", 1)[1].split("&")[0].split(",")]
            rows, bad = [], False
            for aid, iid in ids:
                c = acc.by_iid.get(iid)
                st = acc.decide("read", iid)
                if st == 0 and (c is None or c["aid"] != aid):
                    st = -70409
                if st:
                    acc.note("read", iid, st)
                    rows.append({"aid": aid, "iid": iid, "status": abs(st) if self.style == "positive" else st})
                    bad = True
                else:
                    acc.note("read", iid, 0, acc.values[iid])
                    rows.append({"aid": aid, "iid": iid, "value": acc.values[iid]})
            if bad:
                for r in rows:
                    r.setdefault("status", 0)
            self.replies.append((207 if bad else 200, {"characteristics": rows}))
            return self.http_reply(207 if bad else 200, "Multi-Status" if bad else "OK", {"characteristics": rows})
        if method == "PUT" and target == "/characteristics":
            rows, bad = [], False
            for e in json.loads(body)["characteristics"]:
                aid, iid = e["aid"], e["iid"]
                c = acc.by_iid.get(iid)
                kind = "write" if "value" in e else ("sub" if e.get("ev") else "unsub")
                st = acc.decide(kind, iid)
                if st == 0 and (c is None or c["aid"] != aid):
                    st = -70409
                if st == 0 and kind == "write":
                    acc.values[iid] = e["value"]
                acc.note(kind, iid, st, e.get("value"))
                rows.append({"aid": aid, "iid": iid, "status": abs(st) if self.style == "positive" else st})
                bad = bad or st != 0
            if not bad and self.style != "verbose":
                self.replies.append((204, None))
                return self.http_reply(204, "No Content", None)
            if self.style == "terse":
                rows = [r for r in rows if r["status"] != 0]
            all_failed_writes = all(r["status"] != 0 for r in rows) and all("value" in e for e in json.loads(body)["characteristics"])
            code, reason = (400, "Bad Request") if self.style == "400" and all_failed_writes else (207, "Multi-Status")
            self.replies.append((code, {"characteristics": rows}))
            return self.http_reply(code, reason, {"characteristics": rows})
        return self.http_reply(404, "Not Found", None)


async def ip_world(case, acc):
    from aiohomekit.characteristic_cache import CharacteristicCacheMemory
    from aiohomekit.controller.ip.connection import SecureHomeKitProtocol
    controller = types.SimpleNamespace(_char_cache=CharacteristicCacheMemory())
    p = IpPairing(controller, {"AccessoryPairingID": "aa:bb:cc:dd:ee:ff", "AccessoryIP": "192.0.2.7", "AccessoryPort": 5001, "Connection": "IP"})
    conn = p.connection
    wire = IpWire(acc, case["layout"], case.get("cuts", []), case.get("chunked", False), case.get("style", "spec"))
    proto = SecureHomeKitProtocol(conn, K_A2C, K_C2A)  # an established secure session (what pair-verify produces)
    wire.protocol = proto
    proto.connection_made(wire)
    conn.transport, conn.protocol, conn.is_secure = wire, proto, True
    conn.connected_host, conn.host_header = "192.0.2.7", "Host: 192.0.2.7"
    await p.list_accessories_and_characteristics()
    p._e2e_wire = wire
    return p, (lambda: conn.protocol is proto and not wire.closed)


WORLDS = {"coap": coap_world, "ble": ble_world, "ip": ip_world}


# ---------------------------------------------------------------------------------------------------------- the oracles
def _status_of(ent):
    """status an entry of a result dict presents: 0 = presented as successful; None = not an entry at all"""
    if ent is None:
        return 0
    if not isinstance(ent, dict):
        return None
    st = ent.get("status", 0)
    if isinstance(st, enum.Enum):
        st = st.value
    return st if isinstance(st, int) and not isinstance(st, bool) else None


def _same(a, b):
    return type(a) is type(b) and a == b


def _fmt_exc(e):
    return f"{type(e).__name__}: {str(e)[:80]}"


def wording_terms(op, log):
    """how strictly the outcome of an operation whose reply wording was chosen freely (op["http"], IP) can be judged:
    None = the reply is worded as the specification says (or the operation does not say): every clause applies;
    otherwise {"reports": does the BODY of the reply tell which items were refused}.  With a freely worded reply
      - the call may FAIL whatever was accepted (status line and body may contradict each other), and a failed call need not notify anybody;
      - a refusal that the body does not report (no body, {}, or any bytes after a 204 status line - a 204 reply has no body by definition of HTTP) is known
        to the controller from the status line at best: what the library makes of it is noted, not judged;
      - a refusal the body DOES report is never presented as done and listeners never hear of its value - whatever the status line says."""
    http = op.get("http")
    if http is None:
        return None
    kind = op["op"]
    refused = any(st != 0 for k, _i, st, _v in log if k in ("write", "read", "sub", "unsub"))
    if kind == "read":
        spec = (207, "full") if refused else (200, "full")
    else:
        spec = (207, "full") if refused else (204, "none")
    if (http["code"], http["shape"]) == spec:
        return None
    why = None
    if http["shape"] in ("none", "empty"):
        why = "the reply has no body / the body {} - nothing tells the refusal but the status line"
    elif http["code"] == 204:
        why = "a 204 reply has no body by definition of HTTP - bytes sent after it tell nothing"
    elif kind in ("subscribe", "unsubscribe") and http["shape"] == "global":
        # the property's text is about reads and writes; the clause on request-wide statuses is about reads
        why = "a request-wide status in the reply to a SUBSCRIPTION request is outside the property's text (it is about reads and writes)"
    elif kind == "subscribe" and http["code"] >= 400:
        # IpPairing.subscribe answers a request that failed as a whole with an empty result by design (the subscription is kept and made again when the
        # connection is next set up): what it makes of a 4xx reply is not this property's business (see style "400" of IpWire)
        why = "subscribe() answers a request that failed as a whole (4xx) with an empty result by design and subscribes again with the next connection"
    return {"reports": why is None, "why": why, "code": http["code"], "shape": http["shape"]}


# Entry points of the UNCHANGED library that walk the caller's iterable more than once or index it (read off the source, confirmed by running them):
#   IpPairing.subscribe / unsubscribe: set(characteristics) first, then _update_subscriptions(characteristics) - a one-pass iterable is empty by then, nothing is sent
#   CoAPPairing.get_characteristics -> read_characteristics: list(characteristics), then a second walk for the instance ids
#   CoAPPairing.put_characteristics -> write_characteristics: walks ids_values twice and indexes it, the pairing walks it a third time
#   CoAPPairing.unsubscribe -> unsubscribe_from: set(characteristics) first, then walks and indexes the argument
# With an iterable that does not survive that (one-pass, or not indexable) the outcome is an observation outside this property's gating oracle: counted in the
# distribution and noted in the evidence with a failing input, never a violation.  Every other (entry point, kind of iterable) is judged in full.
# What is set aside there is exactly what was seen: the call FAILS (TypeError on indexing, or the accessory's answer to the empty batch the second walk produces) and,
# having failed, tells no listener; every other clause (nothing invented, no refusal presented as done, values and statuses faithful) stays gating there too.
# IpPairing.subscribe / unsubscribe with a one-pass iterable return {} without asking the accessory anything: no clause of the oracle is touched, they are judged
# in full and the fact is counted ("accessory-never-asked").
WALKED_TWICE = {("coap", "read"): ONE_PASS, ("coap", "write"): NOT_INDEXABLE, ("coap", "unsubscribe"): NOT_INDEXABLE}
SET_ASIDE = ("read-raised", "write-raised", "unsubscribe-raised", "accepted-not-notified")
OBSERVED = {}  # (transport, kind of operation, clause) -> {kind of iterable: first description}

UNTOLD = {}  # (transport, kind of operation, body shape, clause, why it is not judged) -> status lines with which a refusal the reply does not tell was presented as done


def _apply_terms(t, kind, terms, P, raised, ctx, unreported):
    """drop what a freely worded reply does not allow to demand (see wording_terms); unreported = signatures that rest on a refusal being known"""
    if terms is None:
        return P
    out = []
    for sig, what in P:
        name = sig.split("/", 1)[1]
        if name.endswith("-raised") or (raised is not None and name == "accepted-not-notified"):
            continue
        if name in unreported and not terms["reports"]:
            UNTOLD.setdefault((t, kind, terms["shape"], name, terms["why"]), set()).add(terms["code"])
            continue
        out.append((sig, what))
    return out


def write_oracle(t, op, perms, log, r, raised, events):
    P = []
    items = op["items"]
    accepted, rejected = set(), {}
    for kind, iid, st, _v in log:
        if kind in ("write", "exec"):
            if st == 0:
                accepted.add(iid)
            else:
                rejected[iid] = st
        elif kind == "twrite" and st != 0:
            rejected[iid] = st
    what = (f"{t} put_characteristics({[(i['aid'], i['iid'], i['value']) for i in items]}): the accessory accepted the writes of iids {sorted(accepted)} and rejected "
            f"{ {k: v for k, v in sorted(rejected.items())} }")
    notified = {}
    for ev in events:
        if isinstance(ev, dict):
            notified.update(ev)
    keys = [(i["aid"], i["iid"]) for i in items]
    if raised is not None:
        what += f"; the call raised {_fmt_exc(raised)}"
        if not rejected:
            P.append((f"{t}-e2e/write-raised", what + " although the accessory rejected nothing"))
    else:
        what += f"; the call returned {r!r}"
        if not isinstance(r, dict):
            P.append((f"{t}-e2e/write-result", what + " which is not a result dict"))
            r = {}
        for it, key in zip(items, keys):
            st = _status_of(r.get(key))
            if st is None:
                P.append((f"{t}-e2e/write-result", what + f"; the entry for {key} is not a status entry"))
            elif it["iid"] in accepted:
                if st != 0:
                    P.append((f"{t}-e2e/accepted-reported-failed", what + f"; {key} was accepted but is reported with status {st}"))
            elif st == 0:
                how = f"REJECTED with status {rejected[it['iid']]}" if it["iid"] in rejected else "never accepted (no write for it was accepted by the accessory)"
                P.append((f"{t}-e2e/false-success", what + f"; {key} was {how} but is presented as written (no non-zero status)"))
            elif it["iid"] in rejected and abs(st) != abs(rejected[it["iid"]]):
                P.append((f"{t}-e2e/write-status", what + f"; {key} was rejected with status {rejected[it['iid']]} but is reported with status {st}"))
        for key, ent in r.items():
            if key not in keys and _status_of(ent) != 0:
                P.append((f"{t}-e2e/invented-status", what + f"; {key} was not part of the request"))
    want = {key: it["value"] for it, key in zip(items, keys) if it["iid"] in accepted and "r" in perms[it["iid"]]}
    if set(notified) != set(want):
        fs = sorted(set(notified) - set(want))
        P.append((f"{t}-e2e/false-success" if fs else f"{t}-e2e/accepted-not-notified",
                  what + f"; listeners were told the new value of {sorted(notified)} but the accepted readable characteristics are {sorted(want)}"))
    else:
        for key, v in want.items():
            got = notified[key]
            if not (isinstance(got, dict) and "value" in got and got["value"] == v):
                P.append((f"{t}-e2e/notified-value", what + f"; listeners were told {got!r} for {key}, the written value is {v!r}"))
    return P, accepted, rejected, notified


def read_oracle(t, op, log, r, raised, ctx=None):
    P = []
    items = op["items"]
    keys = [(i["aid"], i["iid"]) for i in items]
    answered = {iid: (st, v) for kind, iid, st, v in log if kind == "read"}
    shown = {i: (v if st == 0 else f"status {st}") for i, (st, v) in sorted(answered.items())}
    what = f"{t} get_characteristics({keys}): the accessory answered {shown}"
    if raised is not None:
        P.append((f"{t}-e2e/read-raised", what + f"; the call raised {_fmt_exc(raised)}"))
        return P
    what += f"; the call returned {r!r}"
    if not isinstance(r, dict):
        return [(f"{t}-e2e/read-result", what + " which is not a result dict")]
    for it, key in zip(items, keys):
        ent = r.get(key)
        if it["iid"] not in answered:
            if isinstance(ent, dict) and "value" in ent:
                P.append((f"{t}-e2e/read-invented", what + f"; {key} was never answered by the accessory"))
            elif ent is None or _status_of(ent) in (0, None):
                # "for EVERY requested characteristic, either the accessory's value or its error status": a characteristic the library did not even ask the
                # accessory about still has to show up in the result - with an error status of the library's own making - or the call has to fail
                P.append((f"{t}-e2e/read-item-dropped", what + f"; {key} was requested, the accessory was never asked for it, and the result has "
                          + ("no entry for it (neither value nor error status)" if ent is None else f"{ent!r} for it (neither value nor error status)")))
            continue
        st, v = answered[it["iid"]]
        if st == 0:
            if not (isinstance(ent, dict) and "value" in ent and _same(ent["value"], v) and _status_of(ent) == 0):
                P.append((f"{t}-e2e/read-value", what + f"; the accessory's value of {key} is {v!r} but the result has {ent!r}"))
        elif ent is None:
            if t == "ble":
                # the BLE read path logs and skips a characteristic the accessory refused to read: the requested characteristic gets neither a
                # value nor an error status.  The property's first sentence demands one of the two: recorded as an OPEN known finding
                # (known_findings.json, signature ble-e2e/read-refused-item-omitted), reported on every run
                if ctx is not None:
                    ctx.dist["ble-e2e read: rejected item left out of the result"] += 1
                P.append(("ble-e2e/read-refused-item-omitted", what + f"; {key} was answered with status {st} but is missing from the result (neither value nor error status)"))
            else:
                P.append((f"{t}-e2e/read-error-dropped", what + f"; {key} was answered with status {st} but is missing from the result"))
        elif not isinstance(ent, dict) or "value" in ent or _status_of(ent) in (0, None):
            P.append((f"{t}-e2e/read-error-as-value", what + f"; {key} was answered with status {st} but the result has {ent!r}"))
        elif abs(_status_of(ent)) != abs(st):
            P.append((f"{t}-e2e/read-status", what + f"; {key} was answered with status {st} but is reported with status {_status_of(ent)}"))
    for key, ent in r.items():
        if key not in keys:
            P.append((f"{t}-e2e/read-invented", what + f"; {key} was not requested"))
    return P


def subscribe_oracle(t, op, log, r, raised):
    P = []
    items = op["items"]
    kind = "sub" if op["op"] == "subscribe" else "unsub"
    keys = [(i["aid"], i["iid"]) for i in items]
    answered = {iid: st for k, iid, st, _v in log if k == kind}
    rejected = {i: st for i, st in answered.items() if st != 0}
    what = f"{t} {op['op']}({keys}): the accessory answered {dict(sorted(answered.items()))}"
    if raised is not None:
        if not rejected:
            P.append((f"{t}-e2e/{op['op']}-raised", what + f"; the call raised {_fmt_exc(raised)} although the accessory rejected nothing"))
        return P
    what += f"; the call returned {r!r}"
    if r is not None and not isinstance(r, dict):
        return [(f"{t}-e2e/{op['op']}-result", what + " which is neither None nor a result dict")]
    for it, key in zip(items, keys):
        st = _status_of((r or {}).get(key))
        if it["iid"] in rejected:
            if st == 0:
                P.append((f"{t}-e2e/{op['op']}-false-success", what + f"; {key} was rejected with status {rejected[it['iid']]} but is presented as done"))
        elif st != 0:
            P.append((f"{t}-e2e/{op['op']}-invented-status", what + f"; {key} was not rejected but is reported with {(r or {}).get(key)!r}"))
    return P


def identify_oracle(t, op, log, r, raised, events):
    """identify() is a write of True to the Identify characteristic(s) behind a yes/no answer: yes only if the accessory accepted such a write"""
    P = []
    accepted = sorted(iid for kind, iid, st, _v in log if kind == "write" and st == 0)
    rejected = {iid: st for kind, iid, st, _v in log if kind == "write" and st != 0}
    what = f"{t} identify(): the accessory accepted the writes of iids {accepted} and rejected {dict(sorted(rejected.items()))}"
    if raised is not None:
        if not rejected:
            P.append((f"{t}-e2e/identify-raised", what + f"; the call raised {_fmt_exc(raised)} although the accessory rejected nothing"))
    elif r and not accepted:
        P.append((f"{t}-e2e/identify-false-success", what + f"; the call returned {r!r} - the accessory is presented as having identified itself"))
    told = sorted(k for ev in events if isinstance(ev, dict) for k in ev if isinstance(k, tuple) and len(k) == 2 and k[1] in rejected)
    if told:
        P.append((f"{t}-e2e/identify-false-success", what + f"; listeners were told the new value of {told}"))
    return P


# ------------------------------------------------------------------------------------------------------ running a case
async def _e2e_history(case, ctx=None, rows=None):
    t = case["transport"]
    layout = case["layout"]
    perms = {c["iid"]: c["perm"] for c in layout}
    acc = Accessory(layout, t)
    problems = []
    done = 0
    try:
        p, alive = await WORLDS[t](case, acc)
    except Exception as e:  # noqa: BLE001
        return [(f"{t}-e2e/setup-raised", f"{t}: fetching the accessory database from a conformant accessory raised {_fmt_exc(e)}", 0)], 0
    events = []
    p.dispatcher_connect(events.append)
    for n, op in enumerate(case["ops"]):
        if not alive():
            break  # the session is gone (a failed request closes it); what follows would need a new connection
        kind = op["op"]
        acc.script = {}
        for it in op["items"]:
            st = it.get("st", 0)
            if kind in ("write", "identify"):
                if t == "ble" and "t" in perms[it["iid"]]:
                    acc.script[("twrite", it["iid"])] = st if it.get("stage", "timed") == "timed" else 0
                    acc.script[("exec", it["iid"])] = st if it.get("stage", "timed") == "exec" else 0
                else:
                    acc.script[("write", it["iid"])] = st
            else:
                acc.script[({"read": "read", "subscribe": "sub", "unsubscribe": "unsub"}[kind], it["iid"])] = st
        start = len(acc.log)
        wire = getattr(p, "_e2e_wire", None)
        nrep = len(wire.replies) if wire is not None else 0
        if wire is not None:
            wire.op_http = op.get("http")
        del events[:]
        as_kind = op.get("as") or "list"

        def seq(g):
            return make_iterable(as_kind, g)
        r, raised = None, None
        try:
            if kind == "write":
                r = await p.put_characteristics(seq((i["aid"], i["iid"], i["value"]) for i in op["items"]))
            elif kind == "read":
                r = await p.get_characteristics(seq((i["aid"], i["iid"]) for i in op["items"]))
            elif kind == "subscribe":
                r = await p.subscribe(seq((i["aid"], i["iid"]) for i in op["items"]))
            elif kind == "identify":
                r = await p.identify()
            else:
                r = await p.unsubscribe(seq((i["aid"], i["iid"]) for i in op["items"]))
        except (Exception, asyncio.CancelledError) as e:  # noqa: BLE001
            raised = e
        log = acc.log[start:]
        done += 1
        if wire is not None:
            wire.op_http = None
        try:
            terms = wording_terms(op, log)
            if kind == "write":
                P, accepted, rejected, notified = write_oracle(t, op, perms, log, r, raised, list(events))
                P = _apply_terms(t, kind, terms, P, raised, ctx, ("false-success",))
                if rows is not None and not P and (raised is None or t == "ble" or (t == "ip" and op.get("http") is not None)):
                    rows.append((t, op, perms, accepted, rejected, notified, r, raised, wire.replies[nrep:] if wire is not None else None))
            elif kind == "identify":
                P = _apply_terms(t, kind, terms, identify_oracle(t, op, log, r, raised, list(events)), raised, ctx, ("identify-false-success",))
            elif kind == "read":
                P = _apply_terms(t, kind, terms, read_oracle(t, op, log, r, raised, ctx), raised, ctx, ("read-error-dropped",))
                if rows is not None and t == "ble" and raised is None and isinstance(r, dict):
                    # for the Lean model of the BLE read path (bleGet): what the accessory answered per item, and the result
                    rows.append(("bleread", op, None, {iid: (st, v) for k0, iid, st, v in log if k0 == "read"}, None, None, r, None, None))
            else:
                P = _apply_terms(t, kind, terms, subscribe_oracle(t, op, log, r, raised), raised, ctx, (f"{kind}-false-success",))
        except Exception as e:  # noqa: BLE001 - a result so malformed that it cannot even be inspected
            P = [(f"{t}-e2e/malformed-result", f"{t} {kind} of {[(i['aid'], i['iid']) for i in op['items']]}: the call returned {r!r} / listeners got {events!r}, which cannot be read as a "
                  f"result ({_fmt_exc(e)})")]
        if P and as_kind in WALKED_TWICE.get((t, kind), ()):
            # an entry point of the UNCHANGED library that walks / indexes its argument more than once, called with an iterable that does not survive that:
            # what it does then is recorded as an observation outside the gating oracle (see WALKED_TWICE)
            for sig, what in P:
                if sig.split("/", 1)[1] in SET_ASIDE and raised is not None:
                    OBSERVED.setdefault((t, kind, sig.split("/", 1)[1]), {}).setdefault(as_kind, what)
            P = [(sig, what) for sig, what in P if not (sig.split("/", 1)[1] in SET_ASIDE and raised is not None)]
        if kind in ("subscribe", "unsubscribe") and as_kind in ONE_PASS and raised is None and not log:
            OBSERVED.setdefault((t, kind, "accessory-never-asked"), {}).setdefault(
                as_kind, f"{t} {kind}({[(i['aid'], i['iid']) for i in op['items']]}) returned {r!r} without sending the accessory any request")
        problems += [(sig, f"operation {n + 1} of the history: {what}" + ("" if as_kind == "list" else f" [the characteristics were handed in as a {as_kind}]"), n) for sig, what in P]
    if t == "ip":
        p.connection.transport = None
        p.connection.protocol = None
    return problems, done


def e2e_run_case(case, ctx=None, rows=None):
    """-> ([(signature, what, index of the operation)], operations executed); [] = the property held on this history"""
    loop = asyncio.new_event_loop()
    try:
        return loop.run_until_complete(_e2e_history(case, ctx, rows))
    finally:
        try:
            loop.run_until_complete(asyncio.sleep(0))
        finally:
            loop.close()


# ----------------------------------------------------------------------------------------------------- the generators
def gen_layout(rng, t, n=None):
    n = n or rng.randint(4, 7)
    aids = [1] if t == "ble" or rng.random() < 0.6 else [1, 2]
    layout, iid = [], rng.randint(2, 40)
    for _ in range(n):
        iid += rng.randint(1, 5)
        fmt = rng.choice(list(E2E_FMT))
        layout.append({"aid": rng.choice(aids), "iid": iid, "svc": rng.choice([0, 0, 1]), "perm": rng.choice(E2E_PERMS), "fmt": fmt, "value": gen_value(rng, fmt, t == "ble")})
        if rng.random() < 0.3:  # the rest of the permission vocabulary
            layout[-1]["perm"] = rng.choice(E2E_PERMS_MORE)
            if layout[-1]["perm"] == "o":
                layout[-1]["typ"] = rng.choice(PAIRING_TYPES)
    # every service carries at least one readable characteristic (a service without any makes the CoAP database sweep send an
    # empty batch, whose answer is up to the accessory - outside this property)
    for _aid, svcs in _grouped(layout):
        for _s, chars in svcs:
            if not any("r" in c["perm"] for c in chars):
                chars[0]["perm"] = rng.choice(["rw", "r", "trw"])
    return layout


def fixed_layout(t):
    """four readable+writable characteristics of different formats, a write-only, a read-only and two timed-write ones"""
    rows = [(11, "rw", "bool", False), (12, "rw", "uint8", 7), (13, "rw", "float", 1.5), (14, "rw", "string", "a"), (15, "w", "bool", False), (16, "r", "int", 5),
            (17, "trw", "uint8", 1), (18, "tw", "bool", True)]
    return [{"aid": 1, "iid": i, "svc": 0 if i < 15 else 1, "perm": p, "fmt": f, "value": v} for i, p, f, v in rows]


def errors_of(t):
    return HAP_ERRORS if t == "ip" else PDU_ERRORS


def wide_layout(t):
    """fixed_layout plus the rest of the permission vocabulary: no permission at all, hidden ones, the characteristics of a pairing service (only the
    unsecured read / write bits; CoAP and BLE list them in the database) and an Identify characteristic in an Accessory Information service"""
    rows = [(21, "", "uint8", 3, 1, None), (22, "h", "bool", False, 1, None), (23, "wh", "int", 9, 1, None), (24, "rh", "string", "hid", 0, None),
            (25, "rwh", "uint8", 8, 0, None), (26, "twh", "bool", True, 1, None), (31, "w", "bool", False, 2, IDENTIFY_TYPE), (32, "r", "string", "name", 2, None),
            (41, "o", "uint8", 0, 3, 0x4C), (42, "o", "uint8", 0, 3, 0x4E), (43, "o", "uint8", 1, 3, 0x4F), (44, "o", "uint8", 0, 3, 0x50)]
    # (CoAP: the database sweep of the library reads service by service and a service without any securely readable characteristic makes it send an empty
    # batch, whose answer is up to the accessory - see gen_layout; there the pairing characteristics sit in the Accessory Information service)
    return fixed_layout(t) + [dict({"aid": 1, "iid": i, "svc": 2 if (t == "coap" and s == 3) else s, "perm": p, "fmt": f, "value": v}, **({"typ": ty} if ty else {}))
                              for i, p, f, v, s, ty in rows]


def honest_wording(kind, code, shape, vec):
    """can an honest accessory word its reply to a request with this accept(False)/reject(True) vector like this?  (IpWire.serve_worded refuses the whole
    request when the shape cannot tell items apart, so the question is only whether the status line + body can be truthful at all)"""
    some, every = any(vec), all(vec)
    if shape in ("none", "empty"):
        if kind == "read":
            return every and code >= 400  # values need a body; without one the status line has to say that the request failed
        return not some or (every and code >= 400)
    if code == 204:
        return True  # bytes after a 204 status line are no body: generated (sloppy accessories exist), a refusal "told" that way is noted, never judged
    if shape == "global":
        return not some or every
    return True


def gen_http(rng, kind, vec):
    for _ in range(40):
        code, shape = rng.choice(HTTP_CODES), rng.choice(HTTP_SHAPES[kind])
        if honest_wording(kind, code, shape, vec):
            return {"code": code, "shape": shape, "cl0": rng.random() < 0.5}
    return None


def gen_write_item(rng, t, c, reject):
    it = {"aid": c["aid"], "iid": c["iid"], "value": gen_value(rng, c["fmt"], t == "ble")}
    must_reject = "w" not in c["perm"]  # a conformant accessory never accepts a write to a characteristic that is not writable
    if reject or must_reject:
        it["st"] = rng.choice(errors_of(t))
        if t == "ble" and "t" in c["perm"]:
            it["stage"] = rng.choice(["timed", "exec"])
    else:
        it["st"] = 0
    return it


def gen_op(rng, t, layout, kinds):
    kind = rng.choice(kinds)
    n = rng.choice([1, 1, 2, 2, 3, 4])
    if kind == "write":
        pool = [c for c in layout if "w" in c["perm"]] * 4 + layout  # mostly writable ones, sometimes a read-only one
    else:
        pool = [c for c in layout if "r" in c["perm"]] * 4 + layout
    chosen = []
    for c in rng.sample(pool, len(pool)):
        if c not in chosen:
            chosen.append(c)
    chosen = chosen[:n]
    p_rej = rng.choice([0.0, 0.3, 0.5, 0.5, 1.0])
    items = []
    for c in chosen:
        rej = rng.random() < p_rej
        if kind == "write":
            items.append(gen_write_item(rng, t, c, rej))
        else:
            need_rej = "r" not in c["perm"]
            items.append({"aid": c["aid"], "iid": c["iid"], "st": rng.choice(errors_of(t)) if (rej or need_rej) else 0})
    op = {"op": kind, "items": items, "as": rng.choice(["list", "list", "tuple"] + (["set", "keys"] if kind == "read" else []))}
    if t == "ip" and rng.random() < 0.4:
        http = gen_http(rng, kind, [bool(i["st"]) for i in items])
        if http is not None:
            op["http"] = http
    return op


def _case(t, layout, ops, rng):
    case = {"stream": "e2e", "transport": t, "layout": layout, "ops": ops}
    if t == "ble":
        case["mtu"] = rng.choice([104, 158, 247, 515])
        case["short_header"] = rng.random() < 0.5
    if t == "ip":
        case["chunked"] = rng.random() < 0.3
        case["style"] = rng.choice(["spec", "spec", "positive", "terse", "verbose", "400"])
        case["cuts"] = [rng.choice([0, 0, 1, 7, 50, 300]) for _ in range(len(ops) + 1)]
    return case


def e2e_cases(ctx, rng):
    """directed part: EVERY accept/reject vector for requests of 1..3 characteristics (each rejection with a status drawn from
    all of the transport's error statuses), every error status on a LONE write and a lone read, on every transport;
    random part: histories of mixed operations on random layouts"""
    for t in TRANSPORTS:
        layout = fixed_layout(t)
        by = {c["iid"]: c for c in layout}
        ops = []
        # a lone write / lone read answered with each status of the transport, on a readable and on a write-only characteristic
        for st in [0] + errors_of(t):
            for iid in (12, 15, 17):
                it = {"aid": 1, "iid": iid, "value": gen_value(rng, by[iid]["fmt"]), "st": st}
                if t == "ble" and iid == 17 and st:
                    it["stage"] = rng.choice(["timed", "exec"])
                ops.append({"op": "write", "items": [it]})
            ops.append({"op": "read", "items": [{"aid": 1, "iid": 12, "st": st}]})
            if t != "ble":
                ops.append({"op": "subscribe", "items": [{"aid": 1, "iid": 12, "st": st}]})
                ops.append({"op": "unsubscribe", "items": [{"aid": 1, "iid": 12, "st": st}]})
        # every accept/reject vector over 2 and 3 items (positions first / middle / last), mixed permissions
        for n in (2, 3, 4):
            vectors = list(itertools.product([False, True], repeat=n))
            if n == 4:
                vectors = rng.sample(vectors, ctx.budget(6, 16))
            for vec in vectors:
                iids = rng.sample([11, 12, 13, 14, 15, 17, 18], n)
                ops.append({"op": "write", "items": [gen_write_item(rng, t, by[i], rej) for i, rej in zip(iids, vec)]})
                riids = rng.sample([11, 12, 13, 14, 16, 17], n)
                ops.append({"op": "read", "items": [{"aid": 1, "iid": i, "st": rng.choice(errors_of(t)) if rej else 0} for i, rej in zip(riids, vec)]})
                if t != "ble" and n < 4:
                    ops.append({"op": rng.choice(["subscribe", "unsubscribe"]), "items": [{"aid": 1, "iid": i, "st": rng.choice(errors_of(t)) if rej else 0} for i, rej in zip(riids, vec)]})
        for o in range(0, len(ops), 8):
            yield _case(t, layout, ops[o:o + 8], rng)
        yield from permission_mix_cases(ctx, rng, t)
        if t == "ip":
            yield from wording_cases(ctx, rng)
        kinds = ["write", "write", "write", "read", "read"] + ([] if t == "ble" else ["subscribe", "unsubscribe"])
        for _ in range(ctx.budget(250, 4000)):
            layout = gen_layout(rng, t)
            yield _case(t, layout, [gen_op(rng, t, layout, kinds) for _ in range(rng.randint(2, 6))], rng)
    yield from iterable_cases(ctx, rng)


def permission_mix_cases(ctx, rng, t):
    """reads, subscriptions and writes over EVERY permission class of wide_layout: each characteristic alone, every pair of one class with a readable+writable
    one in both orders, requests made only of characteristics that cannot be read (resp. written), and random mixes of 3..4; what cannot be read / written
    is refused by the accessory with a status drawn from all of the transport's error statuses"""
    layout = wide_layout(t)
    by = {c["iid"]: c for c in layout}

    def ritem(i, kind):
        need = "w" if kind == "write" else "r"
        it = {"aid": 1, "iid": i, "st": 0 if need in by[i]["perm"] else rng.choice(errors_of(t))}
        if kind == "write":
            it = gen_write_item(rng, t, by[i], False)
        return it
    kinds = ["read", "write"] + ([] if t == "ble" else ["subscribe", "unsubscribe"])
    ops = []
    for kind in kinds:
        every = [c["iid"] for c in layout]
        cannot = [i for i in every if ("w" if kind == "write" else "r") not in by[i]["perm"]]
        for i in every:
            ops.append({"op": kind, "items": [ritem(i, kind)]})
            if i != 12 and kind != "write":
                ops.append({"op": kind, "items": [ritem(x, kind) for x in rng.choice([(12, i), (i, 12)])]})
        for n in (2, 3):
            for _ in range(ctx.budget(2, 6)):
                ops.append({"op": kind, "items": [ritem(i, kind) for i in rng.sample(cannot, n)], "as": rng.choice(["list", "tuple"] + (["set", "keys"] if kind == "read" else []))})
        for _ in range(ctx.budget(6, 40)):
            ops.append({"op": kind, "items": [ritem(i, kind) for i in rng.sample(every, rng.choice([3, 4]))], "as": rng.choice(["list", "tuple"] + (["set", "keys"] if kind == "read" else []))})
    if t == "ip":
        for st in [0] + rng.sample(HAP_ERRORS, ctx.budget(3, len(HAP_ERRORS))):
            ops.append({"op": "identify", "items": [{"aid": 1, "iid": 31, "st": st}]})
    rng.shuffle(ops)
    for o in range(0, len(ops), 8):
        yield _case(t, layout, ops[o:o + 8], rng)


def wording_cases(ctx, rng):
    """IP: the STATUS LINE of a reply varied independently of its body: every HTTP status x body shape x accept/reject vector (one item accepted / refused, of two
    the first / the last / both refused, of three the middle one) an honest accessory can produce, for write, read, subscribe, unsubscribe and identify; each
    on a fresh session (a reply the library cannot make sense of may cost the session)"""
    layout = wide_layout("ip")
    by = {c["iid"]: c for c in layout}
    vectors = [(False,), (True,), (True, False), (False, True), (True, True), (False, True, False), (False, False)]
    todo = []
    for kind in ("write", "read", "subscribe", "unsubscribe", "identify"):
        for code in HTTP_CODES:
            for shape in HTTP_SHAPES[kind]:
                for vec in vectors:
                    if kind == "identify" and len(vec) > 1:
                        continue
                    if honest_wording(kind, code, shape, vec):
                        todo.append((kind, code, shape, vec))
    rng.shuffle(todo)
    keep = ctx.budget(450, len(todo))
    # never thin out the combinations in which something is refused and the body tells so
    todo.sort(key=lambda x: not (any(x[3]) and x[2] in ("full", "failures", "partial", "global")))
    for kind, code, shape, vec in todo[:keep]:
        err = rng.choice(HAP_ERRORS)
        if kind == "identify":
            items = [{"aid": 1, "iid": 31, "st": err if vec[0] else 0}]
        elif kind == "write":
            iids = rng.sample([11, 12, 13, 14, 15, 17, 18, 25], len(vec))
            items = [dict(gen_write_item(rng, "ip", by[i], False), st=(err if shape in ("partial", "global") else rng.choice(HAP_ERRORS)) if rej else 0) for i, rej in zip(iids, vec)]
        else:
            iids = rng.sample([11, 12, 13, 14, 16, 17, 24, 25], len(vec))
            items = [{"aid": 1, "iid": i, "st": (err if shape in ("partial", "global") else rng.choice(HAP_ERRORS)) if rej else 0} for i, rej in zip(iids, vec)]
        op = {"op": kind, "items": items, "as": rng.choice(["list", "tuple"]), "http": {"code": code, "shape": shape, "cl0": rng.random() < 0.5}}
        case = _case("ip", layout, [op], rng)
        case["style"] = "spec"
        yield case


def iter_layout(t):
    """fixed_layout plus (IP, CoAP) a second accessory behind the bridge"""
    rows = [(51, "rw", "uint8", 4), (52, "rw", "bool", True), (53, "w", "int", 0), (54, "r", "float", 2.5)]
    return fixed_layout(t) + ([] if t == "ble" else [{"aid": 2, "iid": i, "svc": 0, "perm": p, "fmt": f, "value": v} for i, p, f, v in rows])


ITER_VECTORS = [(False,), (True,), (False, True), (True, False), (True, True), (False, False), (False, True, False), (True, False, True), (False, False, True, False)]


def iterable_cases(ctx, rng):
    """EVERY public read / write / subscribe / unsubscribe entry point of every transport called with EVERY kind of iterable its annotation allows (ITER_KINDS),
    crossed with the reply shapes of the other streams: per-item statuses in each accessory style; IP: the status line x body shape wordings (request-wide status
    with a partial / absent list, failures only, 200 / 204 / 207 / 4xx), one or two accessories, the set kinds putting the items in another order.  Each operation
    on a fresh session; same oracles as everywhere else - the items are what the harness put into the iterable."""
    for t in TRANSPORTS:
        layout = iter_layout(t)
        by = {c["iid"]: c for c in layout}
        rpool = [c["iid"] for c in layout if "r" in c["perm"]]
        wpool = [c["iid"] for c in layout if "w" in c["perm"]]

        def items_of(kind, vec, same_err=None):
            iids = rng.sample(wpool if kind == "write" else rpool, len(vec))
            if kind == "write":
                out = [gen_write_item(rng, t, by[i], rej) for i, rej in zip(iids, vec)]
                if same_err is not None:
                    out = [dict(it, st=same_err) if it["st"] else it for it in out]
                return out
            return [{"aid": by[i]["aid"], "iid": i, "st": (same_err if same_err is not None else rng.choice(errors_of(t))) if rej else 0} for i, rej in zip(iids, vec)]
        kinds = ["read", "write"] + ([] if t == "ble" else ["subscribe", "unsubscribe"])
        for kind in kinds:
            for as_kind in ITER_KINDS:
                vectors = ITER_VECTORS if ctx.thorough() else ITER_VECTORS[:2] + rng.sample(ITER_VECTORS[2:], ctx.budget(4, 7))
                for vec in vectors:
                    yield _case(t, layout, [{"op": kind, "items": items_of(kind, vec), "as": as_kind}], rng)
                if t != "ip":
                    continue
                for shape in HTTP_SHAPES[kind]:
                    # (a 204 status line makes every body honest - and tells nothing: those wordings are wording_cases' business, here only in the thorough tier)
                    told = [v for v in ITER_VECTORS if any(v) and any(honest_wording(kind, c, shape, v) for c in HTTP_CODES if c != 204)]
                    calm = [v for v in ITER_VECTORS if not any(v)]
                    vectors = told + calm if ctx.thorough() else rng.sample(told, min(len(told), 2)) + rng.sample(calm, 1)
                    for vec in vectors:
                        codes = [c for c in HTTP_CODES if honest_wording(kind, c, shape, vec)]
                        if not ctx.thorough():
                            # one status line that says success / multi-status and one of the others, so that a refusal told by the body meets both
                            mild = [c for c in codes if c in (200, 207)]
                            other = [c for c in codes if c not in (200, 204, 207)] if any(vec) else [c for c in codes if c not in (200, 207)]
                            codes = ([rng.choice(mild)] if mild else []) + ([rng.choice(other)] if other else [])
                        for code in codes:
                            err = rng.choice(HAP_ERRORS)
                            op = {"op": kind, "items": items_of(kind, vec, err if shape in ("partial", "global") else None), "as": as_kind,
                                  "http": {"code": code, "shape": shape, "cl0": rng.random() < 0.5}}
                            case = _case("ip", layout, [op], rng)
                            case["style"] = "spec"
                            yield case


def e2e_streams(ctx, driver, rng):
    cases, outs, lines = {"coapwrite-e2e": [], "blewrite-e2e": [], "ipwrite-e2e": [], "bleread-e2e": [], "ipwrite-http": []}, {}, {}
    for k in cases:
        outs[k], lines[k] = [], []
    sampled = set()
    for case in e2e_cases(ctx, rng):
        t = case["transport"]
        rows = []
        problems, done = e2e_run_case(case, ctx, rows)
        ctx.evaluations += done
        seen = set()
        for sig, what, n in problems:
            if sig in seen:  # one report per signature and history
                continue
            seen.add(sig)
            # smallest failing input: the offending operation alone on a fresh session, if that already shows it
            alone = dict(case, ops=[case["ops"][n]], cuts=case.get("cuts", [])[:2])
            p1, _ = e2e_run_case(alone)
            hit = [w for s1, w, _n in p1 if s1 == sig]
            if hit:
                ctx.violation(sig, hit[0], alone)
            else:
                ctx.violation(sig, what, dict(case, ops=case["ops"][:n + 1]))
        for op in case["ops"][:done]:
            n = len(op["items"])
            vec = tuple(bool(i.get("st")) for i in op["items"])
            ctx.dist[f"{t}-e2e {op['op']} of {n}"] += 1
            if op["op"] == "write":
                for pos, rej in enumerate(vec):
                    if rej:
                        where = "only" if n == 1 else ("first" if pos == 0 else ("last" if pos == n - 1 else "middle"))
                        ctx.dist[f"{t}-e2e write: rejected item is the {where} one"] += 1
            ctx.nontrivial.add((t + "-e2e", op["op"], vec, tuple(sorted({i.get("st", 0) for i in op["items"]}))))
            if op.get("as") in ITER_KINDS[2:] and op["op"] != "identify":
                ak = op["as"]
                ctx.dist[f"{t}-e2e {op['op']}: characteristics handed in as a {ak}"
                         + (" (the entry point walks / indexes its argument more than once: that it FAILS is observed, not judged)" if ak in WALKED_TWICE.get((t, op["op"]), ()) else "")] += 1
                ctx.nontrivial.add((t + "-e2e-iterable", op["op"], ak, vec, (op.get("http") or {}).get("shape")))
            if op.get("http") is not None:
                ctx.dist[f"ip-e2e reply status line {op['http']['code']} (varied independently of the body)"] += 1
                ctx.dist[f"ip-e2e reply body shape {op['http']['shape']} ({'something' if any(vec) else 'nothing'} refused)"] += 1
                ctx.nontrivial.add(("ip-e2e-wording", op["op"], op["http"]["code"], op["http"]["shape"], vec))
            if op["op"] in ("read", "subscribe", "unsubscribe"):
                by_iid = {c["iid"]: c["perm"] for c in case["layout"]}
                for i in op["items"]:
                    if "r" not in by_iid[i["iid"]]:
                        ctx.dist[f"{t}-e2e {op['op']} of a characteristic that cannot be read (permissions '{by_iid[i['iid']] or 'none'}')"] += 1
        if t not in sampled and done:
            sampled.add(t)
            ctx.sample({k: v for k, v in case.items() if k != "layout"} | {"ops": case["ops"][:2]}, limit=9)
        # tie the end-to-end outcomes to the Lean models of the write paths as well
        for (tt, op, perms, accepted, rejected, notified, r, raised, replies) in rows:
            items = op["items"]
            if tt == "bleread":
                answered = accepted
                if any(i["iid"] not in answered for i in items) or not all(isinstance(x, tuple) and isinstance(e, dict) and set(e) == {"value"} for x, e in r.items()):
                    continue  # an item the accessory never saw, or a result that is not values-only: the oracle's business, not the model's
                names = {}

                def vname(v):
                    return names.setdefault(repr(v), len(names))
                toks = []
                for i in items:
                    st, v = answered[i["iid"]]
                    toks.append(f"{i['aid']}.{i['iid']}:" + (f"r{st}" if st else f"v{vname(v)}"))
                lines["bleread-e2e"].append("cl.bleget " + " ".join(toks))
                outs["bleread-e2e"].append(",".join(sorted(f"{a}.{i}={vname(e['value'])}" for (a, i), e in r.items())) or "-")
                cases["bleread-e2e"].append({"stream": "e2e", "transport": "ble", "layout": case["layout"], "ops": [op]})
                continue
            k = tt + "write-e2e"
            if not all(isinstance(x, tuple) and len(x) == 2 for x in list(notified) + list(r or {})):
                continue
            if tt == "coap":
                lines[k].append("cl.coapput " + " ".join(f"{i['aid']}.{i['iid']}:{'r' if 'r' in perms[i['iid']] else 'w'}:{rejected.get(i['iid'], 0)}" for i in items))
                outs[k].append(f"{keys_str(notified)} | {keys_str(r)}")
            elif tt == "ble":
                if op.get("as") in ("set", "frozenset"):
                    continue  # the model of the BLE write path takes the items in the order they are walked; a set's order is not the harness's to know
                lines[k].append("cl.bleput " + " ".join(f"{i['aid']}.{i['iid']}:{model_perm(perms[i['iid']])}:{1 if i['iid'] in accepted else 0}" for i in items))
                local = []  # locally refused (not writable) before the first item the accessory rejected
                for i in items:
                    if "w" not in perms[i["iid"]]:
                        local.append((i["aid"], i["iid"]))
                    elif i["iid"] not in accepted:
                        break
                outs[k].append(f"{keys_str(notified)} | {keys_str(local) if raised is not None else keys_str(r)} | {'raised' if raised is not None else 'returned'}")
            else:
                if not replies or len(replies) != 1:
                    continue
                code, body = replies[0]
                if op.get("http") is not None and (body is None or (isinstance(body, dict) and "characteristics" in body and "status" not in body)):
                    # the HTTP layer of the model (ipPutHttp: 4xx fails, 204 is success without a body, every other status line defers to the body)
                    hk = "ipwrite-http"
                    lines[hk].append(f"cl.ipputc {code} {keys_str([(i['aid'], i['iid']) for i in items if 'r' in perms[i['iid']]])} {'-' if body is None else J(body)}")
                    outs[hk].append("failed" if raised is not None else f"{keys_str(notified)} | {canon_result(r)}")
                    cases[hk].append({"stream": "e2e", "transport": tt, "layout": case["layout"], "ops": [op]})
                if raised is not None:
                    continue
                if op.get("http") is not None:  # freely worded reply: the model sees what put_json hands on - nothing for 204, else the body if it lists characteristics
                    if code == 204:
                        body = None
                    elif not (isinstance(body, dict) and "characteristics" in body and "status" not in body):
                        continue
                lines[k].append(f"cl.ipput {keys_str([(i['aid'], i['iid']) for i in items if 'r' in perms[i['iid']]])} {'204' if body is None else J(body)}")
                outs[k].append(f"{keys_str(notified)} | {canon_result(r)}")
            cases[k].append({"stream": "e2e", "transport": tt, "layout": case["layout"], "ops": [op]})
    for (t, kind, shape, name, why), codes in sorted(UNTOLD.items()):
        ctx.notes.append(f"{t}: a {kind} the accessory refused, answered with status line {sorted(codes)} and body shape '{shape}', is presented as done by the library "
                         f"[{name}] - noted, not judged: {why}")
    UNTOLD.clear()
    for (t, kind, name), per in sorted(OBSERVED.items()):
        ak, what = sorted(per.items())[0]
        ctx.dist[f"{t}-e2e {kind}: observation [{name}] with an iterable the entry point walks / indexes more than once"] += len(per)
        ctx.notes.append(f"{t} {kind}() walks / indexes its argument more than once: with the characteristics handed in as a {' / '.join(sorted(per))} the outcome is [{name}] - "
                         + ("no clause of the oracle is touched (nothing was refused, nothing is presented as done), counted only"
                            if name == "accessory-never-asked" else "behaviour of the unchanged library, set aside from the gating oracle") + f"; e.g. ({ak}) {what[:400]}")
    OBSERVED.clear()
    for k in cases:
        if cases[k]:
            compare_with_model(ctx, k, cases[k], outs[k], lines[k], driver, canon=(lambda x: ",".join(sorted(x.split(",")))) if k == "bleread-e2e" else (lambda x: x))


def replay(ctx, driver, c):
    if c.get("stream") == "e2e":
        problems, _ = e2e_run_case(c)
        return "; ".join(f"{sig}: {what}" for sig, what, _n in problems[:3]) or None
    loop = asyncio.new_event_loop()
    try:
        if c["stream"] == "ipwrite":
            layout = {tuple(int(x) for x in k.split(".")): v for k, v in c["layout"].items()}
            req = sorted(layout)
            p = IpPairing.__new__(IpPairing)
            p._ensure_connected = _noop
            p._accessories_state = AccessoriesState(build_accessories(layout), 1, None, 0)
            events = []
            p.listeners = {events.append}
            resp = c["reply"]

            class Conn:
                async def put_json(self, url, body):
                    return copy.deepcopy(resp) if resp is not None else {}
            p.connection = Conn()
            try:
                loop.run_until_complete(p.put_characteristics(make_iterable(c.get("as", "list"), [(a, i, True) for a, i in req])))
            except Exception as e:  # noqa: BLE001
                return f"raised {type(e).__name__}"
            notified = set()
            for ev in events:
                notified.update(ev)
            rejected = {(e["aid"], e["iid"]) for e in (resp or {}).get("characteristics", []) if isinstance(e, dict) and "aid" in e and "iid" in e and e.get("status", 0) != 0}
            want = {k for k in req if "r" in layout[k] and k not in rejected}
            if notified != want:
                return f"notified {sorted(notified)} != accepted readable {sorted(want)}"
        elif c["stream"] == "ipread":
            req = [tuple(k) for k in c["requested"]]
            try:
                r = ipread_call(loop, req, c["reply"], c.get("as", "list"))
            except Exception as e:  # noqa: BLE001
                return f"raised {type(e).__name__}"
            return "; ".join(f"{sig}: {what}" for sig, what in ipread_problems(req, c["reply"], r)[:3]) or None
        return None
    finally:
        loop.close()
