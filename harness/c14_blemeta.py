"""C14: the BLE signature-metadata route (`HapVerif.BleMeta`, theorems C14_ble_*) against the real
`aiohomekit.controller.ble.structs.Characteristic` and `aiohomekit.controller.coap.structs.Pdu09Characteristic` (the same chains).

The declared range and step of every BLE characteristic reach the accessory database through `min_max_value` / `min_step` /
`to_dict` of this object.  Stream: every presentation-format code 0..0x20 (and a few beyond) x descriptors of every length 0..17
with boundary and random contents; for the integer formats additionally the descriptor a conformant accessory writes for bounds
the harness picks (encoded here from the HAP-BLE specification, little-endian two's complement) - implementation-level oracle: the
bounds come back exactly (that is theorem C14_ble_range_roundtrip for the model)."""
from __future__ import annotations

import struct

from harness.common import Ctx, Driver, compare_with_model

INT_FORMATS = {0x04: (1, False), 0x06: (2, False), 0x08: (4, False), 0x0A: (8, False), 0x10: (4, True)}


def canon(s):
    if s.startswith("f:"):
        out = []
        for part in s[2:].split(":"):
            v = struct.unpack("<f", bytes.fromhex(part))[0]
            out.append("nan" if v != v else struct.pack("<f", v).hex())
        return "f:" + ":".join(out)
    return s


def real(code, kind, desc, route="ble"):
    import dataclasses
    if route == "ble":
        from aiohomekit.controller.ble.structs import Characteristic as Cls
    else:
        from aiohomekit.controller.coap.structs import Pdu09Characteristic as Cls
    pf = None if code is None else struct.pack("<BxHxxx", code, 0x2700)
    kw = {f.name: None for f in dataclasses.fields(Cls) if f.init}
    kw.update(type=0x25, instance_id=9, properties=0x30, presentation_format=pf, valid_range=desc if kind == "range" else None,
              step_value=desc if kind == "step" else None)
    ch = Cls(**kw)
    try:
        r = ch.min_max_value if kind == "range" else ch.min_step
    except struct.error:
        return "error"
    if r is None:
        return "none"
    if kind == "range":
        lo, hi = r
        if isinstance(lo, float):
            return "f:" + struct.pack("<f", lo).hex() + ":" + struct.pack("<f", hi).hex() if lo == lo and hi == hi else canon_nan(lo, hi)
        return f"i:{lo}:{hi}"
    if isinstance(r, bool) or isinstance(r, (str, bytes, bytearray)):
        return "other"
    if isinstance(r, float):
        return "f:" + (struct.pack("<f", r).hex() if r == r else "0000c07f")
    return f"i:{r}"


def canon_nan(lo, hi):
    return "f:" + ":".join("0000c07f" if v != v else struct.pack("<f", v).hex() for v in (lo, hi))


def enc(width, signed, v):
    return (v % (1 << (8 * width))).to_bytes(width, "little")


def boundary(width, signed):
    top = 1 << (8 * width)
    if signed:
        return [-(top // 2), -(top // 2) + 1, -90, -1, 0, 1, 90, top // 2 - 2, top // 2 - 1]
    return [0, 1, 2, top // 2 - 1, top // 2, top // 2 + 1, top - 2, top - 1]


def run_blemeta(ctx: Ctx, driver: Driver):
    rng = ctx.rng
    cases, outs, lines = [], [], []

    def add(code, kind, desc, why):
        route = rng.choice(["ble", "coap"])
        case = {"stream": "ble-meta", "code": code, "kind": kind, "desc": desc.hex(), "why": why, "route": route}
        try:
            out = real(code, kind, desc, route)
        except Exception as e:  # noqa: BLE001
            ctx.violation(f"blemeta/{kind}/{type(e).__name__}", f"format 0x{code:02x}, {kind} descriptor {desc.hex() or '-'}: raised {type(e).__name__}: {e}", case)
            return None
        ctx.evaluations += 1
        ctx.dist[f"ble-meta:{kind}:{why}"] += 1
        ctx.dist[f"ble-meta:route:{route}"] += 1
        cases.append(case)
        outs.append(out)
        lines.append(f"bm.{kind} {code} {desc.hex() or '-'}")
        return out
    # (a) conformant descriptors of the integer formats: the bounds must come back exactly
    for code, (w, signed) in INT_FORMATS.items():
        vals = boundary(w, signed)
        top = 1 << (8 * w)
        vals += [rng.randrange(-(top // 2), top // 2) if signed else rng.randrange(top) for _ in range(ctx.budget(6, 60))]
        for lo in vals:
            for hi in rng.sample(vals, min(len(vals), ctx.budget(5, 20))):
                out = add(code, "range", enc(w, signed, lo) + enc(w, signed, hi), "conformant")
                ctx.nontrivial.add(("ble-meta", code, lo, hi))
                if out is not None and out != f"i:{lo}:{hi}":
                    ctx.violation("blemeta/range-not-as-declared", f"format 0x{code:02x}: the accessory declares the valid range [{lo}, {hi}] "
                                  f"(descriptor {(enc(w, signed, lo) + enc(w, signed, hi)).hex()}), min_max_value says {out}", cases[-1])
            out = add(code, "step", enc(w, signed, lo), "conformant")
            if out is not None and lo != 0 and out != f"i:{lo}":
                ctx.violation("blemeta/step-not-as-declared", f"format 0x{code:02x}: the accessory declares the step {lo} (descriptor {enc(w, signed, lo).hex()}), min_step says {out}", cases[-1])
    # (b) every format code x descriptors of every length (right, short, long, empty), for the correspondence with the model
    codes = list(range(0, 0x21)) + [0x7F, 0xFF]
    for code in codes:
        for n in range(0, 18):
            for _ in range(ctx.budget(2, 12)):
                desc = bytes(rng.choice([0, 1, 0x7F, 0x80, 0xFF, rng.randrange(256)]) for _ in range(n))
                add(code, "range", desc, "any-length")
                if n <= 9 and code not in (0x01, 0x19, 0x1B):   # bool / text / opaque declare no step (HAP-BLE): out of the model's scope
                    add(code, "step", desc, "any-length")
    compare_with_model(ctx, "ble-meta", cases, outs, lines, driver, canon=canon)


def replay_blemeta(ctx: Ctx, driver: Driver, case):
    code, kind, desc = case["code"], case["kind"], bytes.fromhex(case["desc"])
    out = real(code, kind, desc, case.get("route", "ble"))
    compare_with_model(ctx, "ble-meta", [case], [out], [f"bm.{kind} {code} {desc.hex() or '-'}"], driver, canon=canon)
    return None
