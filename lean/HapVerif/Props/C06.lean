import HapVerif.Model.Counters
import HapVerif.Gen.Misc

/-! # C06 - no nonce is reused and no encrypted message is accepted twice or out of order -/

namespace HapVerif.C06
open HapVerif.Counters

theorem sealedOf_append (a b : List Obs) : sealedOf (a ++ b) = sealedOf a ++ sealedOf b := by
  simp [sealedOf, List.filterMap_append]
theorem acceptedOf_append (a b : List Obs) : acceptedOf (a ++ b) = acceptedOf a ++ acceptedOf b := by
  simp [acceptedOf, List.filterMap_append]

theorem sealedOf_map_sealed (l : List Nat) : sealedOf (l.map Obs.sealed) = l := by
  induction l with
  | nil => rfl
  | cons a l ih => simp [sealedOf, List.filterMap_cons] at ih ⊢; exact ih
theorem acceptedOf_map_sealed (l : List Nat) : acceptedOf (l.map Obs.sealed) = [] := by
  induction l with
  | nil => rfl
  | cons a l ih => simp [acceptedOf] at ih ⊢

/-- one step: the nonces sealed are the next `k` counter values, the accepted message (if any) is
    the next expected one -/
theorem step_obs (s : St) (e : Ev) :
    ∃ k a, sealedOf (step s e).2 = List.range' s.sendCtr k ∧ (step s e).1.sendCtr = s.sendCtr + k ∧
      acceptedOf (step s e).2 = List.range' s.recvCtr a ∧ (step s e).1.recvCtr = s.recvCtr + a := by
  cases e with
  | send n =>
    exact ⟨n, 0, by simp [step, sealedOf_map_sealed], rfl, by simp [step, acceptedOf_map_sealed], rfl⟩
  | deliver ct =>
    refine ⟨0, if s.alive ∧ ct = .genuine s.recvCtr then 1 else 0, ?_, ?_, ?_, ?_⟩ <;>
    · simp only [step]
      cases hal : s.alive <;> simp [sealedOf, acceptedOf]
      all_goals (cases ct with
        | corrupt => simp [sealedOf, acceptedOf]
        | genuine j =>
          by_cases hj : j = s.recvCtr
          · subst hj; simp [sealedOf, acceptedOf]
          · simp [hj, sealedOf, acceptedOf])
  | abort =>
    refine ⟨0, 0, ?_, ?_, ?_, ?_⟩ <;> (simp only [step]; cases s.alive <;> simp [sealedOf, acceptedOf])

/-- **IP / BLE, every history**: the nonces used for sealing under one key are exactly
    `send₀, send₀+1, …` (so no two are equal), and the accepted messages are exactly the
    accessory's `recv₀, recv₀+1, …` - each once, in order, a prefix of what it sent. -/
theorem C06_ip_ble_history : ∀ (evs : List Ev) (s : St),
    ∃ k a, sealedOf (run s evs) = List.range' s.sendCtr k ∧ acceptedOf (run s evs) = List.range' s.recvCtr a := by
  intro evs
  induction evs with
  | nil => intro s; exact ⟨0, 0, rfl, rfl⟩
  | cons e es ih =>
    intro s
    obtain ⟨k1, a1, h1, h2, h3, h4⟩ := step_obs s e
    obtain ⟨k2, a2, h5, h6⟩ := ih (step s e).1
    refine ⟨k1 + k2, a1 + a2, ?_, ?_⟩
    · rw [run, sealedOf_append, h1, h5, h2, List.range'_append_1]
    · rw [run, acceptedOf_append, h3, h6, h4, List.range'_append_1]

/-- no nonce reuse under one key, for every history of sends, deliveries (genuine, replayed,
    future, corrupted), cancellations and timeouts -/
theorem C06_ip_ble_nonce_unique (evs : List Ev) (s : St) : (sealedOf (run s evs)).Nodup := by
  obtain ⟨k, _, h, _⟩ := C06_ip_ble_history evs s
  rw [h]; exact List.nodup_range'

/-- each message accepted at most once and only in order -/
theorem C06_ip_ble_accept_once_in_order (evs : List Ev) (s : St) :
    (acceptedOf (run s evs)).Nodup ∧ ∃ a, acceptedOf (run s evs) = List.range' s.recvCtr a := by
  obtain ⟨_, a, _, h⟩ := C06_ip_ble_history evs s
  exact ⟨by rw [h]; exact List.nodup_range', a, h⟩

/-- after any failure nothing more is accepted under these keys (the connection is closed; the
    next session has fresh keys) -/
theorem C06_ip_ble_dead_accepts_nothing : ∀ (evs : List Ev) (s : St), s.alive = false → acceptedOf (run s evs) = [] := by
  intro evs
  induction evs with
  | nil => intro s _; rfl
  | cons e es ih =>
    intro s hs
    rw [run, acceptedOf_append]
    have h1 : acceptedOf (step s e).2 = [] ∧ (step s e).1.alive = false := by
      cases e with
      | send n => exact ⟨by simp [step, acceptedOf_map_sealed], hs⟩
      | deliver ct => simp [step, hs, acceptedOf]
      | abort => simp [step, hs, acceptedOf]
    rw [h1.1, ih _ h1.2]; rfl

example : run {} [.send 2, .deliver (.genuine 0), .deliver (.genuine 0), .send 1, .deliver (.genuine 1)] =
    [.sealed 0, .sealed 1, .accepted 0, .closed, .sealed 2] := by decide

/-! ## several sessions of one pairing -/

theorem ssealedOf_append (a b : List (Nat × Obs)) : ssealedOf (a ++ b) = ssealedOf a ++ ssealedOf b := by
  simp [ssealedOf, List.filterMap_append]
theorem sacceptedOf_append (a b : List (Nat × Obs)) : sacceptedOf (a ++ b) = sacceptedOf a ++ sacceptedOf b := by
  simp [sacceptedOf, List.filterMap_append]

theorem ssealedOf_map (k : Nat) (l : List Obs) : ssealedOf (l.map (fun o => (k, o))) = (sealedOf l).map (fun n => (k, n)) := by
  induction l with
  | nil => rfl
  | cons a l ih =>
    cases a <;> simp [ssealedOf, sealedOf, List.filterMap_cons] at ih ⊢ <;> exact ih
theorem sacceptedOf_map (k : Nat) (l : List Obs) : sacceptedOf (l.map (fun o => (k, o))) = (acceptedOf l).map (fun n => (k, n)) := by
  induction l with
  | nil => rfl
  | cons a l ih =>
    cases a <;> simp [sacceptedOf, acceptedOf, List.filterMap_cons] at ih ⊢ <;> exact ih

theorem nodup_map_pair (k : Nat) : ∀ (l : List Nat), l.Nodup → (l.map (fun n => (k, n))).Nodup := by
  intro l
  induction l with
  | nil => intro _; simp
  | cons a t ih =>
    intro h
    rw [List.nodup_cons] at h
    simp only [List.map_cons, List.nodup_cons, List.mem_map, not_exists, not_and]
    refine ⟨fun x hx heq => ?_, ih h.2⟩
    simp only [Prod.mk.injEq, true_and] at heq
    subst heq; exact h.1 hx

/-- over any number of sessions: every (key set, nonce) pair is used for sealing at most once, every
    (key set, message counter) is accepted at most once; later observations belong to the current key set at or
    beyond its counters, or to a later key set -/
theorem srun_spec : ∀ (evs : List SEv) (s : Sess),
    ((ssealedOf (srun s evs)).Nodup ∧
      ∀ p ∈ ssealedOf (srun s evs), s.epoch < p.1 ∨ (p.1 = s.epoch ∧ s.st.sendCtr ≤ p.2)) ∧
    ((sacceptedOf (srun s evs)).Nodup ∧
      ∀ p ∈ sacceptedOf (srun s evs), s.epoch < p.1 ∨ (p.1 = s.epoch ∧ s.st.recvCtr ≤ p.2)) := by
  intro evs
  induction evs with
  | nil => intro s; simp [srun, ssealedOf, sacceptedOf]
  | cons e es ih =>
    intro s
    cases e with
    | rekey =>
      obtain ⟨⟨n1, b1⟩, ⟨n2, b2⟩⟩ := ih { epoch := s.epoch + 1, st := {} }
      simp only [srun, sstep, List.nil_append]
      refine ⟨⟨n1, fun p hp => ?_⟩, ⟨n2, fun p hp => ?_⟩⟩
      · rcases b1 p hp with h | h
        · left; simp at h; omega
        · left; simp at h; omega
      · rcases b2 p hp with h | h
        · left; simp at h; omega
        · left; simp at h; omega
    | ev e =>
      obtain ⟨k, a, h1, h2, h3, h4⟩ := step_obs s.st e
      obtain ⟨⟨n1, b1⟩, ⟨n2, b2⟩⟩ := ih { s with st := (step s.st e).1 }
      simp only [srun, sstep, ssealedOf_append, sacceptedOf_append, ssealedOf_map, sacceptedOf_map, h1, h3]
      refine ⟨⟨?_, fun p hp => ?_⟩, ⟨?_, fun p hp => ?_⟩⟩
      · rw [List.nodup_append]
        refine ⟨?_, n1, ?_⟩
        · exact nodup_map_pair _ _ List.nodup_range'
        · intro x hx y hy hxy
          subst hxy
          simp only [List.mem_map, List.mem_range'_1] at hx
          obtain ⟨n, hn, rfl⟩ := hx
          rcases b1 _ hy with h | h
          · simp at h
          · simp only [true_and] at h
            rw [h2] at h; omega
      · rcases List.mem_append.mp hp with hp | hp
        · simp only [List.mem_map, List.mem_range'_1] at hp
          obtain ⟨n, hn, rfl⟩ := hp
          right; exact ⟨rfl, hn.1⟩
        · rcases b1 p hp with h | h
          · left; exact h
          · right; refine ⟨h.1, ?_⟩
            have := h.2; simp only [h2] at this; omega
      · rw [List.nodup_append]
        refine ⟨?_, n2, ?_⟩
        · exact nodup_map_pair _ _ List.nodup_range'
        · intro x hx y hy hxy
          subst hxy
          simp only [List.mem_map, List.mem_range'_1] at hx
          obtain ⟨n, hn, rfl⟩ := hx
          rcases b2 _ hy with h | h
          · simp at h
          · simp only [true_and] at h
            rw [h4] at h; omega
      · rcases List.mem_append.mp hp with hp | hp
        · simp only [List.mem_map, List.mem_range'_1] at hp
          obtain ⟨n, hn, rfl⟩ := hp
          right; exact ⟨rfl, hn.1⟩
        · rcases b2 p hp with h | h
          · left; exact h
          · right; refine ⟨h.1, ?_⟩
            have := h.2; simp only [h4] at this; omega


/-- **Across sessions** (IP reconnects, BLE pair-verify and pair-resume in any order, any traffic and failures in
    between): no (key set, nonce) pair is ever used twice for sealing -/
theorem C06_sessions_nonce_unique (evs : List SEv) (s : Sess) : (ssealedOf (srun s evs)).Nodup :=
  (srun_spec evs s).1.1

/-- ... and no (key set, message counter) is accepted twice -/
theorem C06_sessions_accept_once (evs : List SEv) (s : Sess) : (sacceptedOf (srun s evs)).Nodup :=
  (srun_spec evs s).2.1

/-- a new session never continues an old key set: everything sealed after a re-key carries a later epoch -/
theorem C06_rekey_fresh (evs : List SEv) (s : Sess) :
    ∀ p ∈ ssealedOf (srun s (.rekey :: evs)), s.epoch < p.1 := by
  intro p hp
  have := (srun_spec evs { epoch := s.epoch + 1, st := {} }).1.2 p (by simpa [srun, sstep] using hp)
  rcases this with h | h
  · simp at h; omega
  · simp at h; omega

example : srun {} [.ev (.send 2), .ev (.deliver (.genuine 0)), .rekey, .ev (.send 1), .ev (.deliver (.genuine 0))] =
    [(0, .sealed 0), (0, .sealed 1), (0, .accepted 0), (1, .sealed 0), (1, .accepted 0)] := by decide

/-! ## CoAP -/

/-- **CoAP events**: own counter, success-only advance: accepted exactly once, in order -/
theorem C06_coap_events : ∀ (cts : List Ct) (c : Nat), ∃ a, acceptedOf (eventRun c cts) = List.range' c a := by
  intro cts
  induction cts with
  | nil => intro c; exact ⟨0, rfl⟩
  | cons ct cts ih =>
    intro c
    by_cases h : opens c ct = true
    · obtain ⟨a, ha⟩ := ih (c + 1)
      refine ⟨1 + a, ?_⟩
      rw [eventRun, acceptedOf_append]
      simp only [eventStep, h, if_true, ha]
      simp [acceptedOf, Nat.add_comm]
      exact (List.range'_succ (s := c) (n := a) (step := 1)).symm
    · obtain ⟨a, ha⟩ := ih c
      refine ⟨a, ?_⟩
      rw [eventRun, acceptedOf_append]
      simp only [eventStep, h, Bool.false_eq_true, if_false, ha]
      simp [acceptedOf]

/-- **CoAP requests/responses, partial**: in histories where every delivered response is the
    genuine next one (no loss, replay, reordering or corruption) nonces are unique and responses
    are accepted once and in order. -/
theorem C06_coap_partial : ∀ (n : Nat) (s : CoapSt), s.alive = true →
    coapRun s ((List.range' s.recvCtr n).flatMap fun j => [CoapEv.request, CoapEv.response (.genuine j)])
      = (List.range' 0 n).flatMap fun i => [Obs.sealed (s.sendCtr + i), Obs.accepted (s.recvCtr + i)] := by
  intro n
  induction n with
  | zero => intro s _; rfl
  | succ n ih =>
    intro s hs
    rw [List.range'_succ, List.flatMap_cons, List.range'_succ, List.flatMap_cons]
    have hfind : (candidates s.recvCtr).find? (fun c => opens c (Ct.genuine s.recvCtr)) = some s.recvCtr := by
      simp [candidates, opens]
    simp only [List.cons_append, List.nil_append, coapRun, coapStep, hs, Bool.not_true, Bool.false_eq_true, if_false,
      hfind, Nat.add_zero]
    have := ih { sendCtr := s.sendCtr + 1, recvCtr := s.recvCtr + 1, alive := true } rfl
    simp only at this
    rw [hs] at *
    rw [this]
    have e : (List.range' 1 n).flatMap (fun i => [Obs.sealed (s.sendCtr + i), Obs.accepted (s.recvCtr + i)])
        = (List.range' 0 n).flatMap (fun i => [Obs.sealed (s.sendCtr + 1 + i), Obs.accepted (s.recvCtr + 1 + i)]) := by
      have : List.range' 1 n = (List.range' 0 n).map (fun x => 1 + x) := by
        rw [List.map_add_range']
      rw [this, List.flatMap_map]
      simp [Nat.add_assoc, Nat.add_comm 1]
    simp [e]

/-- **Known finding 1**: a replay of the response sealed with counter 3, arriving when the
    controller expects counter 6, is accepted again (rewind window) -/
theorem C06_coap_counterexample_replay :
    acceptedOf (coapRun {} ((List.range 6).flatMap (fun j => [CoapEv.request, CoapEv.response (.genuine j)]) ++
      [.response (.genuine 3)])) = [0, 1, 2, 3, 4, 5, 3] := by decide

/-- **Known finding 2**: after 7 exchanges a replay of the very first response (counter 0) is
    outside the rewind window, hits the "zero the counters" branch, is accepted, and the next
    request is sealed with nonce 0 again - under the same key -/
theorem C06_coap_counterexample_nonce_reuse :
    sealedOf (coapRun {} ((List.range 7).flatMap (fun j => [CoapEv.request, CoapEv.response (.genuine j)]) ++
      [.response (.genuine 0), .request])) = [0, 1, 2, 3, 4, 5, 6, 0] := by decide

/-- tie to the source (regenerated on every run from `EncryptionContext._decrypt_response`): the counters the CoAP
    resynchronisation tries are the current one, then up to `rewind` earlier ones, then `forward` later ones, with
    the source's window sizes -/
theorem C06_gen_tie (recv : Nat) :
    candidates recv = [recv] ++ List.range' (recv - min Gen.Misc.coapRewind recv) (min Gen.Misc.coapRewind recv) ++
      List.range' (recv + 1) Gen.Misc.coapForward := rfl

end HapVerif.C06
