import HapVerif.Proofs.HttpFeed
import HapVerif.Gen.Misc
import HapVerif.Proofs.HttpWriter
import Mathlib.Data.List.Induction

/-! # C07 - HTTP/EVENT message parsing is independent of stream segmentation

`feed` is one `data_received(data)` call of `InsecureHomeKitProtocol` (the `while data:` loop
around `HttpResponse.parse`), `feedAll` a sequence of such calls.  Results are the messages
completed (kind, status code, headers, body - `Msg`), the parser left for the next read, and the
exception if one is raised.

Explicit side condition (`GoodRun`): no header block announces both `Transfer-Encoding: chunked`
and a positive `Content-Length`.  The proof forced it; the real parser *is* split-dependent on
such (RFC-forbidden) messages - reproduced on the implementation and reported in the evidence. -/

namespace HapVerif.C07
open HapVerif HapVerif.Http

/-- one `parse` call: processing what is buffered, then receiving `d` and processing again, is the
    same as receiving `d` first -/
theorem C07_parse_append (p : P) (d : Bytes) (hg : GoodAt p) :
    (norm' p >>= fun p3 => norm' (app p3 d)) = norm' (app p d) :=
  norm_app p d hg

/-- a complete message consumes nothing more: the bytes that follow it stay in the buffer, in
    order, for the next message - never lost, never duplicated -/
theorem C07_complete_consumes_nothing (q : P) (d : Bytes) (hc : q.core.complete = true) (hw : WFc q.core) :
    norm' (app q d) = .ok ⟨q.core, q.raw ++ d⟩ :=
  complete_stable q d hc hw

/-- two reads = one read of the concatenation, from any parser state between reads -/
theorem C07_feed_append (p : P) (a b : Bytes) (hinv : INV p) (hg : GoodRun p a) :
    feed p (a ++ b) = seq2 (feed p a) (fun p1 => feed p1 b) :=
  feed_append _ p a b (Nat.le_refl _) hinv hg

/-- the invariant the theorems need is re-established by every read -/
theorem C07_invariant_preserved (p p1 : P) (d : Bytes) (o : List Msg) (hinv : INV p) (hg : GoodRun p d)
    (h : feed p d = (o, .ok p1)) : INV p1 :=
  feed_INV _ p d o p1 (Nat.le_refl _) hinv hg h

/-- **Segmentation independence**: however a byte stream is cut into reads (any number of cuts,
    anywhere - inside a status line, a header, a chunk size, a body, between messages), the
    sequence of completed messages, the final parser state and the error (if the stream is
    malformed) are those of a single read of the whole stream. -/
theorem C07_segmentation : ∀ (chunks : List Bytes) (p : P), INV p →
    (∀ k, k ≤ chunks.length → GoodRun p (chunks.take k).flatten) →
    feedAll p chunks = feed p chunks.flatten := by
  intro chunks
  induction chunks using List.reverseRecOn with
  | nil => intro p _ _; simp [feedAll, feed_nil]
  | append_singleton cs c ih =>
    intro p hinv hg
    rw [feedAll_snoc, List.flatten_append, List.flatten_singleton]
    have hpre : ∀ k, k ≤ cs.length → GoodRun p (cs.take k).flatten := by
      intro k hk
      have := hg k (by simp; omega)
      rwa [List.take_append_of_le_length hk] at this
    rw [ih p hinv hpre]
    have hcs : GoodRun p cs.flatten := by
      have := hg cs.length (by simp)
      simpa using this
    rw [C07_feed_append p cs.flatten c hinv hcs]

/-- the same from a fresh connection -/
theorem C07_segmentation_fresh (chunks : List Bytes)
    (hg : ∀ k, k ≤ chunks.length → GoodRun {} (chunks.take k).flatten) :
    feedAll {} chunks = feed {} chunks.flatten :=
  C07_segmentation chunks {} INV_fresh hg

/-! ### correctness against an independent writer (`Spec/HttpWriter.lean`) -/

/-- one written message at the front of the buffer: the parser produces exactly that message (version, status
    code, headers in order, body) and leaves exactly the bytes that follow it -/
theorem C07_written_message_parsed (m : WMsg) (code : Nat) (g : Good m code) (rest : Bytes) :
    parse {} (write m ++ rest) = .ok (⟨m.core code, rest⟩, rest) ∧ (m.core code).msg = m.msg code := by
  refine ⟨?_, core_msg m code⟩
  simp only [parse, app_fresh, norm_write m code g rest]
  show (if (m.core code).complete = true then _ else _) = _
  rw [core_complete m code g]; rfl

theorem length_le_writeAll : ∀ (ms : List (WMsg × Nat)), ms.length ≤ (writeAll ms).length := by
  intro ms
  induction ms with
  | nil => simp
  | cons x ms ih =>
    obtain ⟨m, c⟩ := x
    have : 0 < (write m).length := List.length_pos_iff.mpr (write_ne_nil m)
    simp only [writeAll, List.length_cons, List.length_append]
    omega

/-- a whole stream of written messages in one read -/
theorem C07_written_stream_one_read (ms : List (WMsg × Nat)) (hg : ∀ x ∈ ms, Good x.1 x.2) :
    feed {} (writeAll ms) = (ms.map (fun x => x.1.msg x.2), .ok {}) := by
  unfold feed
  exact feedLoop_writeAll ms _ (by have := length_le_writeAll ms; simp; omega) hg

/-- **Correctness for every segmentation**: a stream of messages written by a conformant accessory, delivered in
    reads cut anywhere at all, yields exactly those messages - in order, none lost, none duplicated, none merged,
    bodies byte-exact - and leaves a fresh parser with an empty buffer.  (The side condition of
    `C07_segmentation` is *proved* for every prefix of such a stream, not assumed.) -/
theorem C07_written_stream_any_segmentation (ms : List (WMsg × Nat)) (hg : ∀ x ∈ ms, Good x.1 x.2)
    (chunks : List Bytes) (h : chunks.flatten = writeAll ms) :
    feedAll {} chunks = (ms.map (fun x => x.1.msg x.2), .ok {}) := by
  rw [C07_segmentation_fresh chunks, h, C07_written_stream_one_read ms hg]
  intro k _
  refine GoodRun_prefix ms hg _ (chunks.drop k).flatten ?_
  rw [← List.flatten_append, List.take_append_drop, h]

/-- the same under the executable well-formedness check the driver applies to the harness's messages -/
theorem C07_written_stream_checked (ms : List (WMsg × Nat)) (hg : ms.all (fun x => goodB x.1 x.2) = true)
    (chunks : List Bytes) (h : chunks.flatten = writeAll ms) :
    feedAll {} chunks = (ms.map (fun x => x.1.msg x.2), .ok {}) :=
  C07_written_stream_any_segmentation ms
    (fun x hx => goodB_sound x.1 x.2 (List.all_eq_true.mp hg x hx)) chunks h

/-- non-vacuity: a typical HAP response, an event, a body-less reply and a chunked reply satisfy `Good` -/
def exResp : WMsg :=
  { version := str "HTTP/1.1", codeText := str "207", reason := str "Multi-Status",
    headers := [(str "content-type", str "  application/hap+json ")], framing := .length (str "Content-Length", str " 2"),
    after := [], body := str "{}" }
def exEvent : WMsg :=
  { version := str "EVENT/1.0", codeText := str "200", reason := str "OK",
    headers := [], framing := .length (str "content-length", str "4"),
    after := [(str "content-type", str "  application/hap+json ")], body := str "null" }
def exNoBody : WMsg :=
  { version := str "HTTP/1.1", codeText := str "204", reason := str "No Content", headers := [], framing := .none, after := [], body := [] }
def exChunked : WMsg :=
  { version := str "HTTP/1.1", codeText := str "200", reason := str "OK",
    headers := [(str "content-type", str "  application/hap+json ")],
    framing := .chunked (str "Transfer-Encoding", str " chunked") [(str "a", str "{\"accessor"), (str "21", str "ies\":[{\"aid\":1,\"services\":[]}]}\r\n")],
    after := [],
    body := str "{\"accessories\":[{\"aid\":1,\"services\":[]}]}\r\n" }

/-- the lower-case, padded `content-type` header reaches the application as `Content-Type` / `application/hap+json` -/
example : normHeader (str "content-type", str "  application/hap+json ") = (str "Content-Type", str "application/hap+json") := by
  decide +kernel

example : Good exResp 207 := goodB_sound _ _ (by decide +kernel)
example : Good exEvent 200 := goodB_sound _ _ (by decide +kernel)
example : Good exNoBody 204 := goodB_sound _ _ (by decide +kernel)
example : Good exChunked 200 := goodB_sound _ _ (by decide +kernel)

/-- the theorem at work: the chunked reply followed by the event, cut into three reads in the middle of a chunk size
    and of the event's status line -/
example : feedAll {} [(writeAll [(exChunked, 200), (exEvent, 200)]).take 99,
      ((writeAll [(exChunked, 200), (exEvent, 200)]).drop 99).take 50, (writeAll [(exChunked, 200), (exEvent, 200)]).drop 149] =
    ([exChunked.msg 200, exEvent.msg 200], .ok {}) := by decide +kernel

/-! ### non-vacuity: a concrete stream (one fixed-length HTTP response followed by a chunked EVENT)
cut inside the status line and inside a chunk -/

def exStream : Bytes :=
  str "HTTP/1.1 200 OK\r\nContent-Length: 2\r\n\r\nhiEVENT/1.0 200 OK\r\nTransfer-Encoding: chunked\r\n\r\n3\r\nabc\r\n0\r\n\r\n"

example : (feed {} exStream).1 =
    [⟨str "HTTP", 200, [(str "Content-Length", str "2")], str "hi"⟩,
     ⟨str "EVENT", 200, [(str "Transfer-Encoding", str "chunked")], str "abc"⟩] := by decide +kernel

example : feedAll {} [exStream.take 7, (exStream.drop 7).take 80, exStream.drop 87] = feed {} exStream := by
  decide +kernel

/-- tie to the source (regenerated on every run from `HttpResponse.parse`): the framing headers and the value the
    parser compares against, and the byte literals it searches for / splits at -/
theorem C07_gen_tie :
    Gen.Misc.httpCompared = [("name", "Transfer-Encoding"), ("value", "chunked"), ("name", "Content-Length")] ∧
    Gen.Misc.httpByteLiterals = ["", "\r\n", " ", ":"] := by decide

end HapVerif.C07
