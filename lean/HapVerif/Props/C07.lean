import HapVerif.Proofs.HttpFeed
import Mathlib.Data.List.Induction

/-! # C07 - HTTP/EVENT message parsing is independent of stream segmentation

`feed` is one `data_received(data)` call of `InsecureHomeKitProtocol` (the `while data:` loop
around `HttpResponse.parse`), `feedAll` a sequence of such calls.  Results are the messages
completed (kind, status code, headers, body - `Msg`), the parser left for the next read, and the
exception if one is raised.

Explicit side condition (`GoodRun`): no header block announces both `Transfer-Encoding: chunked`
and a positive `Content-Length`.  The proof forced it; the real parser *is* split-dependent on
such (RFC-forbidden) messages - reproduced on the implementation and reported in the evidence. -/

namespace HapVerif.C07
open HapVerif HapVerif.Http

/-- one `parse` call: processing what is buffered, then receiving `d` and processing again, is the
    same as receiving `d` first -/
theorem C07_parse_append (p : P) (d : Bytes) (hg : GoodAt p) :
    (norm' p >>= fun p3 => norm' (app p3 d)) = norm' (app p d) :=
  norm_app p d hg

/-- a complete message consumes nothing more: the bytes that follow it stay in the buffer, in
    order, for the next message - never lost, never duplicated -/
theorem C07_complete_consumes_nothing (q : P) (d : Bytes) (hc : q.core.complete = true) (hw : WFc q.core) :
    norm' (app q d) = .ok ⟨q.core, q.raw ++ d⟩ :=
  complete_stable q d hc hw

/-- two reads = one read of the concatenation, from any parser state between reads -/
theorem C07_feed_append (p : P) (a b : Bytes) (hinv : INV p) (hg : GoodRun p a) :
    feed p (a ++ b) = seq2 (feed p a) (fun p1 => feed p1 b) :=
  feed_append _ p a b (Nat.le_refl _) hinv hg

/-- the invariant the theorems need is re-established by every read -/
theorem C07_invariant_preserved (p p1 : P) (d : Bytes) (o : List Msg) (hinv : INV p) (hg : GoodRun p d)
    (h : feed p d = (o, .ok p1)) : INV p1 :=
  feed_INV _ p d o p1 (Nat.le_refl _) hinv hg h

/-- **Segmentation independence**: however a byte stream is cut into reads (any number of cuts,
    anywhere - inside a status line, a header, a chunk size, a body, between messages), the
    sequence of completed messages, the final parser state and the error (if the stream is
    malformed) are those of a single read of the whole stream. -/
theorem C07_segmentation : ∀ (chunks : List Bytes) (p : P), INV p →
    (∀ k, k ≤ chunks.length → GoodRun p (chunks.take k).flatten) →
    feedAll p chunks = feed p chunks.flatten := by
  intro chunks
  induction chunks using List.reverseRecOn with
  | nil => intro p _ _; simp [feedAll, feed_nil]
  | append_singleton cs c ih =>
    intro p hinv hg
    rw [feedAll_snoc, List.flatten_append, List.flatten_singleton]
    have hpre : ∀ k, k ≤ cs.length → GoodRun p (cs.take k).flatten := by
      intro k hk
      have := hg k (by simp; omega)
      rwa [List.take_append_of_le_length hk] at this
    rw [ih p hinv hpre]
    have hcs : GoodRun p cs.flatten := by
      have := hg cs.length (by simp)
      simpa using this
    rw [C07_feed_append p cs.flatten c hinv hcs]

/-- the same from a fresh connection -/
theorem C07_segmentation_fresh (chunks : List Bytes)
    (hg : ∀ k, k ≤ chunks.length → GoodRun {} (chunks.take k).flatten) :
    feedAll {} chunks = feed {} chunks.flatten :=
  C07_segmentation chunks {} INV_fresh hg

/-! ### non-vacuity: a concrete stream (one fixed-length HTTP response followed by a chunked EVENT)
cut inside the status line and inside a chunk -/

def exStream : Bytes :=
  str "HTTP/1.1 200 OK\r\nContent-Length: 2\r\n\r\nhiEVENT/1.0 200 OK\r\nTransfer-Encoding: chunked\r\n\r\n3\r\nabc\r\n0\r\n\r\n"

example : (feed {} exStream).1 =
    [⟨str "HTTP", 200, [(str "Content-Length", str "2")], str "hi"⟩,
     ⟨str "EVENT", 200, [(str "Transfer-Encoding", str "chunked")], str "abc"⟩] := by decide +kernel

example : feedAll {} [exStream.take 7, (exStream.drop 7).take 80, exStream.drop 87] = feed {} exStream := by
  decide +kernel

end HapVerif.C07
