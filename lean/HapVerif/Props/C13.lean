import HapVerif.Model.CharList

/-! # C13 - reads and writes report per-characteristic outcomes faithfully -/

namespace HapVerif.C13
open HapVerif HapVerif.CharList

/-! ## result-map algebra -/

theorem filter_true' {α} (l : List α) : l.filter (fun _ => true) = l := by
  induction l with
  | nil => rfl
  | cons a l ih => simp [List.filter_cons, ih]

theorem not_any_key (r : Result) (k : Key) (h : ¬ (r.any (·.1 = k) = true)) : ∀ a ∈ r, ¬ a.1 = k := by
  intro a ha hk
  apply h
  exact List.any_eq_true.mpr ⟨a, ha, by simpa using hk⟩

theorem map_upd_id (r : Result) (k : Key) (v : Obj) (hn : ∀ a ∈ r, ¬ a.1 = k) :
    r.map (fun kv => if kv.1 = k then (k, v) else kv) = r := by
  induction r with
  | nil => rfl
  | cons a r ih =>
    simp only [List.map_cons, hn a (by simp), if_false]
    rw [ih (fun x hx => hn x (List.mem_cons_of_mem _ hx))]

theorem rget_rset_same (r : Result) (k : Key) (v : Obj) : rget (rset r k v) k = some v := by
  unfold rset rget
  by_cases h : r.any (·.1 = k) = true
  · simp only [h, if_true]
    induction r with
    | nil => simp at h
    | cons a r ih =>
      simp only [List.map_cons, List.find?_cons]
      by_cases ha : a.1 = k
      · simp [ha]
      · have : r.any (·.1 = k) = true := by simpa [ha] using h
        simp only [ha, if_false, decide_false]
        exact ih this
  · simp only [h]
    have hn := not_any_key r k h
    rw [if_neg (by simp)]
    rw [List.find?_append]
    have : r.find? (fun x => decide (x.1 = k)) = none :=
      List.find?_eq_none.mpr (fun x hx => by simpa using hn x hx)
    simp [this]

theorem rget_rset_other (r : Result) (k k' : Key) (v : Obj) (hne : k' ≠ k) : rget (rset r k v) k' = rget r k' := by
  unfold rset rget
  by_cases h : r.any (·.1 = k) = true
  · simp only [h, if_true]
    induction r with
    | nil => rfl
    | cons a r ih =>
      simp only [List.map_cons, List.find?_cons]
      by_cases ha : a.1 = k
      · have hk' : ¬ k = k' := fun e => hne e.symm
        have hak' : ¬ a.1 = k' := by rw [ha]; exact hk'
        simp only [ha, if_true, hk', decide_false, hak']
        by_cases hr : r.any (·.1 = k) = true
        · exact ih hr
        · rw [map_upd_id r k v (not_any_key r k hr)]
      · simp only [ha, if_false]
        by_cases hak' : a.1 = k'
        · simp [hak']
        · simp only [hak', decide_false]
          have hr : r.any (·.1 = k) = true := by simpa [ha] using h
          exact ih hr
  · simp only [h]
    rw [if_neg (by simp)]
    rw [List.find?_append]
    have hk' : ¬ k = k' := fun e => hne e.symm
    simp [hk']

/-! ## status normalisation -/

theorem C13_status_sign (s : Int) : toStatusCode s = toStatusCode (-s) := by
  unfold toStatusCode
  simp [Int.natAbs_neg]

/-- the normalised code is SUCCESS exactly for status 0 - a positive-signed or unknown code is
    never taken for success -/
theorem C13_status_zero_iff (s : Int) : (toStatusCode s).1 = 0 ↔ s = 0 := by
  constructor
  · intro h
    apply Classical.byContradiction
    intro hs
    have hn : -(s.natAbs : Int) ≠ 0 := by
      have : s.natAbs ≠ 0 := Int.natAbs_ne_zero.mpr hs
      omega
    unfold toStatusCode at h
    simp only at h
    cases hf : Gen.Status.hap.find? (fun r => r.2.1 = -(s.natAbs : Int)) with
    | some r =>
      rw [hf] at h
      have := List.find?_some hf
      simp only [decide_eq_true_eq] at this
      simp only at h
      rw [this] at h
      exact hn h
    | none =>
      rw [hf] at h
      revert h
      decide
  · intro h; subst h; decide

/-- every defined HAP status code is found under either sign -/
theorem C13_status_table : ∀ r ∈ Gen.Status.hap, r.1 ≠ "UNKNOWN" →
    toStatusCode r.2.1 = (r.2.1, r.2.2) ∧ toStatusCode (-r.2.1) = (r.2.1, r.2.2) := by decide +kernel

/-! ## reads -/

/-- an entry "mentions" key `k` when it is an object whose aid/iid are the integers of `k` -/
def mentions (c : J) (k : Key) : Bool :=
  match c with
  | .obj o => match (oget o "aid").bind asInt, (oget o "iid").bind asInt with
    | some a, some i => (a, i) = k
    | _, _ => false
  | _ => false

/-- what a mentioned entry is turned into: ids removed, status 0 removed, description added to a
    non-zero status -/
def processed (c : J) : Obj :=
  match c with
  | .obj o =>
    let o := odel (odel o "aid") "iid"
    match (oget o "status").bind asInt with
    | some 0 => odel o "status"
    | some s => oset o "description" (.str (describe s))
    | none => o
  | _ => []

theorem formatEntry_other (tmp : Result) (c : J) (k : Key) (h : mentions c k = false) :
    rget (formatEntry tmp c) k = rget tmp k := by
  unfold formatEntry
  cases c with
  | obj o =>
    simp only
    unfold mentions at h
    simp only at h
    cases ha : (oget o "aid").bind asInt with
    | none => simp
    | some a =>
      cases hi : (oget o "iid").bind asInt with
      | none => simp
      | some i =>
        simp only [ha, hi] at h ⊢
        have hne : k ≠ (a, i) := by
          intro e; subst e; simp at h
        exact rget_rset_other _ _ _ _ hne
  | _ => rfl

theorem formatEntry_same (tmp : Result) (c : J) (k : Key) (h : mentions c k = true) :
    rget (formatEntry tmp c) k = some (processed c) := by
  unfold formatEntry processed
  cases c with
  | obj o =>
    unfold mentions at h
    simp only at h ⊢
    cases ha : (oget o "aid").bind asInt with
    | none => simp [ha] at h
    | some a =>
      cases hi : (oget o "iid").bind asInt with
      | none => simp [ha, hi] at h
      | some i =>
        simp only [ha, hi] at h ⊢
        have hk : (a, i) = k := by simpa using h
        subst hk
        exact rget_rset_same _ _ _
  | _ => simp [mentions] at h

theorem fold_not_mentioned (k : Key) : ∀ (l : List J) (tmp : Result), (∀ c ∈ l, mentions c k = false) →
    rget (l.foldl formatEntry tmp) k = rget tmp k := by
  intro l
  induction l with
  | nil => intro tmp _; rfl
  | cons c l ih =>
    intro tmp h
    rw [List.foldl_cons, ih _ (fun x hx => h x (List.mem_cons_of_mem _ hx)),
      formatEntry_other _ _ _ (h c (by simp))]

/-- **Read, mentioned**: the result for a characteristic is the *last* entry of the reply that
    names it (ids removed, status 0 removed, description added for a non-zero status) - whatever
    precedes it (a request-wide error, earlier duplicates, malformed entries). -/
theorem C13_read_mentioned (data : Obj) (requested : List Key) (l1 l2 : List J) (c : J) (k : Key)
    (hl : oget data "characteristics" = some (.arr (l1 ++ c :: l2)))
    (hc : mentions c k = true) (hlast : ∀ x ∈ l2, mentions x k = false) :
    rget (format data requested) k = some (processed c) := by
  unfold format
  simp only [hl, List.foldl_append, List.foldl_cons]
  rw [fold_not_mentioned k l2 _ hlast, formatEntry_same _ _ _ hc]

theorem init_fold (s : Int) (k : Key) : ∀ (req : List Key) (t : Result),
    rget (req.foldl (fun t k => rset t k [("status", .int s), ("description", .str (describe s))]) t) k
      = if k ∈ req then some [("status", .int s), ("description", .str (describe s))] else rget t k := by
  intro req
  induction req with
  | nil => intro t; simp
  | cons a req ih =>
    intro t
    rw [List.foldl_cons, ih]
    by_cases hk : k ∈ req
    · simp [hk]
    · by_cases ha : k = a
      · subst ha; simp [hk, rget_rset_same]
      · simp [hk, ha, rget_rset_other _ _ _ _ ha]

/-- **Read, request-wide error**: a requested characteristic the reply does not mention gets the
    request-wide non-zero status and its description. -/
theorem C13_read_global_error (data : Obj) (requested : List Key) (s : Int) (l : List J) (k : Key)
    (hs : (oget data "status").bind asInt = some s) (hne : s ≠ 0) (hk : k ∈ requested)
    (hl : oget data "characteristics" = some (.arr l) ∨ oget data "characteristics" = none)
    (hnot : ∀ c ∈ l, mentions c k = false) :
    rget (format data requested) k = some [("status", .int s), ("description", .str (describe s))] := by
  unfold format
  simp only [hs, hne, ne_eq, not_false_eq_true, if_true]
  rcases hl with hl | hl
  · simp only [hl]
    rw [fold_not_mentioned k l _ hnot, init_fold]
    simp [hk]
  · simp only [hl, List.foldl_nil]
    rw [init_fold]
    simp [hk]

/-- **Read, silence**: without a request-wide error nothing is invented for a characteristic the
    reply does not mention. -/
theorem C13_read_not_mentioned (data : Obj) (requested : List Key) (l : List J) (k : Key)
    (hs : (oget data "status").bind asInt = none ∨ (oget data "status").bind asInt = some 0)
    (hl : oget data "characteristics" = some (.arr l)) (hnot : ∀ c ∈ l, mentions c k = false) :
    rget (format data requested) k = none := by
  unfold format
  simp only [hl]
  rw [fold_not_mentioned k l _ hnot]
  rcases hs with hs | hs <;> simp [hs, rget]

/-! ## writes (IP) -/

/-- the entry rejects key `k`: well-formed, names `k`, non-zero status -/
def rejects (c : J) (k : Key) : Bool :=
  match c with
  | .obj o => match (oget o "aid").bind asInt, (oget o "iid").bind asInt, (oget o "status").bind asInt with
    | some a, some i, some s => (a, i) = k ∧ s ≠ 0
    | _, _, _ => false
  | _ => false

def ipStep (acc : PutResult) (c : J) : PutResult :=
  match c with
  | .obj o =>
    match (oget o "aid").bind asInt, (oget o "iid").bind asInt, (oget o "status").bind asInt with
    | some aid, some iid, some s =>
      let sc := toStatusCode s
      ⟨if sc.1 ≠ 0 then acc.notified.filter (· ≠ (aid, iid)) else acc.notified,
       rset acc.status (aid, iid) [("status", .int s), ("description", .str sc.2)]⟩
    | _, _, _ => acc
  | _ => acc

theorem ipStep_notified (acc : PutResult) (c : J) :
    (ipStep acc c).notified = acc.notified.filter (fun k => !rejects c k) := by
  unfold ipStep rejects
  cases c with
  | obj o =>
    simp only
    cases ha : (oget o "aid").bind asInt with
    | none => simp [filter_true']
    | some a =>
      cases hi : (oget o "iid").bind asInt with
      | none => simp [filter_true']
      | some i =>
        cases hs : (oget o "status").bind asInt with
        | none => simp [filter_true']
        | some s =>
          simp only
          by_cases h0 : s = 0
          · subst h0
            have : (toStatusCode 0).1 = 0 := (C13_status_zero_iff 0).mpr rfl
            simp [this, filter_true']
          · have : (toStatusCode s).1 ≠ 0 := fun h => h0 ((C13_status_zero_iff s).mp h)
            simp only [this, ne_eq, not_false_eq_true, if_true]
            apply List.filter_congr
            intro k _
            simp [h0, eq_comm]
  | _ => simp [filter_true']

theorem ip_fold_notified : ∀ (l : List J) (acc : PutResult),
    (l.foldl ipStep acc).notified = acc.notified.filter (fun k => l.all (fun c => !rejects c k)) := by
  intro l
  induction l with
  | nil => intro acc; simp [filter_true']
  | cons c l ih =>
    intro acc
    rw [List.foldl_cons, ih, ipStep_notified, List.filter_filter]
    apply List.filter_congr
    intro k _
    simp [Bool.and_comm]

/-- **Write (IP), listeners exact**: after a multi-status reply listeners are notified of exactly
    the readable requested characteristics that no entry of the reply rejects (non-zero status,
    either sign, known or unknown code) - with the written values; a 204 reply notifies all of
    them.  Malformed entries (non-dict, id-less, status-less) reject nothing. -/
theorem C13_write_listeners_exact (readable : List Key) (resp : Obj) (l : List J)
    (hl : oget resp "characteristics" = some (.arr l)) :
    (ipPut readable (some resp)).notified = readable.filter (fun k => l.all (fun c => !rejects c k)) ∧
    (ipPut readable none).notified = readable := by
  constructor
  · have : ipPut readable (some resp) = l.foldl ipStep ⟨readable, []⟩ := by
      unfold ipPut; simp only [hl]; rfl
    rw [this, ip_fold_notified]
  · rfl

/-- **Write (IP), no false success / no false failure** as corollaries -/
theorem C13_write_no_false_success (readable : List Key) (resp : Obj) (l : List J) (c : J) (k : Key)
    (hl : oget resp "characteristics" = some (.arr l)) (hc : c ∈ l) (hr : rejects c k = true) :
    k ∉ (ipPut readable (some resp)).notified := by
  rw [(C13_write_listeners_exact readable resp l hl).1]
  intro hmem
  have := (List.mem_filter.mp hmem).2
  have h2 := List.all_eq_true.mp this c hc
  simp [hr] at h2

theorem C13_write_no_false_failure (readable : List Key) (resp : Obj) (l : List J) (k : Key)
    (hl : oget resp "characteristics" = some (.arr l)) (hk : k ∈ readable) (hr : ∀ c ∈ l, rejects c k = false) :
    k ∈ (ipPut readable (some resp)).notified := by
  rw [(C13_write_listeners_exact readable resp l hl).1]
  apply List.mem_filter.mpr
  refine ⟨hk, List.all_eq_true.mpr (fun c hc => by simp [hr c hc])⟩

/-! ## writes (CoAP, BLE) -/

/-- CoAP: notified = accepted ∩ readable, error entries = rejected, both positional -/
theorem C13_write_coap (requested : List (Key × Bool)) (results : List Nat) (k : Key) :
    (k ∈ (coapPut requested results).notified ↔ ∃ x ∈ requested.zip results, x.1.1 = k ∧ x.2 = 0 ∧ x.1.2 = true) ∧
    ((∃ o, (k, o) ∈ (coapPut requested results).status) ↔ ∃ x ∈ requested.zip results, x.1.1 = k ∧ x.2 ≠ 0) := by
  unfold coapPut
  constructor
  · simp only [List.mem_map, List.mem_filter, decide_eq_true_eq]
    constructor
    · rintro ⟨x, ⟨hx, h0, hr⟩, rfl⟩; exact ⟨x, hx, rfl, h0, hr⟩
    · rintro ⟨x, hx, rfl, h0, hr⟩; exact ⟨x, ⟨hx, h0, hr⟩, rfl⟩
  · simp only [List.mem_map, List.mem_filter, decide_eq_true_eq, Prod.mk.injEq]
    constructor
    · rintro ⟨o, x, ⟨hx, hne⟩, hk, _⟩; exact ⟨x, hx, hk, hne⟩
    · rintro ⟨x, hx, hk, hne⟩; exact ⟨_, x, ⟨hx, hne⟩, hk, rfl⟩

/-- BLE: a rejected write makes the call fail (raise); nothing written after it is reported as
    written, and only accepted readable characteristics were notified before it -/
theorem C13_write_ble_rejected_raises (pre post : List (Key × Perm × Bool)) (k : Key) (p : Perm)
    (hp : p.writable = true) (hpre : ∀ x ∈ pre, x.2.1.writable = true ∧ x.2.2 = true) :
    (blePut (pre ++ (k, p, false) :: post) [] []).2.2 = true ∧
    (blePut (pre ++ (k, p, false) :: post) [] []).1 = (pre.filter (·.2.1.readable)).map (·.1) := by
  have aux : ∀ (pre : List (Key × Perm × Bool)) (n : List Key) (r : Result),
      (∀ x ∈ pre, x.2.1.writable = true ∧ x.2.2 = true) →
      blePut (pre ++ (k, p, false) :: post) n r = (n ++ (pre.filter (·.2.1.readable)).map (·.1), r, true) := by
    intro pre
    induction pre with
    | nil => intro n r _; simp [blePut, hp]
    | cons x pre ih =>
      obtain ⟨xk, xp, xa⟩ := x
      intro n r h
      have hx := h (xk, xp, xa) (by simp)
      simp only at hx
      simp only [List.cons_append, blePut, hx.1, hx.2, Bool.not_true, Bool.false_eq_true, if_false]
      rw [ih _ _ (fun y hy => h y (List.mem_cons_of_mem _ hy))]
      by_cases hr : xp.readable = true
      · simp [hr, List.filter_cons]
      · simp [hr, List.filter_cons]
  rw [aux pre [] [] hpre]
  simp

/-! ## BLE reads: values only -/

/-- **A BLE read never invents or misattributes a value**: every entry of the result is a requested
    characteristic that the accessory answered with exactly that value. -/
theorem C13_ble_read_values_genuine (req : List (Key × BleAnswer)) (k : Key) (v : Nat)
    (h : (k, v) ∈ bleGet req) : (k, BleAnswer.value v) ∈ req := by
  induction req with
  | nil => simp [bleGet] at h
  | cons x rest ih =>
    obtain ⟨k', a⟩ := x
    cases a with
    | value v' =>
      simp only [bleGet, List.mem_cons, Prod.mk.injEq] at h
      rcases h with ⟨rfl, rfl⟩ | h
      · simp
      · exact List.mem_cons_of_mem _ (ih h)
    | refused st => exact List.mem_cons_of_mem _ (ih (by simpa [bleGet] using h))
    | undecodable => exact List.mem_cons_of_mem _ (ih (by simpa [bleGet] using h))

/-- every characteristic the accessory answered with a value is in the result with that value, in fetch order -/
theorem C13_ble_read_values_complete (req : List (Key × BleAnswer)) (k : Key) (v : Nat)
    (h : (k, BleAnswer.value v) ∈ req) : (k, v) ∈ bleGet req := by
  induction req with
  | nil => cases h
  | cons x rest ih =>
    obtain ⟨k', a⟩ := x
    simp only [List.mem_cons, Prod.mk.injEq] at h
    rcases h with ⟨rfl, rfl⟩ | h
    · simp [bleGet]
    · cases a <;> simp [bleGet, ih h]

/-- **The unchanged BLE read path leaves a refused characteristic out of the result** - neither a value nor an
    error status, which the first sentence of the property demands (open known finding
    `ble-e2e/read-refused-item-omitted`, replayed on the real `BlePairing.get_characteristics` on every run) -/
theorem C13_ble_read_counterexample_refused_omitted :
    ∃ (req : List (Key × BleAnswer)) (k : Key) (st : Nat), (k, BleAnswer.refused st) ∈ req ∧ st ≠ 0 ∧
      ∀ v, (k, v) ∉ bleGet req :=
  ⟨[((1, 12), .refused 3)], (1, 12), 3, by simp, by decide, by simp [bleGet]⟩

/-! ## The status line does not override the body -/

/-- **Whatever status line the accessory chooses (200, 207, 500, ...), the per-characteristic statuses of its JSON body
    decide**: outside 4xx (where the call fails) and 204 (no body by definition), the outcome of a write is exactly the
    one the body yields - so `C13_write_no_false_success` / `C13_write_listeners_exact` apply to it unchanged. -/
theorem C13_write_status_line_irrelevant (readable : List Key) (code : Nat) (resp : Obj)
    (h4 : ¬ (400 ≤ code ∧ code ≤ 499)) (h204 : code ≠ 204) :
    (match ipPutHttp readable code (some resp) with
      | .result r => r.notified = (ipPut readable (some resp)).notified ∧ r.status = (ipPut readable (some resp)).status
      | .failed => False) := by
  simp [ipPutHttp, h4, h204]

/-- a 4xx reply never completes as a success, whatever its body says -/
theorem C13_write_4xx_fails (readable : List Key) (code : Nat) (body : Option Obj) (h : 400 ≤ code ∧ code ≤ 499) :
    (match ipPutHttp readable code body with | .failed => True | .result _ => False) := by
  simp [ipPutHttp, h]

end HapVerif.C13
