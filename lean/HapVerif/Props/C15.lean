import HapVerif.Proofs.Tlv
import HapVerif.Gen.Tlv

/-! # C15 - pairing TLV encoding round-trips and is the canonical TLV8 wire format

Property theorems only; helper lemmas live in `Proofs/Tlv.lean`. -/

namespace HapVerif.C15
open HapVerif.Tlv HapVerif.Spec.Tlv8

/-- Round trip: every well-formed item list (separators carry no data, equal-typed neighbours are
    kept apart), values of any length including zero. -/
theorem C15_roundtrip (l : Items) (h : WF l) : decode none (encodeList l) = .ok l := by
  unfold decode
  rw [decodeAux_none, decode_list l [] _ h (by cases l <;> simp [headKeyNe]) (Nat.le_refl _)]
  simp

example : WF [(1, [3, 4]), (255, []), (1, [9]), (7, []), (3, List.replicate 600 5)] := by
  simp [WF]

/-- The encoder accepts exactly the lists whose separators carry no data. -/
theorem C15_encode_total (l : Items) (h : WF l) : encodeList? l = .ok (encodeList l) := by
  unfold encodeList?
  have : l.any (fun (k, v) => k = 255 ∧ v ≠ []) = false := by
    induction l with
    | nil => rfl
    | cons kv l ih =>
      obtain ⟨k, v⟩ := kv
      obtain ⟨hsep, _, hwf⟩ := h
      simp only [List.any_cons, ih hwf, Bool.or_false]
      by_cases hk : k = 255
      · simp [hk, hsep hk]
      · simp [hk]
  simp only [this]
  rfl

/-- Canonical form: the output is the concatenation of the canonical wire forms of the items
    (maximal 255-byte fragments, last fragment non-empty, `t 00` for an empty value) ... -/
theorem C15_canonical (l : Items) : Canonical l (encodeList l) := by
  induction l with
  | nil => exact Canonical.nil
  | cons kv l ih =>
    obtain ⟨k, v⟩ := kv
    rw [encodeList_cons]
    exact Canonical.cons k v _ l _ (encItem_frags k v) ih

/-- ... and the canonical form is unique, so the encoder's bytes are exactly a conformant
    writer's bytes. -/
theorem C15_canonical_unique (l : Items) (o : Bytes) (h : Canonical l o) : o = encodeList l := by
  induction h with
  | nil => rfl
  | cons t v o rest os hf _ ih =>
    rw [encodeList_cons, ih, frags_unique t v o _ hf (encItem_frags t v)]

/-- The decoder accepts what a conformant peer writes. -/
theorem C15_accepts_peer (l : Items) (o : Bytes) (hwf : WF l) (h : Canonical l o) :
    decode none o = .ok l := by
  rw [C15_canonical_unique l o h]; exact C15_roundtrip l hwf

/-- Decoding arbitrary bytes, with or without a filter, returns items or raises the codec's own
    parse error - no other outcome exists. -/
theorem C15_decode_total (ex : Option (List UInt8)) (bs : Bytes) :
    (∃ items, decode ex bs = .ok items) ∨ decode ex bs = .error .parse := by
  have aux : ∀ (fuel : Nat) (bs : Bytes) (acc : Items) (sk : Bool),
      (∃ r, decodeAux ex fuel bs acc sk = .ok r) ∨ decodeAux ex fuel bs acc sk = .error .parse := by
    intro fuel
    induction fuel with
    | zero => intro bs acc sk; exact Or.inl ⟨acc, by simp [decodeAux]⟩
    | succ n ih =>
      intro bs acc sk
      match bs with
      | [] => exact Or.inl ⟨acc, by simp [decodeAux]⟩
      | [k] =>
        simp only [decodeAux]
        split
        · exact Or.inl ⟨acc, rfl⟩
        · exact Or.inr rfl
      | k :: len :: rest =>
        simp only [decodeAux]
        split
        · exact ih _ _ _
        · split
          · exact Or.inr rfl
          · exact ih _ _ _
  unfold decode
  rcases aux bs.length bs [] false with ⟨r, hr⟩ | hr
  · rw [hr]; exact Or.inl ⟨_, rfl⟩
  · rw [hr]; exact Or.inr rfl

/-- A successful decode never returns a value shorter than declared: the input is exactly a
    sequence of complete wire items and the result is what a conformant reader makes of them. -/
theorem C15_no_short_value (bs : Bytes) (items : Items) (h : decode none bs = .ok items) :
    ∃ raw, bs = rawEncode raw ∧ (∀ r ∈ raw, r.2.length ≤ 255) ∧ items = merge raw := by
  unfold decode at h
  rw [decodeAux_none] at h
  split at h
  · cases h
  · rename_i acc hacc
    cases h
    obtain ⟨raw, hbs, hall, hres⟩ := decodeU_sound _ bs [] acc (Nat.le_refl _) hacc
    exact ⟨raw, hbs, hall, by rw [hres, foldl_push_merge_nil]⟩

/-- with a filter, a stream of items whose types are all expected decodes as without a filter -/
theorem decodeAux_allowed (ex : Option (List UInt8)) : ∀ (raw : List (UInt8 × Bytes)) (acc : Items) (fuel : Nat),
    (∀ r ∈ raw, r.2.length ≤ 255 ∧ filtered ex r.1 = false) → (rawEncode raw).length ≤ fuel →
    decodeAux ex fuel (rawEncode raw) acc false = decodeU fuel (rawEncode raw) acc := by
  intro raw
  induction raw with
  | nil => intro acc fuel _ _; cases fuel <;> simp [rawEncode, decodeAux, decodeU]
  | cons kv raw ih =>
    obtain ⟨t, v⟩ := kv
    intro acc fuel hall hf
    have ht := hall (t, v) (by simp)
    obtain ⟨fuel', rfl⟩ : ∃ f, fuel = f + 1 := by
      cases fuel with
      | zero => simp [rawEncode_cons] at hf
      | succ f => exact ⟨f, rfl⟩
    rw [rawEncode_cons] at hf ⊢
    simp only [decodeAux, decodeU, ht.2, Bool.false_eq_true, if_false, toNat_ofNat_le _ ht.1]
    have htake : (v ++ rawEncode raw).take v.length = v := List.take_left' rfl
    have hdrop : (v ++ rawEncode raw).drop v.length = rawEncode raw := List.drop_left' rfl
    simp only [htake, hdrop, ne_eq, not_true_eq_false, if_false]
    apply ih _ _ (fun r hr => hall r (List.mem_cons_of_mem _ hr))
    simp at hf ⊢; omega

/-- **The `expected` filter, part 1**: a reply made only of expected types is decoded exactly as
    without a filter - to the conformant reading of its items. -/
theorem C15_expected_filter_allows (ex : Option (List UInt8)) (raw : List (UInt8 × Bytes))
    (hall : ∀ r ∈ raw, r.2.length ≤ 255 ∧ filtered ex r.1 = false) :
    decode ex (rawEncode raw) = .ok (merge raw) := by
  unfold decode
  rw [decodeAux_allowed ex raw [] _ hall (Nat.le_refl _),
    decodeU_raw raw [] _ (fun r hr => (hall r hr).1) (Nat.le_refl _)]
  simp only [foldl_push_merge_nil]

theorem decodeAux_nil_flag (ex : Option (List UInt8)) (fuel : Nat) (bs : Bytes) :
    decodeAux ex fuel bs [] true = decodeAux ex fuel bs [] false := by
  cases fuel with
  | zero => rfl
  | succ n =>
    match bs with
    | [] => rfl
    | [k] => simp [decodeAux]
    | k :: len :: rest => simp [decodeAux, push]

/-- **The `expected` filter, part 2**: an item of a type that is not expected is skipped - whatever
    follows it (an Error item, say) is still decoded. -/
theorem C15_expected_filter_skips (ex : Option (List UInt8)) (t : UInt8) (v rest : Bytes)
    (hv : v.length ≤ 255) (ht : filtered ex t = true) :
    decode ex (t :: UInt8.ofNat v.length :: (v ++ rest)) = decode ex rest := by
  unfold decode
  simp only [List.length_cons, decodeAux, ht, if_true, toNat_ofNat_le _ hv]
  have hdrop : (v ++ rest).drop v.length = rest := List.drop_left' rfl
  rw [hdrop, decodeAux_nil_flag]
  have : ∀ f, rest.length ≤ f → decodeAux ex f rest [] false = decodeAux ex rest.length rest [] false := by
    intro f hf
    -- fuel beyond the input length is never used
    have aux : ∀ (f1 f2 : Nat) (bs : Bytes) (acc : Items) (sk : Bool), bs.length ≤ f1 → bs.length ≤ f2 →
        decodeAux ex f1 bs acc sk = decodeAux ex f2 bs acc sk := by
      intro f1
      induction f1 with
      | zero =>
        intro f2 bs acc sk h1 _
        have : bs = [] := by cases bs <;> simp_all
        subst this; cases f2 <;> simp [decodeAux]
      | succ n ih =>
        intro f2 bs acc sk h1 h2
        match bs, f2 with
        | [], f2 => cases f2 <;> simp [decodeAux]
        | [k], f2 + 1 => simp [decodeAux]
        | k :: len :: rest, 0 => simp at h2
        | k :: len :: rest, f2 + 1 =>
          have hd : (rest.drop len.toNat).length ≤ n := by simp at h1 ⊢; omega
          have hd2 : (rest.drop len.toNat).length ≤ f2 := by simp at h2 ⊢; omega
          simp only [decodeAux]
          rw [ih f2 _ acc true hd hd2, ih f2 _ _ false hd hd2]
    exact aux _ _ _ _ _ hf (Nat.le_refl _)
  rw [this _ (by simp; omega)]

example : decode (some [6, 7]) [6, 1, 4, 8, 1, 5, 7, 1, 3] = .ok [(6, [4]), (7, [3])] := by decide

/-! ### BLE pairing fragment reassembly -/

theorem decode_single (t : UInt8) (p : Bytes) (ht : t ≠ 255) : decode none (encodeList [(t, p)]) = .ok [(t, p)] :=
  C15_roundtrip _ (by simp [WF, ht])

/-- An accessory that cuts a pairing reply `payload` into any number (< 50) of FragmentData pieces
    of any sizes, followed by a FragmentLast piece, makes the controller return exactly the
    decoding of `payload`; every piece is consumed once. -/
theorem C15_ble_reassembly (pieces : List Bytes) (last : Bytes) (buffer : Bytes) (fuel n : Nat)
    (hfuel : pieces.length < fuel) :
    reassemble fuel (pieces.map (fun p => encodeList [(12, p)]) ++ [encodeList [(13, last)]]) buffer n
      = (match decode none (buffer ++ pieces.flatten ++ last) with
         | .ok items => .done items
         | .error e => .err e, n + pieces.length + 1) := by
  induction pieces generalizing buffer fuel n with
  | nil =>
    obtain ⟨f, rfl⟩ : ∃ f, fuel = f + 1 := ⟨fuel - 1, by simp at hfuel; omega⟩
    simp only [List.map_nil, List.nil_append, reassemble, decode_single 13 last (by decide)]
    have : lookup 13 [((13 : UInt8), last)] = some last := by simp [lookup]
    simp only [this, List.flatten_nil, List.append_nil, List.length_nil, Nat.add_zero]
    split <;> simp_all
  | cons p ps ih =>
    obtain ⟨f, rfl⟩ : ∃ f, fuel = f + 1 := ⟨fuel - 1, by simp at hfuel; omega⟩
    simp only [List.map_cons, List.cons_append, reassemble, decode_single 12 p (by decide)]
    have h13 : lookup 13 [((12 : UInt8), p)] = none := by simp [lookup]
    have h12 : lookup 12 [((12 : UInt8), p)] = some p := by simp [lookup]
    simp only [h13, h12]
    rw [ih (buffer ++ p) f (n + 1) (by simp at hfuel; omega)]
    simp only [List.flatten_cons, List.append_assoc, List.length_cons]
    congr 1
    omega

example : reassemble 50 ([[1, 2], [3]].map (fun p => encodeList [(12, p)]) ++ [encodeList [(13, [9])]]) [] 0
    = (.done [(1, [3, 9])], 3) := by decide

/-- tie to the source constants the model hard-codes (regenerated from `protocol/tlv.py` and
    `ble/client.py` on every run) -/
theorem C15_gen_tie : Gen.Tlv.kTLVType_Separator = 255 ∧ Gen.Tlv.kTLVType_FragmentData = 12 ∧
    Gen.Tlv.kTLVType_FragmentLast = 13 ∧ Gen.Tlv.MAX_REASSEMBLY = 50 := by decide

end HapVerif.C15
