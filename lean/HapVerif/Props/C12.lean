import HapVerif.Model.Subs
import HapVerif.Proofs.CoapEvent
import HapVerif.Gen.CoapEvent

/-! # C12 - subscriptions survive reconnects and every event reaches every listener once

Statements over the subscription/listener automaton `HapVerif.Subs` (tied to
`aiohomekit/controller/ip/pairing.py`, `abstract.py`, `ip/connection.py` by `harness/c12.py`). -/

namespace HapVerif.Subs

/-! ## helper lemmas -/

theorem mem_insertCh (c x : Ch) (l : List Ch) : x ∈ insertCh c l ↔ x ∈ l ∨ x = c := by
  unfold insertCh
  split
  · rename_i h
    have : c ∈ l := by simpa using h
    constructor
    · exact Or.inl
    · rintro (h | rfl)
      · exact h
      · exact this
  · simp

theorem mem_union (a b : List Ch) (x : Ch) : x ∈ union a b ↔ x ∈ a ∨ x ∈ b := by
  unfold union
  induction b generalizing a with
  | nil => simp
  | cons c cs ih =>
    simp only [List.foldl_cons]
    rw [ih, mem_insertCh]
    simp only [List.mem_cons]
    constructor
    · rintro ((h | h) | h)
      · exact Or.inl h
      · exact Or.inr (Or.inl h)
      · exact Or.inr (Or.inr h)
    · rintro (h | h | h)
      · exact Or.inl (Or.inl h)
      · exact Or.inl (Or.inr h)
      · exact Or.inr h

theorem mem_diff (a b : List Ch) (x : Ch) : x ∈ diff a b ↔ x ∈ a ∧ x ∉ b := by
  simp [diff]

/-- what `deliver` leaves alone -/
theorem deliver_frame (s : St) (keys : List Ch) :
    (deliver s keys).wanted = s.wanted ∧ (deliver s keys).supports = s.supports ∧
    (deliver s keys).connected = s.connected ∧ (deliver s keys).session = s.session ∧
    (deliver s keys).registered = s.registered := ⟨rfl, rfl, rfl, rfl, rfl⟩

theorem deliverBody_frame (s : St) (b : Body) :
    (deliverBody s b).wanted = s.wanted ∧ (deliverBody s b).supports = s.supports ∧
    (deliverBody s b).connected = s.connected ∧ (deliverBody s b).session = s.session ∧
    (deliverBody s b).registered = s.registered := by
  cases b <;> exact ⟨rfl, rfl, rfl, rfl, rfl⟩

theorem burst_frame (bodies : List Body) (s : St) :
    (bodies.foldl deliverBody s).wanted = s.wanted ∧ (bodies.foldl deliverBody s).supports = s.supports ∧
    (bodies.foldl deliverBody s).connected = s.connected ∧ (bodies.foldl deliverBody s).session = s.session ∧
    (bodies.foldl deliverBody s).registered = s.registered := by
  induction bodies generalizing s with
  | nil => exact ⟨rfl, rfl, rfl, rfl, rfl⟩
  | cons b bs ih =>
    obtain ⟨h1, h2, h3, h4, h5⟩ := ih (deliverBody s b)
    obtain ⟨g1, g2, g3, g4, g5⟩ := deliverBody_frame s b
    exact ⟨h1.trans g1, h2.trans g2, h3.trans g3, h4.trans g4, h5.trans g5⟩

/-! ## the wanted set -/

/-- the set of characteristics the caller wants events for changes only through subscribe / unsubscribe calls:
    no disconnection, reconnection, listener change or event touches it -/
theorem C12_wanted_persistent (s : St) (e : Ev)
    (he : ∀ cs, e ≠ .subscribe cs ∧ e ≠ .unsubscribe cs ∧ e ≠ .cutSubscribe cs) :
    (step s e).wanted = s.wanted := by
  cases e with
  | subscribe cs => exact absurd rfl (he cs).1
  | unsubscribe cs => exact absurd rfl (he cs).2.1
  | cutSubscribe cs => exact absurd rfl (he cs).2.2
  | drop => rfl
  | connect =>
    simp only [step]
    split
    · rfl
    · simp only [onConnected]; split <;> rfl
  | addListener id k => simp only [step]; split <;> rfl
  | removeListener id => rfl
  | events bodies =>
    simp only [step]
    split
    · exact (burst_frame bodies s).1
    · rfl

/-- subscribe adds exactly the given characteristics, unsubscribe removes exactly them (when the accessory
    reports no per-characteristic error), a subscribe that is cut off still records them -/
theorem C12_wanted_updates (s : St) (cs : List Ch) (x : Ch) :
    (x ∈ (step s (.subscribe cs)).wanted ↔ x ∈ s.wanted ∨ x ∈ cs) ∧
    (x ∈ (step s (.cutSubscribe cs)).wanted ↔ x ∈ s.wanted ∨ x ∈ cs) ∧
    (x ∈ (step s (.unsubscribe cs)).wanted ↔ x ∈ s.wanted ∧ x ∉ cs) := by
  refine ⟨?_, ?_, ?_⟩
  · simp only [step]; split <;> exact mem_union _ _ _
  · simp only [step]; split <;> exact mem_union _ _ _
  · simp only [step]; split <;> exact mem_diff _ _ _

/-! ## re-subscription -/

/-- every successful (re)connection opens a new session on which - unless the polling fallback has been
    entered - the accessory is asked again for exactly the wanted set; the wanted set itself is untouched -/
theorem C12_resubscribed (s : St) (hd : s.connected = false) :
    (step s .connect).connected = true ∧ (step s .connect).session = s.session + 1 ∧
    (step s .connect).wanted = s.wanted ∧ (step s .connect).supports = s.supports ∧
    (s.supports = true → ∀ x, x ∈ (step s .connect).registered ↔ x ∈ s.wanted) ∧
    (s.supports = false → (step s .connect).registered = []) := by
  have hs : step s .connect = onConnected s := by simp [step, hd]
  rw [hs]
  simp only [onConnected]
  by_cases hsup : s.supports = true
  · rw [if_pos hsup]
    refine ⟨rfl, rfl, rfl, rfl, ?_, fun h => by rw [hsup] at h; cases h⟩
    intro _ x
    show x ∈ union [] s.wanted ↔ _
    rw [mem_union]
    simp
  · rw [if_neg hsup]
    exact ⟨rfl, rfl, rfl, rfl, fun h => absurd h hsup, fun _ => rfl⟩

/-- ... and every registered listener is told that the connection is back, exactly once -/
theorem C12_told_connection_back (s : St) (hd : s.connected = false) (l : Listener) (hl : l ∈ s.listeners) :
    { l with log := l.log ++ [[]] } ∈ (step s .connect).listeners ++ (step s .connect).gone := by
  have key : { l with log := l.log ++ [[]] } ∈
      (deliver { s with connected := true, session := s.session + 1, registered := [] } []).listeners ++
      (deliver { s with connected := true, session := s.session + 1, registered := [] } []).gone := by
    simp only [deliver, List.mem_append, List.mem_filter, List.mem_map]
    by_cases hk : l.kind = .removesSelf
    · right; right
      exact ⟨⟨l, hl, rfl⟩, by simp [hk]⟩
    · left; left
      exact ⟨⟨l, hl, rfl⟩, by simp [hk]⟩
  have hs : step s .connect = onConnected s := by simp [step, hd]
  rw [hs]
  simp only [onConnected]
  split <;> exact key

structure Inv (s : St) : Prop where
  covers : s.connected = true → s.supports = true → ∀ x ∈ s.wanted, x ∈ s.registered
  down : s.connected = false → s.registered = []

theorem step_inv (s : St) (e : Ev) (h : Inv s) : Inv (step s e) := by
  cases e with
  | subscribe cs =>
    simp only [step]
    split
    · rename_i hc
      simp only [Bool.and_eq_true] at hc
      refine ⟨fun _ _ x hx => ?_, fun hd => by simp [hc.2] at hd⟩
      rw [mem_union] at hx ⊢
      rcases hx with hx | hx
      · exact Or.inl (h.covers hc.2 hc.1 x hx)
      · exact Or.inr hx
    · rename_i hc
      simp only [Bool.and_eq_true, not_and] at hc
      refine ⟨fun h1 h2 => absurd h1 (hc h2), h.down⟩
  | unsubscribe cs =>
    simp only [step]
    split
    · rename_i hc
      refine ⟨fun _ hs x hx => ?_, fun hd => by simp [hc] at hd⟩
      rw [mem_diff] at hx ⊢
      exact ⟨h.covers hc hs x hx.1, hx.2⟩
    · rename_i hc
      exact ⟨fun h1 => absurd h1 hc, h.down⟩
  | cutSubscribe cs =>
    simp only [step]
    split
    · exact ⟨fun h1 => by simp at h1, fun _ => rfl⟩
    · rename_i hc
      simp only [Bool.and_eq_true, not_and] at hc
      exact ⟨fun h1 h2 => absurd h1 (hc h2), h.down⟩
  | drop => exact ⟨fun h1 => by simp [step] at h1, fun _ => rfl⟩
  | connect =>
    by_cases hc : s.connected = true
    · simp only [step, hc, if_true]; exact h
    · have hd : s.connected = false := by simpa using hc
      obtain ⟨h1, _, h3, hsp, h4, h5⟩ := C12_resubscribed s hd
      refine ⟨fun _ hs x hx => ?_, fun hx => by rw [h1] at hx; cases hx⟩
      rw [hsp] at hs
      rw [h3] at hx
      exact (h4 hs x).mpr hx
  | addListener id k => simp only [step]; split <;> exact ⟨h.covers, h.down⟩
  | removeListener id => exact ⟨h.covers, h.down⟩
  | events bodies =>
    simp only [step]
    split
    · obtain ⟨h1, h2, h3, _, h5⟩ := burst_frame bodies s
      exact ⟨fun a b => by rw [h1, h5]; exact h.covers (h3 ▸ a) (h2 ▸ b), fun a => by rw [h5]; exact h.down (h3 ▸ a)⟩
    · exact h

/-- in every reachable state: while connected (and not in the polling fallback) the accessory has been asked,
    on the current session, for every wanted characteristic; while disconnected nothing is registered -/
theorem C12_registered_covers_wanted (evs : List Ev) : Inv (run {} evs) := by
  have : ∀ s, Inv s → Inv (run s evs) := by
    induction evs with
    | nil => intro s h; exact h
    | cons e es ih => intro s h; exact ih _ (step_inv s e h)
  exact this _ ⟨fun h => by simp at h, fun _ => rfl⟩

/-- the polling fallback is entered only by a subscription request that was cut off by a disconnection -/
theorem C12_fallback_only_by_cut (s : St) (e : Ev) (hs : s.supports = true)
    (hf : (step s e).supports = false) : ∃ cs, e = .cutSubscribe cs ∧ s.connected = true := by
  cases e with
  | subscribe cs => simp only [step] at hf; split at hf <;> simp [hs] at hf
  | unsubscribe cs => simp only [step] at hf; split at hf <;> simp [hs] at hf
  | cutSubscribe cs =>
    refine ⟨cs, rfl, ?_⟩
    simp only [step] at hf
    split at hf
    · rename_i hc; simp only [Bool.and_eq_true] at hc; exact hc.2
    · simp [hs] at hf
  | drop => simp [step, hs] at hf
  | connect =>
    simp only [step] at hf
    split at hf
    · simp [hs] at hf
    · simp only [onConnected] at hf; split at hf <;> simp [deliver, hs] at hf
  | addListener id k => simp only [step] at hf; split at hf <;> simp [hs] at hf
  | removeListener id => simp [step, hs] at hf
  | events bodies =>
    simp only [step] at hf
    split at hf
    · rw [(burst_frame bodies s).2.1, hs] at hf; cases hf
    · simp [hs] at hf

/-! ## delivery -/

theorem fresh_spec (P : List Listener → Nat → Bool) (ids : List Nat) (acc : List Listener)
    (h : ∀ x ∈ acc, x.log = [] ∧ x.kind = .normal) :
    ∀ x ∈ ids.foldl (fun (acc : List Listener) k => if P acc k then acc else acc ++ [⟨k, .normal, []⟩]) acc,
      x.log = [] ∧ x.kind = .normal := by
  induction ids generalizing acc with
  | nil => intro x hx; exact h x hx
  | cons k ks ih =>
    intro x hx
    simp only [List.foldl_cons] at hx
    split at hx
    · exact ih acc h x hx
    · refine ih _ ?_ x hx
      intro y hy
      rcases List.mem_append.mp hy with hy | hy
      · exact h y hy
      · simp at hy; subst hy; exact ⟨rfl, rfl⟩


/-- one delivery calls every listener of the snapshot exactly once - whatever the other listeners do (raise,
    unregister themselves, register new ones) - and leaves the connection alone -/
theorem C12_deliver_exactly_once (s : St) (keys : List Ch) :
    (∀ l ∈ s.listeners, l.kind ≠ .removesSelf → { l with log := l.log ++ [keys] } ∈ (deliver s keys).listeners) ∧
    (∀ l ∈ s.listeners, l.kind = .removesSelf → { l with log := l.log ++ [keys] } ∈ (deliver s keys).gone) ∧
    (∀ l' ∈ (deliver s keys).listeners,
      (∃ l ∈ s.listeners, l' = { l with log := l.log ++ [keys] }) ∨ (l'.log = [] ∧ l'.kind = .normal)) ∧
    (∀ l' ∈ (deliver s keys).gone,
      l' ∈ s.gone ∨ ∃ l ∈ s.listeners, l' = { l with log := l.log ++ [keys] }) ∧
    (deliver s keys).connected = s.connected := by
  refine ⟨?_, ?_, ?_, ?_, rfl⟩
  · intro l hl hk
    simp only [deliver, List.mem_append, List.mem_filter, List.mem_map]
    left
    exact ⟨⟨l, hl, rfl⟩, by simp [hk]⟩
  · intro l hl hk
    simp only [deliver, List.mem_append, List.mem_filter, List.mem_map]
    right
    exact ⟨⟨l, hl, rfl⟩, by simp [hk]⟩
  · intro l' hl'
    unfold deliver at hl'
    simp only at hl'
    rcases List.mem_append.mp hl' with h | h
    · left
      simp only [List.mem_filter, List.mem_map] at h
      obtain ⟨⟨l, hl, rfl⟩, _⟩ := h
      exact ⟨l, hl, rfl⟩
    · right
      exact fresh_spec _ _ [] (by intro x hx; cases hx) l' h
  · intro l' hl'
    simp only [deliver, List.mem_append, List.mem_filter, List.mem_map] at hl'
    rcases hl' with hl' | ⟨⟨l, hl, rfl⟩, _⟩
    · exact Or.inl hl'
    · exact Or.inr ⟨l, hl, rfl⟩

def keysOf : List Body → List (List Ch)
  | [] => []
  | .chars k :: bs => k :: keysOf bs
  | _ :: bs => keysOf bs

/-- a burst of EVENT messages - several per read, or split across reads - reaches every listener that stays
    registered once per message, in the order sent; empty, non-JSON and non-UTF-8 bodies deliver nothing and
    do not disturb the messages around them -/
theorem C12_burst_in_order (bodies : List Body) (s : St) (l : Listener) (hl : l ∈ s.listeners)
    (hk : l.kind ≠ .removesSelf) :
    { l with log := l.log ++ keysOf bodies } ∈ (bodies.foldl deliverBody s).listeners := by
  induction bodies generalizing s l with
  | nil => simpa [keysOf] using hl
  | cons b bs ih =>
    simp only [List.foldl_cons]
    cases b with
    | chars k =>
      have h1 := (C12_deliver_exactly_once s k).1 l hl hk
      have := ih (deliverBody s (.chars k)) { l with log := l.log ++ [k] } h1 hk
      simpa [keysOf, List.append_assoc] using this
    | empty => exact ih s l hl hk
    | notJson => exact ih s l hl hk
    | notUtf8 => exact ih s l hl hk

/-! ## whole histories -/

/-- what a listener that stays registered must have been told by the end of a history -/
def deliveredTo : St → List Ev → List (List Ch)
  | _, [] => []
  | s, e :: es =>
    (match e with
      | .events bodies => if s.connected then keysOf bodies else []
      | .connect => if s.connected then [] else [[]]
      | _ => []) ++ deliveredTo (step s e) es

theorem stays (s : St) (e : Ev) (l : Listener) (hl : l ∈ s.listeners) (hk : l.kind ≠ .removesSelf)
    (hr : e ≠ .removeListener l.id) :
    { l with log := l.log ++ (deliveredTo s [e]) } ∈ (step s e).listeners := by
  cases e with
  | subscribe cs =>
    simp only [deliveredTo, List.append_nil, step]
    split <;> simpa using hl
  | unsubscribe cs =>
    simp only [deliveredTo, List.append_nil, step]
    split <;> simpa using hl
  | cutSubscribe cs =>
    simp only [deliveredTo, List.append_nil, step]
    split <;> simpa using hl
  | drop => simpa [deliveredTo, step] using hl
  | connect =>
    simp only [deliveredTo, List.append_nil, step]
    split
    · simpa using hl
    · have := (C12_deliver_exactly_once { s with connected := true, session := s.session + 1, registered := [] } []).1 l hl hk
      simp only [onConnected]
      split <;> simpa using this
  | addListener id k =>
    simp only [deliveredTo, List.append_nil, step]
    split
    · simpa using hl
    · simp [hl]
  | removeListener id =>
    simp only [deliveredTo, List.append_nil, step, List.mem_filter]
    refine ⟨by simpa using hl, ?_⟩
    simp only [ne_eq, decide_eq_true_eq]
    intro h
    apply hr
    rw [h]
  | events bodies =>
    simp only [deliveredTo, List.append_nil, step]
    split
    · exact C12_burst_in_order bodies s l hl hk
    · simpa using hl

/-- **Exactly once, in order, over whole histories.**  A listener that is registered and is not removed during a
    history has, at its end, been called exactly with the events the accessory sent while the pairing was connected
    (one call per EVENT message, in the order sent) and one "connection is back" call per reconnection - nothing
    more, nothing less, whatever else happened in between (subscribe/unsubscribe, drops, other listeners coming,
    going, raising). -/
theorem C12_history_exactly_once (evs : List Ev) (s : St) (l : Listener) (hl : l ∈ s.listeners)
    (hk : l.kind ≠ .removesSelf) (hr : ∀ e ∈ evs, e ≠ .removeListener l.id) :
    { l with log := l.log ++ deliveredTo s evs } ∈ (run s evs).listeners := by
  induction evs generalizing s l with
  | nil => simpa [deliveredTo, run] using hl
  | cons e es ih =>
    have h1 := stays s e l hl hk (hr e (by simp))
    have := ih (step s e) { l with log := l.log ++ deliveredTo s [e] } h1 hk (fun e' he' => hr e' (by simp [he']))
    simp only [deliveredTo, List.append_nil] at this
    simp only [run, List.foldl_cons, deliveredTo]
    simpa [List.append_assoc, run] using this


/-- junk bodies are ignored without any effect; while disconnected nothing is delivered -/
theorem C12_junk_ignored (s : St) (bodies : List Body) :
    deliverBody s .empty = s ∧ deliverBody s .notJson = s ∧ deliverBody s .notUtf8 = s ∧
    (s.connected = false → step s (.events bodies) = s) := by
  refine ⟨rfl, rfl, rfl, ?_⟩
  intro h; simp [step, h]

/-- events never change what is subscribed, the session or the connection -/
theorem C12_events_frame (s : St) (bodies : List Body) :
    (step s (.events bodies)).wanted = s.wanted ∧ (step s (.events bodies)).registered = s.registered ∧
    (step s (.events bodies)).connected = s.connected ∧ (step s (.events bodies)).supports = s.supports := by
  simp only [step]
  split
  · obtain ⟨h1, h2, h3, _, h5⟩ := burst_frame bodies s
    exact ⟨h1, h5, h3, h2⟩
  · exact ⟨rfl, rfl, rfl, rfl⟩

/-- non-vacuity: subscribe while down, connect (re-subscription + "back"), a raising and a self-removing
    listener next to a normal one, a burst with junk in the middle, a drop and a second connect -/
example :
    let s := run {} [.addListener 1 .normal, .addListener 2 .raises, .addListener 3 .removesSelf,
      .subscribe [(1, 10), (2, 20)], .connect,
      .events [.chars [(1, 10)], .notUtf8, .chars [(2, 20)]], .drop, .connect]
    s.registered = [(1, 10), (2, 20)] ∧ s.session = 2 ∧
    s.listeners = [⟨1, .normal, [[], [(1, 10)], [(2, 20)], []]⟩, ⟨2, .raises, [[], [(1, 10)], [(2, 20)], []]⟩] ∧
    s.gone = [⟨3, .removesSelf, [[]]⟩] := by decide +kernel

/-! ## Overlapping calls: the last effect on a characteristic wins, whatever is in flight -/

theorem ostep_wanted_mem (s : OSt) (e : OEv) (x : Ch) :
    x ∈ (ostep s e).wanted ↔ (match effectOn x e with | some b => b = true | none => x ∈ s.wanted) := by
  cases e with
  | addWanted cs =>
    simp only [ostep, effectOn, mem_union]
    by_cases h : cs.contains x
    · have hx : x ∈ cs := by simpa using h
      simp [h, hx]
    · have hx : x ∉ cs := by simpa using h
      simp [h, hx]
  | removeWanted cs =>
    simp only [ostep, effectOn, mem_diff]
    by_cases h : cs.contains x
    · have hx : x ∈ cs := by simpa using h
      simp [h, hx]
    · have hx : x ∉ cs := by simpa using h
      simp [h, hx]
  | accReg cs => simp [ostep, effectOn]
  | accUnreg cs => simp [ostep, effectOn]
  | drop => simp [ostep, effectOn]
  | reconnect => simp [ostep, effectOn]

theorem lastEffect_append (x : Ch) (a b : List OEv) :
    lastEffect x (a ++ b) = (match lastEffect x b with | some v => some v | none => lastEffect x a) := by
  simp only [lastEffect, List.reverse_append, List.findSome?_append]
  cases List.findSome? (effectOn x) b.reverse <;> rfl

theorem lastEffect_single (x : Ch) (e : OEv) : lastEffect x [e] = effectOn x e := by
  simp only [lastEffect, List.reverse_cons, List.reverse_nil, List.nil_append, List.findSome?_cons,
    List.findSome?_nil]
  cases effectOn x e <;> rfl

theorem lastEffect_mem (x : Ch) (l : List OEv) (v : Bool) (h : lastEffect x l = some v) :
    ∃ e ∈ l, effectOn x e = some v := by
  unfold lastEffect at h
  obtain ⟨e, he, hv⟩ := List.exists_of_findSome?_eq_some h
  exact ⟨e, by simpa using he, hv⟩

/-- **Last effect wins**: after ANY history of overlapping calls a characteristic is in `subscriptions` iff the
    last call-effect naming it (the start of a subscribe, the return of an unsubscribe) was a subscribe's - or,
    if none named it, iff it was there before.  Nothing else (requests arriving, drops, reconnections, effects of
    calls on other characteristics) matters. -/
theorem C12_overlap_last_effect_wins (evs : List OEv) (s : OSt) (x : Ch) :
    x ∈ (orun s evs).wanted ↔ (match lastEffect x evs with | some b => b = true | none => x ∈ s.wanted) := by
  induction evs generalizing s with
  | nil => simp [orun, lastEffect]
  | cons e es ih =>
    have hrun : orun s (e :: es) = orun (ostep s e) es := rfl
    have hl := lastEffect_append x [e] es
    simp only [List.singleton_append] at hl
    rw [hrun, ih, hl, lastEffect_single]
    cases lastEffect x es with
    | some b => simp
    | none => simpa using ostep_wanted_mem s e x

/-- **A subscribe issued while other calls are in flight is kept**: if `subscribe(cs)` starts at any point of a
    history and no unsubscribe naming `x ∈ cs` RETURNS afterwards, `x` is in `subscriptions` at the end - in
    particular when an `unsubscribe(X)` with `x ∉ X` was issued earlier and returns later. -/
theorem C12_overlap_concurrent_subscribe_kept (pre post : List OEv) (s : OSt) (cs : List Ch) (x : Ch)
    (hx : x ∈ cs) (hpost : ∀ e ∈ post, effectOn x e ≠ some false) :
    x ∈ (orun s (pre ++ [.addWanted cs] ++ post)).wanted := by
  rw [C12_overlap_last_effect_wins, lastEffect_append, lastEffect_append, lastEffect_single]
  have hadd : effectOn x (.addWanted cs) = some true := by
    simp [effectOn, hx]
  cases hp : lastEffect x post with
  | none => simp [hadd]
  | some b =>
    cases b with
    | true => simp
    | false =>
      obtain ⟨e, he, hv⟩ := lastEffect_mem x post false hp
      exact absurd hv (hpost e he)

/-- **A reconnection asks for exactly what is wanted at that moment** - including what subscribes still in
    flight have added and excluding only what unsubscribes that already returned have removed. -/
theorem C12_overlap_reconnect_registers_wanted (s : OSt) (x : Ch) :
    x ∈ (ostep s .reconnect).registered ↔ x ∈ s.wanted := by
  simp [ostep, mem_union]

/-- sequential calls are the special case: on a connected pairing `subscribe` / `unsubscribe` of the base
    automaton change `wanted` exactly as the start of a subscribe / the return of an unsubscribe do here -/
theorem C12_overlap_extends_sequential (s : St) (cs : List Ch) :
    (step s (.subscribe cs)).wanted = (ostep ⟨s.wanted, s.registered⟩ (.addWanted cs)).wanted ∧
    (step s (.unsubscribe cs)).wanted = (ostep ⟨s.wanted, s.registered⟩ (.removeWanted cs)).wanted := by
  constructor
  · simp only [step, ostep]; split <;> rfl
  · simp only [step, ostep]; split <;> rfl

/-- non-vacuity, the schedule of a snapshot bug: `unsubscribe({2.20})` is unanswered, `subscribe({1.10, 1.11})`
    starts and is registered by the accessory, then the unsubscribe returns; after a drop and a reconnection the
    accessory is asked again for 1.10 and 1.11 -/
example :
    let s := orun { wanted := [(2, 20)], registered := [(2, 20)] }
      [.accUnreg [(2, 20)], .addWanted [(1, 10), (1, 11)], .accReg [(1, 10), (1, 11)], .removeWanted [(2, 20)], .drop, .reconnect]
    s.wanted = [(1, 10), (1, 11)] ∧ s.registered = [(1, 10), (1, 11)] := by decide


/-! ## The CoAP event path: every record of a notification is handed over exactly once, in order -/

section CoapEvents
open HapVerif.CoapEvent

/-- **every record of a notification a conformant accessory sends over CoAP is handed to the owner exactly once and in
    order** - any number of records, any instance ids, bodies of any length, EMPTY bodies at every position included -/
theorem C12_coap_event_records (rs : List Rec) (hne : rs ≠ []) (hwf : ∀ r ∈ rs, WF r) :
    parse (encode rs) = (rs, .ok) :=
  HapVerif.CoapEventP.loop_encode rs hne hwf _ (by
    have := HapVerif.CoapEventP.encode_length_ge rs
    omega)

/-- non-vacuity, and the shape an early stop gets wrong: two records, the last with an empty body -/
example : parse (encode [⟨51, [1, 1, 1]⟩, ⟨56, []⟩]) = ([⟨51, [1, 1, 1]⟩, ⟨56, []⟩], .ok) :=
  C12_coap_event_records _ (by simp) (by intro r hr; simp at hr; rcases hr with rfl | rfl <;> simp [WF])

/-- a notification that ends inside a record header is a `struct.error` - after the complete records before it have been
    handed over (they are not taken back) -/
theorem C12_coap_event_truncated_header (r : Rec) (hwf : WF r) (junk : Bytes) (hj : 0 < junk.length) (hj5 : junk.length < 5) :
    parse (encode [r] ++ junk) = ([r], .structError) := by
  obtain ⟨hi, hl⟩ := hwf
  have hlen : (encode [r] ++ junk).length = 5 + r.body.length + junk.length := by
    simp [encode, HapVerif.CoapEventP.encRec_length]
  have henc : encode [r] ++ junk = 0 :: (natToLe 2 r.iid ++ (natToLe 2 r.body.length ++ (r.body ++ junk))) := by
    simp [encode, encRec, List.append_assoc]
  unfold parse
  rw [hlen, henc]
  unfold loop
  have h5 : ¬ (0 :: (natToLe 2 r.iid ++ (natToLe 2 r.body.length ++ (r.body ++ junk)))).length < 5 := by
    simp [natToLe_length]; omega
  simp only [h5, ↓reduceIte]
  have d1 : (0 :: (natToLe 2 r.iid ++ (natToLe 2 r.body.length ++ (r.body ++ junk)))).drop 1
      = natToLe 2 r.iid ++ (natToLe 2 r.body.length ++ (r.body ++ junk)) := rfl
  have d3 : (0 :: (natToLe 2 r.iid ++ (natToLe 2 r.body.length ++ (r.body ++ junk)))).drop 3
      = natToLe 2 r.body.length ++ (r.body ++ junk) := by
    show (natToLe 2 r.iid ++ _).drop 2 = _
    rw [List.drop_append_of_le_length (by simp [natToLe_length]), List.drop_of_length_le (by simp [natToLe_length])]
    rfl
  have d5 : ∀ k, (0 :: (natToLe 2 r.iid ++ (natToLe 2 r.body.length ++ (r.body ++ junk)))).drop (5 + k)
      = (r.body ++ junk).drop k := by
    intro k
    rw [show 5 + k = (4 + k) + 1 by omega, List.drop_succ_cons]
    rw [List.drop_append (l₁ := natToLe 2 r.iid)]
    simp only [natToLe_length]
    have : (natToLe 2 r.iid).drop (4 + k) = [] := List.drop_of_length_le (by simp [natToLe_length]; omega)
    rw [this, List.nil_append, show 4 + k - 2 = 2 + k by omega, List.drop_append (l₁ := natToLe 2 r.body.length)]
    simp only [natToLe_length]
    have : (natToLe 2 r.body.length).drop (2 + k) = [] := List.drop_of_length_le (by simp [natToLe_length])
    rw [this, List.nil_append, show 2 + k - 2 = k by omega]
  rw [d1, d3, HapVerif.CoapEventP.le16_natToLe _ hi, HapVerif.CoapEventP.le16_natToLe _ hl]
  have d50 := d5 0
  simp only [Nat.add_zero, List.drop_zero] at d50
  rw [d50, d5 r.body.length]
  have hb : (r.body ++ junk).take r.body.length = r.body := by
    rw [List.take_append_of_le_length (Nat.le_refl _)]; exact List.take_of_length_le (Nat.le_refl _)
  have hr : (r.body ++ junk).drop r.body.length = junk := by
    rw [List.drop_append_of_le_length (Nat.le_refl _), List.drop_of_length_le (Nat.le_refl _), List.nil_append]
  rw [hb, hr]
  have hje : junk.isEmpty = false := by
    cases junk with
    | nil => simp at hj
    | cons _ _ => rfl
  simp only [hje, Bool.false_eq_true, ↓reduceIte]
  -- the next iteration finds fewer than five bytes
  cases hfuel : 5 + r.body.length + junk.length with
  | zero => omega
  | succ n =>
    unfold loop
    simp only [hj5, ↓reduceIte]

/-- **the loop of the model is the loop of the source** (`C12_gen_coap_event_tie`): header format, the five bytes unpacked,
    the body slice, the advance, the start and - the piece an early stop changes - the stop test `offset >= len(payload)`,
    lifted from `EventResource.render_put` on every run (the translator also checks that the stop test is the LAST statement
    of the loop body, so every record is handed over before the loop can stop) -/
theorem C12_gen_coap_event_tie :
    Gen.CoapEvent.fmtSrc = "<BHH" ∧ Gen.CoapEvent.unpackedSrc = "payload[offset:offset + 5]" ∧
    Gen.CoapEvent.bodySrc = "payload[offset + 5:offset + 5 + body_len]" ∧ Gen.CoapEvent.advanceSrc = "5 + body_len" ∧
    Gen.CoapEvent.stopSrc = "offset >= len(payload)" ∧ Gen.CoapEvent.initSrc = "0" := by decide

end CoapEvents

end HapVerif.Subs
